// F7 (property C09: "keys that do not complete a chord are not swallowed: they are delivered in
// their original order").  Append to the END of /repo/src/tests/sim_tests/chord_sim_tests.rs and run
//   cargo test -p kanata --lib --features simulated_output --offline f7_
// Before the fix (HEAD 0e342bc) Layout::tick forwarded what chords v2 lets through with
// `self.queue.extend(chv2.tick_chv2(active_layer).drain(0..))`.  Extend for a Wrapping ArrayDeque
// takes only what fits (the contract cross-checked by the Kani harness
// c09_k_arraydeque_extend_takes_what_fits), so once the 32-slot layout queue is full - a tap-hold
// key still undecided while 16 keys are typed - every further event is lost, releases included:
// LCtrl, P and Q stay pressed for ever (18 key-downs, 15 key-ups).  Without a defchordsv2 block the
// same input is handled by Layout::event (the waiting action resolves to hold, the evicted event is
// processed) and every key comes up again.
#[test]
fn f7_events_beyond_the_layout_queue_capacity_are_not_dropped_with_chords_v2() {
    const CFG_CHV2: &str = "\
(defcfg process-unmapped-keys yes concurrent-tap-hold yes)
(defsrc)
(deflayermap (base) caps (tap-hold 5000 5000 esc lctl))
(defchordsv2
  (f1 f2) f3 200 all-released ()
)";
    const CFG_NOCH: &str = "\
(defcfg process-unmapped-keys yes concurrent-tap-hold yes)
(defsrc)
(deflayermap (base) caps (tap-hold 5000 5000 esc lctl))
";
    const INPUT: &str = "d:caps t:10 \
 d:a t:2 u:a t:2 d:b t:2 u:b t:2 d:c t:2 u:c t:2 d:d t:2 u:d t:2 d:e t:2 u:e t:2 \
 d:f t:2 u:f t:2 d:g t:2 u:g t:2 d:h t:2 u:h t:2 d:i t:2 u:i t:2 d:j t:2 u:j t:2 \
 d:k t:2 u:k t:2 d:l t:2 u:l t:2 d:m t:2 u:m t:2 d:n t:2 u:n t:2 d:o t:2 u:o t:2 \
 d:p t:2 d:q t:2 u:q t:2 u:p t:2 u:caps t:6000";
    let with = simulate(CFG_CHV2, INPUT).to_ascii();
    let without = simulate(CFG_NOCH, INPUT).to_ascii();
    // every key that went down must come up again
    for r in [&with, &without] {
        let downs = r.matches("dn:").count();
        let ups = r.matches("up:").count();
        assert_eq!(downs, ups, "{r}");
    }
}
