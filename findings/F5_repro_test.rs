// Reproduction of finding F5 (C02): an accepted configuration that panics at run time.
// Append to src/tests/sim_tests/mod.rs and run
//   cargo test -p kanata --lib --features simulated_output f5_
// Before the fix: keyberon/src/layout.rs "index out of bounds: the len is 768 but the index is 853".
#[test]
fn f5_chordv2_use_defsrc_does_not_panic() {
    simulate(
        "(defcfg concurrent-tap-hold yes) (defsrc a b) (deflayer l a b) (defchordsv2 (a b) use-defsrc 200 all-released ())",
        "d:a t:10 d:b t:300 u:a u:b t:100",
    );
}
