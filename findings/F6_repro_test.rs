// F6 (property C09: "keys that do not complete a chord are not swallowed").  Append to the END of
// /repo/src/tests/sim_tests/vkey_sim_tests.rs and run
//   cargo test -p kanata --lib --features simulated_output --offline f6_
// Before the fix (HEAD 2fd9ec0) the 9th virtual key's tap is lost as soon as a defchordsv2 block
// exists anywhere in the configuration: pressing `a` queues 18 events (9 taps) within one tick;
// chords v2 forwards its input queue with `drainq.extend(self.queue.drain(0..))` while chords are
// being ignored, the drain queue holds 16, and arraydeque's Extend for a Wrapping deque takes only
// what fits - the drained remainder is dropped.  Without the defchordsv2 line all nine are typed.
#[test]
fn f6_events_beyond_the_drain_queue_capacity_are_not_dropped() {
    const CFG2: &str = r"
 (defcfg concurrent-tap-hold yes)
 (defsrc a b c)
 (defvirtualkeys v1 1 v2 2 v3 3 v4 4 v5 5 v6 6 v7 7 v8 8 v9 9)
 (defchordsv2 (b c) x 200 all-released ())
 (deflayer base
    (multi (on-press tap-vkey v1) (on-press tap-vkey v2) (on-press tap-vkey v3) (on-press tap-vkey v4)
           (on-press tap-vkey v5) (on-press tap-vkey v6) (on-press tap-vkey v7) (on-press tap-vkey v8)
           (on-press tap-vkey v9))
    b c
 )
";
    let result = simulate(CFG2, "d:a t:50 u:a t:50").to_ascii();
    for k in ["Kb1", "Kb2", "Kb3", "Kb4", "Kb5", "Kb6", "Kb7", "Kb8", "Kb9"] {
        assert!(result.contains(&format!("dn:{k}")), "missing {k} in {result}");
        assert!(result.contains(&format!("up:{k}")), "missing release of {k} in {result}");
    }
}
