// Reproduction of finding F4 (C03 / C02): a configuration text that panics the parser.
// Append to src/tests/sim_tests/mod.rs and run
//   cargo test -p kanata --lib --features simulated_output f4_
// Before the fix: "index out of bounds: the len is 767 but the index is 767"
// (parser/src/cfg/mod.rs, parse_layers). After: passes.
#[test]
fn f4_key_code_767_does_not_panic() {
    simulate(
        "(deflocalkeys-linux kmax 767) (defsrc kmax a) (deflayer l b kmax)",
        "d:kmax t:10 u:kmax t:10 d:a t:10 u:a t:10",
    );
}
