// Reproduction of finding F3 (C02 / C19): an accepted configuration that panics at run time.
// Drop into src/tests/sim_tests/ (add `mod f3_repro_test;` to sim_tests/mod.rs) and run
//   cargo test -p kanata --lib --features simulated_output f3_
// Panics before the fix ("removal index (is 18446744073709551615) should be < len (is 0)" /
// "attempt to subtract with overflow"); passes after it.
use super::*;

#[test]
fn f3_stop_recording_with_nothing_recorded_does_not_panic() {
    simulate(
        "(defsrc a b) (deflayer l (multi (dynamic-macro-record 1) (dynamic-macro-record 1)) (multi (dynamic-macro-record 2) dynamic-macro-record-stop))",
        "d:a t:10 u:a t:10 d:b t:10 u:b t:10",
    );
}
