//! Kani contract harnesses for custom_tap_hold (included from /repo/parser/src/cfg/custom_tap_hold.rs under cfg(kani)).
#![allow(unused_imports, dead_code)]
use super::*;
