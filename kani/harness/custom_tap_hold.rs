//! Kani contract harnesses for parser/src/cfg/custom_tap_hold.rs (property C05: the `keys`
//! variants of tap-hold) (included from /repo/parser/src/cfg/custom_tap_hold.rs under cfg(kani)).
#![allow(unused_imports, dead_code)]
use super::*;
use kanata_keyberon::layout::verif_with_queued_iter;

const CQ_N: usize = 3;

// The allocation tracker (a parking_lot mutex around a Vec of addresses) is irrelevant to what
// the closures compute and makes the Kani compiler crash on an atomic intrinsic; it is stubbed
// by plain leaking boxes.  Stubs are listed in the evidence (trusted base).
fn stub_sref<T>(_a: &Allocations, v: T) -> &'static T {
    Box::leak(Box::new(v))
}
fn stub_bref_slice<T>(_a: &Allocations, v: Box<[T]>) -> &'static [T] {
    Box::leak(v)
}
fn mk_alloc() -> std::sync::Arc<Allocations> {
    unsafe { Allocations::new() }
}

fn any_event() -> Event {
    let j: u16 = kani::any();
    kani::assume(j < 4);
    if kani::any() {
        Event::Press(0, j)
    } else {
        Event::Release(0, j)
    }
}

/// tap-hold-release-keys: "a listed key pressed -> tap" early; otherwise as tap-hold-release
/// (another key pressed AND THEN released -> hold); scanning the queue in order.
/// Listed key: KEY_1 (code 2).  Bound: queue <= 3 events over keys 0..4.
#[kani::proof]
#[kani::unwind(6)]
#[kani::stub(Allocations::sref, stub_sref)]
#[kani::stub(Allocations::bref_slice, stub_bref_slice)]
fn c05_b_custom_release_keys() {
    let a = mk_alloc();
    let f = custom_tap_hold_release(&[OsCode::KEY_1], &a);
    let evs = [(any_event(), 0u16), (any_event(), 0u16), (any_event(), 0u16)];
    let n: usize = kani::any();
    kani::assume(n <= CQ_N);
    let (r, skip) = verif_with_queued_iter(&evs[..n], |it| f(it));
    // oracle: first press (in queue order) that decides
    let mut want: Option<WaitingAction> = None;
    let mut i = 0;
    while i < n && want.is_none() {
        if let Event::Press(_, j) = evs[i].0 {
            if j == 2 {
                want = Some(WaitingAction::Tap);
            } else {
                let mut k = i + 1;
                while k < n {
                    if evs[k].0 == Event::Release(0, j) {
                        want = Some(WaitingAction::Hold);
                    }
                    k += 1;
                }
            }
        }
        i += 1;
    }
    core::mem::forget(a);
    assert!(r == want);
    assert!(!skip);
    kani::cover!(n == CQ_N && r == Some(WaitingAction::Hold), "hold with full queue");
    kani::cover!(n == CQ_N && r == Some(WaitingAction::Tap), "tap with full queue");
}

/// tap-hold-except-keys: a listed key pressed -> tap; another key pressed -> normal timeout
/// handling; no press at all -> keep waiting even past the timeout.
#[kani::proof]
#[kani::unwind(6)]
#[kani::stub(Allocations::sref, stub_sref)]
#[kani::stub(Allocations::bref_slice, stub_bref_slice)]
fn c05_b_custom_except_keys() {
    let a = mk_alloc();
    let f = custom_tap_hold_except(&[OsCode::KEY_1], &a);
    let evs = [(any_event(), 0u16), (any_event(), 0u16), (any_event(), 0u16)];
    let n: usize = kani::any();
    kani::assume(n <= CQ_N);
    let (r, skip) = verif_with_queued_iter(&evs[..n], |it| f(it));
    core::mem::forget(a);
    let mut first_press: Option<u16> = None;
    let mut i = n;
    while i > 0 {
        i -= 1;
        if let Event::Press(_, j) = evs[i].0 {
            first_press = Some(j);
        }
    }
    match first_press {
        Some(2) => assert!(r == Some(WaitingAction::Tap) && !skip),
        Some(_) => assert!(r.is_none() && !skip),
        None => assert!(r.is_none() && skip),
    }
}

/// must-fail twin: claims release-keys never holds
#[kani::proof]
#[kani::unwind(6)]
#[kani::stub(Allocations::sref, stub_sref)]
#[kani::stub(Allocations::bref_slice, stub_bref_slice)]
fn c05_b_custom_release_keys_neg() {
    let a = mk_alloc();
    let f = custom_tap_hold_release(&[OsCode::KEY_1], &a);
    let evs = [(any_event(), 0u16), (any_event(), 0u16)];
    let (r, _) = verif_with_queued_iter(&evs[..2], |it| f(it));
    core::mem::forget(a);
    assert!(r != Some(WaitingAction::Hold));
}
