//! Kani contract harnesses for parser/src/keys (property C11)
//! (included from /repo/parser/src/keys/mod.rs under cfg(kani)).
#![allow(unused_imports, dead_code)]
use super::*;

/// K1 + K3 (complete: every u16), one call of from_u16 per code:
/// K3: every code of 0..=748 and 767 is known (749..=766 are placeholder variants without an OS
///     mapping on the unchanged tree; giving them one later is not a violation), nothing above
///     KEY_MAX is known, and the reserved no-op output range 0x2a4..=0x2ad is known.
/// K1: whatever code the OS layer accepts survives every conversion: from_u16(c) = Some(o)
///     ==> o.as_u16() = c, KeyCode::from(o) has the same number, and converting back gives o.
///     "The internal and OS code spaces coincide value for value."
#[kani::proof]
fn c11_k_codes() {
    let c: u16 = kani::any();
    let r = OsCode::from_u16(c);
    // no key that kanata knows today may become unknown (a dropped table row) ...
    assert!(!(c <= 748 || c == 767) || r.is_some());
    // ... and every known code is a valid layer-row column (see c02_k_key_max_fits_row); new
    // codes may be added inside that range without breaking the property
    assert!(r.is_none() || c <= OsCode::KEY_MAX as u16);
    assert!(!(c >= 0x2a4 && c <= 0x2ad) || r.is_some());
    if let Some(o) = r {
        assert!(o.as_u16() == c);
        assert!(u16::from(o) == c);
        assert!(usize::from(o) == c as usize && u32::from(o) == c as u32 && i32::from(o) == c as i32);
        let k: KeyCode = o.into();
        assert!(k as u16 == c);
        let back: OsCode = k.into();
        assert!(back == o);
        assert!(back.as_u16() == c);
        let k2: KeyCode = (&o).into();
        assert!(k2 == k);
        let o2: OsCode = (&k).into();
        assert!(o2 == o);
    }
    kani::cover!(r.is_some() && c == 767);
}

/// must-fail twin of K3: claims every code below 768 is known
#[kani::proof]
fn c11_k_codes_neg() {
    let c: u16 = kani::any();
    kani::assume(c < 768);
    assert!(OsCode::from_u16(c).is_some());
}

/// K2 (complete: every value 0..=767, run with -Z valid-value-checks): the two transmuting
/// conversions never construct an invalid enum value and preserve the number.
#[kani::proof]
fn c11_k_transmute_valid() {
    let c: u16 = kani::any();
    kani::assume(c <= 767);
    let k: KeyCode = unsafe { core::mem::transmute::<u16, KeyCode>(c) };
    let o: OsCode = k.into();
    assert!(o as u16 == c);
    let k2: KeyCode = o.into();
    assert!(k2 as u16 == c);
    assert!(k2 == k);
}

/// must-fail twin of K2: 768 is not a code of either space
#[kani::proof]
fn c11_k_transmute_valid_neg() {
    let c: u16 = kani::any();
    kani::assume(c <= 768);
    let k: KeyCode = unsafe { core::mem::transmute::<u16, KeyCode>(c) };
    let o: OsCode = k.into();
    assert!(o as u16 == c);
}

/// TryFrom<usize> / From<u32> / From<u16> agree with from_u16 on the known codes
#[kani::proof]
fn c11_k_int_conversions() {
    let c: u16 = kani::any();
    kani::assume(c <= 748 || c == 767);
    let a = OsCode::from_u16(c).unwrap();
    let b: OsCode = OsCode::try_from(c as usize).unwrap();
    assert!(a == b);
    let d: OsCode = OsCode::from(c);
    assert!(a == d);
    let e: OsCode = OsCode::from(c as u32);
    assert!(a == e);
}
