//! Kani contract harnesses for keys (included from /repo/parser/src/keys/mod.rs under cfg(kani)).
#![allow(unused_imports, dead_code)]
use super::*;
