//! Kani contract harnesses for cfg (included from /repo/parser/src/cfg/mod.rs under cfg(kani)).
#![allow(unused_imports, dead_code)]
use super::*;
