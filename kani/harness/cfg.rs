//! Kani contract harnesses for parser/src/cfg/mod.rs (property C11: defsrc identity layer)
//! (included from /repo/parser/src/cfg/mod.rs under cfg(kani)).
#![allow(unused_imports, dead_code)]
use super::*;

/// B-K5: the defsrc layer maps every known code to itself and index 0 to no-op.
/// The loop is concrete (KEYS_IN_ROW iterations); the inspected index is symbolic.
#[kani::proof]
#[kani::unwind(770)]
fn c11_b_defsrc_identity() {
    let layer = create_defsrc_layer();
    let i: usize = kani::any();
    kani::assume(i < KEYS_IN_ROW);
    match layer[i] {
        Action::KeyCode(kc) => {
            assert!(i != 0);
            assert!(kc as u16 as usize == i);
            assert!(i <= 748 || i == 767);
        }
        Action::NoOp => assert!(i == 0 || (i > 748 && i != 767)),
        _ => panic!("defsrc layer holds something other than a key or no-op"),
    }
}

/// C02 / C03: every key code kanata knows (0..=OsCode::KEY_MAX, see c11_k_codes) is used as a
/// column index into a layer row of KEYS_IN_ROW actions (parse_layers, Layout::resolve_coord,
/// src_keys): the row must be wide enough for the largest code.
#[kani::proof]
fn c02_k_key_max_fits_row() {
    assert!((OsCode::KEY_MAX as usize) < KEYS_IN_ROW);
    // a code accepted by deflocalkeys / defsrc: any c with from_u16(c) = Some(_) is <= KEY_MAX
    let c: u16 = kani::any();
    kani::assume(c <= OsCode::KEY_MAX as u16);
    assert!((c as usize) < KEYS_IN_ROW);
    let row = [KanataAction::NoOp; KEYS_IN_ROW];
    let _ = row[c as usize];
}
