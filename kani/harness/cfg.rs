//! Kani contract harnesses for parser/src/cfg/mod.rs (property C11: defsrc identity layer)
//! (included from /repo/parser/src/cfg/mod.rs under cfg(kani)).
#![allow(unused_imports, dead_code)]
use super::*;

/// B-K5: the defsrc layer maps every known code to itself and index 0 to no-op.
/// The loop is concrete (KEYS_IN_ROW iterations); the inspected index is symbolic.
#[kani::proof]
#[kani::unwind(770)]
fn c11_b_defsrc_identity() {
    let layer = create_defsrc_layer();
    let i: usize = kani::any();
    kani::assume(i < KEYS_IN_ROW);
    match layer[i] {
        Action::KeyCode(kc) => {
            assert!(i != 0);
            assert!(kc as u16 as usize == i);
            assert!(i <= 748);
        }
        Action::NoOp => assert!(i == 0 || i > 748),
        _ => panic!("defsrc layer holds something other than a key or no-op"),
    }
}
