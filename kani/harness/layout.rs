//! Kani contract harnesses for layout (included from /repo/keyberon/src/layout.rs under cfg(kani)).
#![allow(unused_imports, dead_code)]
use super::*;
