//! Kani contract harnesses for keyberon/src/layout.rs
//! (included from /repo/keyberon/src/layout.rs under cfg(kani)).
//! Properties: C06 (one-shot), C05 (tap-hold), C17 (tap-dance), C09 (chords v1), C02.
//!
//! Oracles are the postconditions written from the property statements / user documentation.
#![allow(unused_imports, dead_code, unused_mut)]
use super::*;

// =======================================================================================
// C06  OneShotState::{handle_press, handle_release, tick_osh}
// Bound: every table holds at most OSH_N entries (the real capacity is 16; the wrap of a full
// table is covered by c06_b_release_overflow).
// =======================================================================================
const OSH_N: usize = 3;

fn any_coord() -> KCoord {
    // coordinates are compared only for equality; a small universe makes collisions likely
    let r: u8 = kani::any();
    let c: u16 = kani::any();
    kani::assume(r < 2 && c < 4);
    (r, c)
}

fn any_table() -> ([KCoord; OSH_N], usize, OneShotCoords) {
    let arr: [KCoord; OSH_N] = core::array::from_fn(|_| any_coord());
    let n: usize = kani::any();
    kani::assume(n <= OSH_N);
    let mut d: OneShotCoords = ArrayDeque::new();
    let mut i = 0;
    while i < n {
        let _ = d.push_back(arr[i]);
        i += 1;
    }
    (arr, n, d)
}

fn any_end_config() -> OneShotEndConfig {
    let k: u8 = kani::any();
    kani::assume(k < 4);
    match k {
        0 => OneShotEndConfig::EndOnFirstPress,
        1 => OneShotEndConfig::EndOnFirstPressOrRepress,
        2 => OneShotEndConfig::EndOnFirstRelease,
        _ => OneShotEndConfig::EndOnFirstReleaseOrRepress,
    }
}
fn is_press_variant(c: OneShotEndConfig) -> bool {
    matches!(c, OneShotEndConfig::EndOnFirstPress | OneShotEndConfig::EndOnFirstPressOrRepress)
}
fn is_release_variant(c: OneShotEndConfig) -> bool {
    matches!(c, OneShotEndConfig::EndOnFirstRelease | OneShotEndConfig::EndOnFirstReleaseOrRepress)
}
fn is_repress_variant(c: OneShotEndConfig) -> bool {
    matches!(c, OneShotEndConfig::EndOnFirstPressOrRepress | OneShotEndConfig::EndOnFirstReleaseOrRepress)
}

struct OshModel {
    keys: ([KCoord; OSH_N], usize),
    released: ([KCoord; OSH_N], usize),
    other: ([KCoord; OSH_N], usize),
    timeout: u16,
    end_config: OneShotEndConfig,
    release_on_next_tick: bool,
    delay: u16,
    pause_ticks: u16,
    ignore: u16,
}

fn any_osh() -> (OneShotState, OshModel) {
    let (ka, kn, keys) = any_table();
    let (ra, rn, released_keys) = any_table();
    let (oa, on, other_pressed_keys) = any_table();
    let m = OshModel {
        keys: (ka, kn),
        released: (ra, rn),
        other: (oa, on),
        timeout: kani::any(),
        end_config: any_end_config(),
        release_on_next_tick: kani::any(),
        delay: kani::any(),
        pause_ticks: kani::any(),
        ignore: kani::any(),
    };
    let s = OneShotState {
        keys,
        released_keys,
        other_pressed_keys,
        timeout: m.timeout,
        end_config: m.end_config,
        release_on_next_tick: m.release_on_next_tick,
        pause_input_processing_delay: m.delay,
        pause_input_processing_ticks: m.pause_ticks,
        ticks_to_ignore_events: m.ignore,
    };
    (s, m)
}

fn table_is(d: &OneShotCoords, arr: &[KCoord; OSH_N], n: usize) -> bool {
    if d.len() != n {
        return false;
    }
    let mut i = 0;
    while i < n {
        if d[i] != arr[i] {
            return false;
        }
        i += 1;
    }
    true
}
fn arr_contains(arr: &[KCoord; OSH_N], n: usize, c: KCoord) -> bool {
    let mut i = 0;
    let mut r = false;
    while i < n {
        if arr[i] == c {
            r = true;
        }
        i += 1;
    }
    r
}

/// handle_press(Other): a non-one-shot key was pressed.
#[kani::proof]
#[kani::unwind(6)]
fn c06_b_press_other() {
    let (mut s, m) = any_osh();
    let c = any_coord();
    let out = s.handle_press(OneShotHandlePressKey::Other(c));
    let active = m.keys.1 > 0 && m.ignore == 0;
    // frame: never touched by a press of another key
    assert!(table_is(&s.keys, &m.keys.0, m.keys.1));
    assert!(table_is(&s.released_keys, &m.released.0, m.released.1));
    assert!(s.release_on_next_tick == m.release_on_next_tick);
    assert!(s.end_config == m.end_config);
    assert!(s.ticks_to_ignore_events == m.ignore);
    assert!(s.pause_input_processing_delay == m.delay);
    if !active {
        // no one-shot active (or events ignored): nothing is modified, nothing is reported
        assert!(out.is_empty());
        assert!(s.timeout == m.timeout && s.pause_input_processing_ticks == m.pause_ticks);
        assert!(table_is(&s.other_pressed_keys, &m.other.0, m.other.1));
    } else {
        // the caller learns exactly the active one-shot keys, in order
        assert!(table_is(&out, &m.keys.0, m.keys.1));
        if is_press_variant(m.end_config) {
            // press variants: the one-shot ends within the rapid-event delay, never later than
            // its own timeout, and input is paused meanwhile
            let want = if m.delay < m.timeout { m.delay } else { m.timeout };
            assert!(s.timeout == want);
            assert!(s.pause_input_processing_ticks == m.delay);
            assert!(table_is(&s.other_pressed_keys, &m.other.0, m.other.1));
        } else {
            // release variants: remember the key, so that ITS release ends the one-shot
            assert!(s.timeout == m.timeout && s.pause_input_processing_ticks == m.pause_ticks);
            assert!(s.other_pressed_keys.len() == m.other.1 + 1);
            assert!(s.other_pressed_keys[m.other.1] == c);
            let mut i = 0;
            while i < m.other.1 {
                assert!(s.other_pressed_keys[i] == m.other.0[i]);
                i += 1;
            }
        }
    }
    kani::cover!(active && m.keys.1 == OSH_N && is_press_variant(m.end_config), "bound attained (press variant)");
    kani::cover!(active && m.other.1 == OSH_N && is_release_variant(m.end_config), "bound attained (release variant)");
}

/// handle_press(OneShotKey): a one-shot key was pressed (again).
#[kani::proof]
#[kani::unwind(6)]
fn c06_b_press_oneshot_key() {
    let (mut s, m) = any_osh();
    let c = any_coord();
    let out = s.handle_press(OneShotHandlePressKey::OneShotKey(c));
    let active = m.keys.1 > 0 && m.ignore == 0;
    assert!(table_is(&s.keys, &m.keys.0, m.keys.1));
    assert!(table_is(&s.other_pressed_keys, &m.other.0, m.other.1));
    assert!(s.timeout == m.timeout && s.pause_input_processing_ticks == m.pause_ticks);
    assert!(s.end_config == m.end_config && s.ticks_to_ignore_events == m.ignore);
    if !active {
        assert!(out.is_empty());
        assert!(s.release_on_next_tick == m.release_on_next_tick);
        assert!(table_is(&s.released_keys, &m.released.0, m.released.1));
    } else {
        let cancel = is_repress_variant(m.end_config) && arr_contains(&m.keys.0, m.keys.1, c);
        if cancel {
            // pcancel variants end on re-press of an active one-shot key
            assert!(s.release_on_next_tick);
            assert!(table_is(&out, &m.keys.0, m.keys.1));
        } else {
            assert!(s.release_on_next_tick == m.release_on_next_tick);
            assert!(out.is_empty());
        }
        // a held one-shot key acts as the plain key: its deferred release is forgotten,
        // everything else stays deferred, in order
        let mut want = [(0u8, 0u16); OSH_N];
        let mut wn = 0;
        let mut i = 0;
        while i < m.released.1 {
            if m.released.0[i] != c {
                want[wn] = m.released.0[i];
                wn += 1;
            }
            i += 1;
        }
        assert!(table_is(&s.released_keys, &want, wn));
    }
    kani::cover!(active && is_repress_variant(m.end_config) && arr_contains(&m.keys.0, m.keys.1, c), "cancel path reached");
    kani::cover!(active && m.released.1 == OSH_N && arr_contains(&m.released.0, m.released.1, c), "deferred release forgotten");
}

/// handle_release
#[kani::proof]
#[kani::unwind(6)]
fn c06_b_release() {
    let (mut s, m) = any_osh();
    let c = any_coord();
    let (normal, overflow) = s.handle_release(c);
    // frame
    assert!(table_is(&s.keys, &m.keys.0, m.keys.1));
    assert!(table_is(&s.other_pressed_keys, &m.other.0, m.other.1));
    assert!(s.timeout == m.timeout && s.pause_input_processing_ticks == m.pause_ticks);
    assert!(s.end_config == m.end_config && s.ticks_to_ignore_events == m.ignore);
    if m.keys.1 == 0 {
        assert!(normal && overflow.is_none());
        assert!(s.release_on_next_tick == m.release_on_next_tick);
        assert!(table_is(&s.released_keys, &m.released.0, m.released.1));
    } else if arr_contains(&m.keys.0, m.keys.1, c) {
        // the release of an active one-shot key is deferred, not applied
        assert!(!normal);
        assert!(overflow.is_none()); // table below capacity
        assert!(s.released_keys.len() == m.released.1 + 1);
        assert!(s.released_keys[m.released.1] == c);
        assert!(s.release_on_next_tick == m.release_on_next_tick);
    } else {
        // any other key is released normally; in the release variants the release of the first
        // key pressed after the one-shot ends it
        assert!(normal && overflow.is_none());
        assert!(table_is(&s.released_keys, &m.released.0, m.released.1));
        let ends = is_release_variant(m.end_config) && arr_contains(&m.other.0, m.other.1, c);
        assert!(s.release_on_next_tick == (m.release_on_next_tick || ends));
    }
    kani::cover!(m.keys.1 == OSH_N && arr_contains(&m.keys.0, m.keys.1, c), "deferred");
    kani::cover!(m.keys.1 > 0 && !arr_contains(&m.keys.0, m.keys.1, c) && is_release_variant(m.end_config)
        && arr_contains(&m.other.0, m.other.1, c), "release variant end reached");
}

/// a 17th deferred release evicts (returns) the oldest instead of being lost
#[kani::proof]
#[kani::unwind(20)]
fn c06_b_release_overflow() {
    let mut s = OneShotState {
        keys: ArrayDeque::new(),
        released_keys: ArrayDeque::new(),
        other_pressed_keys: ArrayDeque::new(),
        timeout: kani::any(),
        end_config: any_end_config(),
        release_on_next_tick: false,
        pause_input_processing_delay: 0,
        pause_input_processing_ticks: 0,
        ticks_to_ignore_events: 0,
    };
    let first: u16 = kani::any();
    let mut i: u16 = 0;
    while i < ONE_SHOT_MAX_ACTIVE as u16 {
        let _ = s.released_keys.push_back((0, first.wrapping_add(i)));
        i += 1;
    }
    let k: KCoord = (1, kani::any());
    let _ = s.keys.push_back(k);
    let (normal, overflow) = s.handle_release(k);
    assert!(!normal);
    assert!(overflow == Some((0, first)));
    assert!(s.released_keys.len() == ONE_SHOT_MAX_ACTIVE);
    assert!(s.released_keys[ONE_SHOT_MAX_ACTIVE - 1] == k);
}

/// tick_osh
#[kani::proof]
#[kani::unwind(6)]
fn c06_b_tick() {
    let (mut s, m) = any_osh();
    let out = s.tick_osh();
    if m.keys.1 == 0 {
        // idle: nothing happens
        assert!(out.is_none());
        assert!(s.timeout == m.timeout && s.ticks_to_ignore_events == m.ignore);
        assert!(s.release_on_next_tick == m.release_on_next_tick);
        assert!(table_is(&s.released_keys, &m.released.0, m.released.1));
        assert!(table_is(&s.other_pressed_keys, &m.other.0, m.other.1));
    } else {
        let t = m.timeout.saturating_sub(1);
        if m.release_on_next_tick || t == 0 {
            // expiry: exactly the deferred releases are handed back, in order, and the one-shot
            // state is completely cleared: it affects nothing after this point
            let r = out.unwrap();
            assert!(r.len() == m.released.1);
            let mut i = 0;
            while i < m.released.1 {
                assert!(r[i] == m.released.0[i]);
                i += 1;
            }
            assert!(s.keys.is_empty() && s.released_keys.is_empty() && s.other_pressed_keys.is_empty());
            assert!(!s.release_on_next_tick && s.timeout == 0);
            assert!(s.pause_input_processing_ticks == 0 && s.ticks_to_ignore_events == 0);
            // ... so the next key is not modified
            let c = any_coord();
            assert!(s.handle_press(OneShotHandlePressKey::Other(c)).is_empty());
            let (normal, ov) = s.handle_release(c);
            assert!(normal && ov.is_none());
            assert!(s.tick_osh().is_none());
        } else {
            assert!(out.is_none());
            assert!(s.timeout == t);
            assert!(s.ticks_to_ignore_events == m.ignore.saturating_sub(1));
            assert!(table_is(&s.keys, &m.keys.0, m.keys.1));
            assert!(table_is(&s.released_keys, &m.released.0, m.released.1));
            assert!(table_is(&s.other_pressed_keys, &m.other.0, m.other.1));
            assert!(s.pause_input_processing_ticks == m.pause_ticks);
        }
    }
    kani::cover!(m.keys.1 > 0 && m.released.1 == OSH_N && m.timeout == 1, "expiry by timeout with full table");
    kani::cover!(m.keys.1 > 0 && m.timeout > 1 && !m.release_on_next_tick, "still active");
}

/// "or until its timeout elapses": with no other event a one-shot with timeout T expires at
/// exactly the T-th tick (T symbolic up to 6; the per-tick contract above is what generalises).
#[kani::proof]
#[kani::unwind(9)]
fn c06_b_expires_on_time() {
    let t: u16 = kani::any();
    kani::assume(t >= 1 && t <= 6);
    let mut s = OneShotState {
        keys: ArrayDeque::new(),
        released_keys: ArrayDeque::new(),
        other_pressed_keys: ArrayDeque::new(),
        timeout: t,
        end_config: any_end_config(),
        release_on_next_tick: false,
        pause_input_processing_delay: kani::any(),
        pause_input_processing_ticks: 0,
        ticks_to_ignore_events: 0,
    };
    let _ = s.keys.push_back((0, 1));
    let mut n: u16 = 0;
    let mut fired_at: u16 = 0;
    while n < 7 {
        n += 1;
        if s.tick_osh().is_some() && fired_at == 0 {
            fired_at = n;
        }
    }
    assert!(fired_at == t);
}

/// must-fail twin: claims a press of another key never shortens the timeout
#[kani::proof]
#[kani::unwind(6)]
fn c06_b_press_other_neg() {
    let (mut s, m) = any_osh();
    let c = any_coord();
    let _ = s.handle_press(OneShotHandlePressKey::Other(c));
    assert!(s.timeout == m.timeout);
}

// =======================================================================================
// C05  WaitingState::{handle_hold_tap, tick_wt (HoldTap arm)}
// Bound: at most WQ_N queued events.  All u16 timeouts / delays / ages.
// =======================================================================================
const WQ_N: usize = 4;

static NOOP: Action<'static, core::convert::Infallible> = Action::NoOp;

fn small_coord() -> KCoord {
    let c: u16 = kani::any();
    kani::assume(c < 3);
    (0, c)
}

fn any_event() -> Event {
    let (i, j) = small_coord();
    if kani::any() {
        Event::Press(i, j)
    } else {
        Event::Release(i, j)
    }
}

/// a queue of n <= WQ_N symbolic events (and the same events as an array, the abstract view)
fn any_queue() -> (Queue, [Queued; WQ_N], usize) {
    let arr: [Queued; WQ_N] = core::array::from_fn(|_| Queued { event: any_event(), since: kani::any() });
    let n: usize = kani::any();
    kani::assume(n <= WQ_N);
    let mut q: Queue = ArrayDeque::new();
    let mut i = 0;
    while i < n {
        let _ = q.push_back(arr[i]);
        i += 1;
    }
    (q, arr, n)
}

fn queue_is(q: &Queue, arr: &[Queued; WQ_N], n: usize) -> bool {
    if q.len() != n {
        return false;
    }
    let mut i = 0;
    while i < n {
        if q[i].event != arr[i].event || q[i].since != arr[i].since {
            return false;
        }
        i += 1;
    }
    true
}

fn any_waiting(config: WaitingConfig<'static, core::convert::Infallible>) -> WaitingState<'static, core::convert::Infallible> {
    WaitingState {
        coord: small_coord(),
        timeout: kani::any(),
        delay: kani::any(),
        ticks: kani::any(),
        hold: &NOOP,
        tap: &NOOP,
        timeout_action: &NOOP,
        config,
        layer_stack: Vec::new(),
        prev_queue_len: kani::any(),
    }
}

fn any_builtin_cfg() -> (HoldTapConfig<'static>, u8) {
    let k: u8 = kani::any();
    kani::assume(k < 3);
    (
        match k {
            0 => HoldTapConfig::Default,
            1 => HoldTapConfig::HoldOnOtherKeyPress,
            _ => HoldTapConfig::PermissiveHold,
        },
        k,
    )
}

/// the decision the property statement prescribes, over the abstract view of the queue
fn oracle_hold_tap(k: u8, coord: KCoord, timeout: u16, delay: u16, arr: &[Queued; WQ_N], n: usize, skip_timeout: bool) -> Option<WaitingAction> {
    // early triggers
    if k == 1 {
        // "press" variant: another key pressed -> hold
        let mut i = 0;
        while i < n {
            if arr[i].event.is_press() {
                return Some(WaitingAction::Hold);
            }
            i += 1;
        }
    }
    if k == 2 {
        // "release" variant: another key pressed and released -> hold
        let mut i = 0;
        while i < n {
            if let Event::Press(a, b) = arr[i].event {
                let mut j = i + 1;
                while j < n {
                    if arr[j].event == Event::Release(a, b) {
                        return Some(WaitingAction::Hold);
                    }
                    j += 1;
                }
            }
            i += 1;
        }
    }
    // own release: tap iff it came before the hold timeout elapsed
    let mut i = 0;
    while i < n {
        if arr[i].event == Event::Release(coord.0, coord.1) {
            let owed = if delay > arr[i].since { delay - arr[i].since } else { 0 };
            return if timeout > owed { Some(WaitingAction::Tap) } else { Some(WaitingAction::Timeout) };
        }
        i += 1;
    }
    // no release: the timeout action exactly when the timeout has elapsed
    if timeout == 0 && !skip_timeout {
        Some(WaitingAction::Timeout)
    } else {
        None
    }
}

#[kani::proof]
#[kani::unwind(7)]
fn c05_b_handle_hold_tap() {
    let (cfg, k) = any_builtin_cfg();
    let mut w = any_waiting(WaitingConfig::HoldTap(cfg));
    let (q, arr, n) = any_queue();
    let (coord, timeout, delay, ticks, prev) = (w.coord, w.timeout, w.delay, w.ticks, w.prev_queue_len);
    let r = w.handle_hold_tap(cfg, &q);
    // frame: the decision never consumes or reorders pending input, nor the clock
    assert!(queue_is(&q, &arr, n));
    assert!(w.coord == coord && w.timeout == timeout && w.delay == delay && w.ticks == ticks);
    if n as u8 == prev && timeout > 0 {
        // nothing new since the last look and not timed out: still pending
        assert!(r.is_none());
        assert!(w.prev_queue_len == prev);
    } else {
        assert!(w.prev_queue_len == n as u8);
        let want = oracle_hold_tap(k, coord, timeout, delay, &arr, n, false);
        assert!(r == want);
        // exactly one of tap / hold / timeout, never "drop the key"
        assert!(r != Some(WaitingAction::NoOp));
    }
    kani::cover!(n == WQ_N && r == Some(WaitingAction::Tap), "tap with full queue");
    kani::cover!(n == WQ_N && r == Some(WaitingAction::Hold) && k == 2, "permissive hold with full queue");
    kani::cover!(r == Some(WaitingAction::Timeout) && n == 0, "timeout with empty queue");
}

/// tick_wt on a tap-hold: one millisecond passes, then the decision is taken on the new clock.
#[kani::proof]
#[kani::unwind(7)]
fn c05_b_tick_wt_hold_tap() {
    let (cfg, k) = any_builtin_cfg();
    let mut w = any_waiting(WaitingConfig::HoldTap(cfg));
    let (mut q, arr, n) = any_queue();
    let mut aq: ActionQueue<'static, core::convert::Infallible> = ArrayDeque::new();
    let (coord, timeout, delay, ticks, prev) = (w.coord, w.timeout, w.delay, w.ticks, w.prev_queue_len);
    let r = w.tick_wt(&mut q, &mut aq);
    let fired = r.is_some();
    let t1 = timeout.saturating_sub(1);
    assert!(w.timeout == t1);
    assert!(w.ticks == ticks.saturating_add(1));
    assert!(queue_is(&q, &arr, n));
    assert!(aq.is_empty());
    if n as u8 == prev && t1 > 0 {
        assert!(r.is_none());
    } else {
        let want = oracle_hold_tap(k, coord, t1, delay, &arr, n, false);
        match r {
            None => assert!(want.is_none()),
            Some((a, pq)) => {
                assert!(want == Some(a));
                assert!(pq.is_none());
            }
        }
    }
    kani::cover!(timeout == 1 && n == 0 && fired, "fires exactly when the timeout elapses");
}

/// "hold exactly when the timeout elapses": from timeout H with no input, tick_wt stays pending
/// for H-1 calls and returns Timeout at the H-th (H symbolic up to 6).
#[kani::proof]
#[kani::unwind(9)]
fn c05_b_timeout_on_time() {
    let h: u16 = kani::any();
    kani::assume(h >= 1 && h <= 6);
    let (cfg, _k) = any_builtin_cfg();
    let mut w = any_waiting(WaitingConfig::HoldTap(cfg));
    w.timeout = h;
    w.prev_queue_len = QueueLen::MAX;
    let mut q: Queue = ArrayDeque::new();
    let mut aq: ActionQueue<'static, core::convert::Infallible> = ArrayDeque::new();
    let mut n: u16 = 0;
    let mut fired_at: u16 = 0;
    while n < 7 && fired_at == 0 {
        n += 1;
        match w.tick_wt(&mut q, &mut aq) {
            Some((a, _)) => {
                assert!(a == WaitingAction::Timeout);
                fired_at = n;
            }
            None => {}
        }
    }
    assert!(fired_at == h);
}

/// must-fail twin: claims a queued release always means tap
#[kani::proof]
#[kani::unwind(7)]
fn c05_b_handle_hold_tap_neg() {
    let mut w = any_waiting(WaitingConfig::HoldTap(HoldTapConfig::Default));
    let (q, arr, n) = any_queue();
    kani::assume(n >= 1 && arr[0].event == Event::Release(w.coord.0, w.coord.1));
    w.prev_queue_len = QueueLen::MAX;
    let r = w.handle_hold_tap(HoldTapConfig::Default, &q);
    assert!(r == Some(WaitingAction::Tap));
}

/// LastPressTracker: only real-key presses move the tracked coordinate; the repress window
/// counts down and stops at zero.
#[kani::proof]
fn c05_k_last_press_tracker() {
    let mut t = LastPressTracker { coord: (kani::any(), kani::any()), tap_hold_timeout: kani::any() };
    let (c0, t0) = (t.coord, t.tap_hold_timeout);
    t.tick_lpt();
    assert!(t.tap_hold_timeout == t0.saturating_sub(1) && t.coord == c0);
    let c: KCoord = (kani::any(), kani::any());
    t.update_coord(c);
    assert!(t.coord == if c.0 == 0 { c } else { c0 });
}

// =======================================================================================
// C17  tap-dance: WaitingState::{handle_tap_dance, tick_wt (TapDance arm)}, TapDanceEagerState
// Bound: at most WQ_N queued events; action lists of length 1..=4.
// =======================================================================================

static TD_A: [Action<'static, core::convert::Infallible>; 4] =
    [Action::KeyCode(KeyCode::A), Action::KeyCode(KeyCode::B), Action::KeyCode(KeyCode::C), Action::KeyCode(KeyCode::D)];
static TD_REFS: [&Action<'static, core::convert::Infallible>; 4] = [&TD_A[0], &TD_A[1], &TD_A[2], &TD_A[3]];

/// what the queue must look like after a decision: own presses gone, all but the LAST own
/// release gone, everything else in order
fn oracle_evicted(arr: &[Queued; WQ_N], n: usize, coord: KCoord, taps: u16) -> ([Queued; WQ_N], usize) {
    let mut out = *arr;
    let mut m = 0;
    let mut to_remove = taps.saturating_sub(1);
    let mut i = 0;
    while i < n {
        let e = arr[i].event;
        let keep = if e == Event::Release(coord.0, coord.1) {
            if to_remove > 0 {
                to_remove -= 1;
                false
            } else {
                true
            }
        } else {
            e != Event::Press(coord.0, coord.1)
        };
        if keep {
            out[m] = arr[i];
            m += 1;
        }
        i += 1;
    }
    (out, m)
}

#[kani::proof]
#[kani::unwind(7)]
fn c17_b_handle_tap_dance() {
    let max_taps: usize = kani::any();
    kani::assume(max_taps >= 1 && max_taps <= 4);
    let num_taps_in: u16 = kani::any();
    kani::assume(num_taps_in >= 1 && num_taps_in <= 4);
    let w = any_waiting(WaitingConfig::TapDance(TapDanceState { actions: &TD_REFS[..max_taps], timeout: kani::any(), num_taps: num_taps_in }));
    let (mut q, arr, n) = any_queue();
    let (coord, timeout, prev) = (w.coord, w.timeout, w.prev_queue_len);
    let (r, taps) = w.handle_tap_dance(num_taps_in, max_taps, &mut q);
    if n as u8 == prev && timeout > 0 {
        assert!(r.is_none() && taps == num_taps_in);
        assert!(queue_is(&q, &arr, n));
        return;
    }
    if timeout == 0 {
        // the count ends when the timeout passes
        assert!(r == Some(WaitingAction::Tap) && taps == num_taps_in);
        let (want, m) = oracle_evicted(&arr, n, coord, num_taps_in);
        assert!(queue_is(&q, &want, m));
        return;
    }
    // count = 1 + own presses before the first press of another key
    let mut count: u16 = 1;
    let mut interrupted = false;
    let mut i = 0;
    while i < n && !interrupted {
        match arr[i].event {
            Event::Press(a, b) if (a, b) == coord => count += 1,
            Event::Press(..) => interrupted = true,
            _ => {}
        }
        i += 1;
    }
    assert!(taps == count);
    let decided = interrupted || usize::from(count) >= max_taps;
    if decided {
        // ... another key is pressed, or the list is exhausted
        assert!(r == Some(WaitingAction::Tap));
        let (want, m) = oracle_evicted(&arr, n, coord, count);
        assert!(queue_is(&q, &want, m));
    } else {
        assert!(r.is_none());
        assert!(queue_is(&q, &arr, n));
    }
    kani::cover!(n == WQ_N && interrupted && count == 2, "interrupted after two taps");
    kani::cover!(!decided && count == 3, "three taps still counting");
}

/// tick_wt on a tap-dance: the N-th listed action (the last one if N reaches the length), and
/// the timeout restarts exactly when the tap count grew.
#[kani::proof]
#[kani::unwind(7)]
fn c17_b_tick_wt_tap_dance() {
    let max_taps: usize = kani::any();
    kani::assume(max_taps >= 1 && max_taps <= 4);
    let num_taps_in: u16 = kani::any();
    kani::assume(num_taps_in >= 1 && num_taps_in <= 4);
    let td_timeout: u16 = kani::any();
    let mut w = any_waiting(WaitingConfig::TapDance(TapDanceState { actions: &TD_REFS[..max_taps], timeout: td_timeout, num_taps: num_taps_in }));
    let (mut q, arr, n) = any_queue();
    let mut aq: ActionQueue<'static, core::convert::Infallible> = ArrayDeque::new();
    let timeout = w.timeout;
    let r = w.tick_wt(&mut q, &mut aq);
    let fired = r.is_some();
    let new_taps = match w.config {
        WaitingConfig::TapDance(t) => {
            assert!(t.timeout == td_timeout && t.actions.len() == max_taps);
            t.num_taps
        }
        _ => panic!("config changed kind"),
    };
    assert!(w.prev_queue_len == q.len() as u8);
    if fired {
        // chosen action: index min(N, len) - 1
        let idx = core::cmp::min(usize::from(new_taps), max_taps) - 1;
        assert!(core::ptr::eq(w.tap, TD_REFS[idx]));
        match r {
            Some((a, pq)) => assert!(a == WaitingAction::Tap && pq.is_none()),
            None => {}
        }
    }
    if new_taps > num_taps_in {
        assert!(w.timeout == td_timeout);
    } else {
        assert!(w.timeout == timeout.saturating_sub(1));
    }
    assert!(aq.is_empty());
    kani::cover!(fired && new_taps == 3 && max_taps == 4, "third of four");
    kani::cover!(fired && usize::from(new_taps) > max_taps, "more taps than actions");
}

/// eager form: per-tap timer and expiry
#[kani::proof]
fn c17_k_eager_state() {
    let len: usize = kani::any();
    kani::assume(len >= 1 && len <= 4);
    let mut s = TapDanceEagerState { coord: (0, 0), actions: &TD_REFS[..len], timeout: kani::any(), orig_timeout: kani::any(), num_taps: kani::any() };
    kani::assume(s.num_taps < u16::MAX);
    let (t0, o, n0) = (s.timeout, s.orig_timeout, s.num_taps);
    assert!(s.is_expired() == (t0 == 0 || usize::from(n0) >= len));
    s.tick_tde();
    assert!(s.timeout == t0.saturating_sub(1) && s.num_taps == n0);
    s.incr_taps();
    // each tap restarts the timer
    assert!(s.num_taps == n0 + 1 && s.timeout == o);
    s.set_expired();
    assert!(s.is_expired());
}

/// must-fail twin: claims a tap-dance never decides before the timeout
#[kani::proof]
#[kani::unwind(7)]
fn c17_b_handle_tap_dance_neg() {
    let w = any_waiting(WaitingConfig::TapDance(TapDanceState { actions: &TD_REFS[..2], timeout: kani::any(), num_taps: 1 }));
    let (mut q, _arr, _n) = any_queue();
    kani::assume(w.timeout > 0);
    let (r, _) = w.handle_tap_dance(1, 2, &mut q);
    assert!(r.is_none());
}

// =======================================================================================
// C02  History: push / tick / iterate never panic, ages saturate, newest first
// =======================================================================================
#[kani::proof]
#[kani::unwind(12)]
fn c02_b_history() {
    let mut h: History<u16> = History::new();
    let n: usize = kani::any();
    kani::assume(n <= 10); // more pushes than the capacity of 8: the oldest entries fall out
    let mut i = 0;
    while i < n {
        h.push_front(i as u16);
        h.tick_hist();
        i += 1;
    }
    let mut k = 0usize;
    for e in h.iter_hevents() {
        // newest first, and each entry is as old as the number of ticks since it was pushed
        assert!(e.event as usize == n - 1 - k);
        assert!(e.ticks_since_occurrence as usize == k + 1);
        k += 1;
    }
    assert!(k == if n < 8 { n } else { 8 });
}

/// ages saturate instead of overflowing
#[kani::proof]
#[kani::unwind(10)]
fn c02_k_history_saturates() {
    let mut h: History<u16> = History::new();
    h.push_front(1);
    h.ticks_since_occurrences[0] = kani::any();
    let t0 = h.ticks_since_occurrences[0];
    h.tick_hist();
    assert!(h.ticks_since_occurrences[0] == t0.saturating_add(1));
}

// =======================================================================================
// hook for harnesses in other crates (re-exported from /repo/keyberon/src/layout.rs under
// cfg(kani)): run `f` on an iterator over a queue holding exactly `events`
// =======================================================================================
pub fn verif_with_queued_iter<R>(events: &[(Event, u16)], f: impl FnOnce(QueuedIter) -> R) -> R {
    let mut q: Queue = ArrayDeque::new();
    let mut i = 0;
    while i < events.len() {
        let _ = q.push_back(Queued { event: events[i].0, since: events[i].1 });
        i += 1;
    }
    f(QueuedIter(q.iter()))
}

// ---------------------------------------------------------------------------------------------
// C02 / cross-check of an ASSUMED contract: arraydeque::ArrayDeque<_, N, Wrapping> as the Verus units
// oneshot / waiting / seqs assume it (push_back: append, or evict-and-return the front when full;
// pop_front; get; clear; len; is_empty) - on the real crate, capacity 4
// (the real capacity of Layout::active_sequences), every fill level 0..=4, symbolic elements.
// `remove(i)` is NOT cross-checked: CBMC reported a failure for it that its own concrete playback
// does not reproduce and a native run contradicts (a tool artefact around ptr::copy of overlapping
// ranges); it stays an assumed contract (used once, by Layout::waiting_into_* for extra_waiting).
// ---------------------------------------------------------------------------------------------
#[kani::proof]
#[kani::unwind(6)]
fn c02_k_arraydeque_wrapping_contract() {
    type D = ArrayDeque<u16, 4, arraydeque::behavior::Wrapping>;
    let vals: [u16; 4] = kani::any();
    let n: usize = kani::any();
    kani::assume(n <= 4);
    let mut d: D = ArrayDeque::new();
    assert!(d.is_empty() && d.len() == 0);
    let mut i = 0;
    while i < n {
        assert!(d.push_back(vals[i]).is_none()); // below capacity: appended, nothing evicted
        i += 1;
    }
    assert!(d.len() == n && d.is_empty() == (n == 0));
    // get(i): the i-th from the front; None beyond the end
    let g: usize = kani::any();
    kani::assume(g <= 5);
    if g < n { assert!(d.get(g) == Some(&vals[g])); } else { assert!(d.get(g).is_none()); }
    let which: u8 = kani::any();
    let x: u16 = kani::any();
    if which == 0 {
        // push_back: full -> the FRONT is evicted and handed back, the rest shifts, x is last
        let r = d.push_back(x);
        if n < 4 {
            assert!(r.is_none() && d.len() == n + 1 && d.get(n) == Some(&x));
            if n > 0 { assert!(d.get(0) == Some(&vals[0])); }
        } else {
            assert!(r == Some(vals[0]) && d.len() == 4);
            assert!(d.get(0) == Some(&vals[1]) && d.get(2) == Some(&vals[3]) && d.get(3) == Some(&x));
        }
    } else if which == 1 {
        // pop_front
        let r = d.pop_front();
        if n == 0 { assert!(r.is_none() && d.len() == 0); }
        else {
            assert!(r == Some(vals[0]) && d.len() == n - 1);
            if n > 1 { assert!(d.get(0) == Some(&vals[1])); }
        }
    } else {
        d.clear();
        assert!(d.is_empty() && d.len() == 0 && d.get(0).is_none());
    }
    kani::cover!(n == 4 && which == 0, "wrap of a full deque reached");
}

// ---------------------------------------------------------------------------------------------
// Cross-check of the `extend` contract that the Verus fragment forward_while_ignoring_chords (unit
// chordtab, property C09) assumes for a Wrapping ArrayDeque: `extend` takes only as many elements as
// fit (arraydeque 0.5.1 lib.rs:486, `iter.into_iter().take(capacity - len)`) - what does not fit is
// NOT kept - and `drain(0..)` empties the source whatever happens to the drained elements.  The
// 4-slot instance of the const-generic type; every fill level of both deques.
// ---------------------------------------------------------------------------------------------
#[kani::proof]
#[kani::unwind(6)]
fn c09_k_arraydeque_extend_takes_what_fits() {
    type D = ArrayDeque<u16, 4, arraydeque::behavior::Wrapping>;
    let vals: [u16; 4] = kani::any();
    let src_vals: [u16; 4] = kani::any();
    let n: usize = kani::any();
    let m: usize = kani::any();
    kani::assume(n <= 4 && m <= 4);
    let mut d: D = ArrayDeque::new();
    let mut src: D = ArrayDeque::new();
    let mut i = 0;
    while i < n {
        let _ = d.push_back(vals[i]);
        i += 1;
    }
    let mut j = 0;
    while j < m {
        let _ = src.push_back(src_vals[j]);
        j += 1;
    }
    d.extend(src.drain(0..));
    let room = 4 - n;
    let taken = if m <= room { m } else { room };
    assert!(src.len() == 0); // everything was drained from the source ..
    assert!(d.len() == n + taken); // .. but only what fits arrived
    let g: usize = kani::any();
    kani::assume(g < 4);
    if g < n {
        assert!(d.get(g) == Some(&vals[g]));
    } else if g < n + taken {
        assert!(d.get(g) == Some(&src_vals[g - n]));
    } else {
        assert!(d.get(g).is_none());
    }
    kani::cover!(m > room, "more drained than fits: the rest is dropped");
}
