//! Kani contract harnesses for keyberon/src/action/switch.rs
//! (included from /repo/keyberon/src/action/switch.rs under cfg(kani)).
//!
//! Oracles are written from the property statement / the user documentation, never from
//! the code under test.  Naming: c10_k_* = complete (full operand domain, loop-free),
//! c10_b_* = bounded stand-in (bound stated in lib/props.py), *_neg = must-fail twin.
#![allow(unused_imports, dead_code)]
use super::*;

fn any_keycode() -> KeyCode {
    let c: u16 = kani::any();
    kani::assume(c <= 767);
    // every value 0..=767 is a declared KeyCode discriminant (proved separately: C11 E1/K2)
    unsafe { core::mem::transmute::<u16, KeyCode>(c) }
}

/// documented meaning of a written threshold after lossy storage:
/// exact below 256, rounded down to 8 ms from 256, rounded down to 128 ms from 2304.
fn oracle_eff_ticks(t: u16) -> u16 {
    if t <= 255 {
        t
    } else if t <= 2303 {
        255 + ((t - 255) / 8) * 8
    } else {
        2303 + ((t - 2303) / 128) * 128
    }
}

// ---------------------------------------------------------------------------------------
// K-B1: codec, complete over the full operand domains
// ---------------------------------------------------------------------------------------

#[kani::proof]
fn c10_k_codec_ticks() {
    let t: u16 = kani::any();
    let n: u8 = kani::any();
    kani::assume(n <= MAX_KEY_RECENCY);
    let next: Option<OpCode> = if kani::any() { Some(OpCode(kani::any())) } else { None };
    match OpCode::new_ticks_since_gt(n, t).opcode_type(next) {
        OpCodeType::TicksSinceGreaterThan(x) => {
            assert!(x.nth_key == n);
            assert!(x.ticks_since == oracle_eff_ticks(t));
        }
        _ => panic!("gt decoded as something else"),
    }
    match OpCode::new_ticks_since_lt(n, t).opcode_type(next) {
        OpCodeType::TicksSinceLessThan(x) => {
            assert!(x.nth_key == n);
            assert!(x.ticks_since == oracle_eff_ticks(t));
        }
        _ => panic!("lt decoded as something else"),
    }
    // resolution promised by the documentation
    let e = oracle_eff_ticks(t);
    assert!(e <= t);
    assert!(t < 256 || t - e < 128);
    assert!(t < 256 || t > 2303 || t - e < 8);
}

#[kani::proof]
fn c10_k_codec_keys() {
    let kc = any_keycode();
    let r: u8 = kani::any();
    kani::assume(r <= MAX_KEY_RECENCY);
    let next: Option<OpCode> = if kani::any() { Some(OpCode(kani::any())) } else { None };
    match OpCode::new_key(kc).opcode_type(next) {
        OpCodeType::KeyCode(c) => assert!(c == kc as u16),
        _ => panic!("key decoded as something else"),
    }
    match OpCode::new_key_history(kc, r).opcode_type(next) {
        OpCodeType::HistoricalKeyCode(h) => {
            assert!(h.key_code == kc as u16);
            assert!(h.how_far_back == r);
        }
        _ => panic!("key-history decoded as something else"),
    }
}

#[kani::proof]
fn c10_k_codec_bool() {
    let e: u16 = kani::any();
    kani::assume(e <= MAX_OPCODE_LEN);
    let which: u8 = kani::any();
    kani::assume(which < 3);
    let op = match which {
        0 => Or,
        1 => And,
        _ => Not,
    };
    let next: Option<OpCode> = if kani::any() { Some(OpCode(kani::any())) } else { None };
    match OpCode::new_bool(op, e).opcode_type(next) {
        OpCodeType::BooleanOp(o) => {
            assert!(o.op == op);
            assert!(o.idx == e as usize);
        }
        _ => panic!("bool op decoded as something else"),
    }
}

#[kani::proof]
fn c10_k_codec_two_word() {
    let row: u8 = kani::any();
    let col: u16 = kani::any();
    let r: u8 = kani::any();
    kani::assume(row < 4 && col < 0x0400 && r < 8);
    let (a, b) = OpCode::new_active_input((row, col));
    match a.opcode_type(Some(b)) {
        OpCodeType::Input(c) => assert!(c == (row, col)),
        _ => panic!("input decoded as something else"),
    }
    let (a, b) = OpCode::new_historical_input((row, col), r);
    match a.opcode_type(Some(b)) {
        OpCodeType::HistoricalInput(h) => {
            assert!(h.input == (row, col));
            assert!(h.how_far_back == r);
        }
        _ => panic!("input-history decoded as something else"),
    }
    let l: u16 = kani::any();
    kani::assume((l as usize) < crate::layout::MAX_LAYERS);
    let (a, b) = OpCode::new_layer(l);
    match a.opcode_type(Some(b)) {
        OpCodeType::Layer(x) => assert!(x == l),
        _ => panic!("layer decoded as something else"),
    }
    let (a, b) = OpCode::new_base_layer(l);
    match a.opcode_type(Some(b)) {
        OpCodeType::BaseLayer(x) => assert!(x == l),
        _ => panic!("base-layer decoded as something else"),
    }
}

/// must-fail twin: claims the lossy codec is exact everywhere
#[kani::proof]
fn c10_k_codec_ticks_neg() {
    let t: u16 = kani::any();
    match OpCode::new_ticks_since_gt(0, t).opcode_type(None) {
        OpCodeType::TicksSinceGreaterThan(x) => assert!(x.ticks_since == t),
        _ => {}
    }
}

// ---------------------------------------------------------------------------------------
// B-B2: leaves, on the real evaluate_boolean.  One-leaf programs under the implicit
// top-level `or`; environment iterators are prefixes of symbolic arrays.
// ---------------------------------------------------------------------------------------

const ENV: usize = 3; // bound on active keys / active coordinates / layer stack
const HIST: usize = 8; // the real History holds at most 8 entries: complete for history leaves

fn any_keys() -> ([KeyCode; ENV], usize) {
    let a = [any_keycode(), any_keycode(), any_keycode()];
    let n: usize = kani::any();
    kani::assume(n <= ENV);
    (a, n)
}

fn any_coords() -> ([KCoord; ENV], usize) {
    let a: [KCoord; ENV] = [(kani::any(), kani::any()), (kani::any(), kani::any()), (kani::any(), kani::any())];
    let n: usize = kani::any();
    kani::assume(n <= ENV);
    (a, n)
}

fn any_hist_keys() -> ([HistoricalEvent<KeyCode>; HIST], usize) {
    let h = || HistoricalEvent { event: any_keycode(), ticks_since_occurrence: kani::any() };
    let a = [h(), h(), h(), h(), h(), h(), h(), h()];
    let n: usize = kani::any();
    kani::assume(n <= HIST);
    (a, n)
}

/// history whose keys are irrelevant (timing leaves look only at the tick counts)
fn any_hist_ticks() -> ([HistoricalEvent<KeyCode>; HIST], usize) {
    let h = || HistoricalEvent { event: KeyCode::A, ticks_since_occurrence: kani::any() };
    let a = [h(), h(), h(), h(), h(), h(), h(), h()];
    let n: usize = kani::any();
    kani::assume(n <= HIST);
    (a, n)
}

fn any_hist_coords() -> ([HistoricalEvent<KCoord>; HIST], usize) {
    let h = || HistoricalEvent { event: (kani::any::<u8>(), kani::any::<u16>()), ticks_since_occurrence: kani::any() };
    let a = [h(), h(), h(), h(), h(), h(), h(), h()];
    let n: usize = kani::any();
    kani::assume(n <= HIST);
    (a, n)
}

fn no_keys() -> core::iter::Copied<core::slice::Iter<'static, KeyCode>> {
    [].iter().copied()
}
fn no_coords() -> core::iter::Copied<core::slice::Iter<'static, KCoord>> {
    [].iter().copied()
}
fn no_hk() -> core::iter::Copied<core::slice::Iter<'static, HistoricalEvent<KeyCode>>> {
    [].iter().copied()
}
fn no_hc() -> core::iter::Copied<core::slice::Iter<'static, HistoricalEvent<KCoord>>> {
    [].iter().copied()
}
fn no_layers() -> core::iter::Copied<core::slice::Iter<'static, u16>> {
    [].iter().copied()
}

#[kani::proof]
#[kani::unwind(5)]
fn c10_b_leaf_key() {
    let (keys, n) = any_keys();
    let kc = any_keycode();
    let ops = [OpCode::new_key(kc)];
    let r = evaluate_boolean(&ops, keys[..n].iter().copied(), no_coords(), no_hk(), no_hc(), no_layers(), 0);
    // "active keys": true iff the key is among the active ones
    let mut expect = false;
    let mut i = 0;
    while i < n {
        if keys[i] == kc {
            expect = true;
        }
        i += 1;
    }
    assert!(r == expect);
    kani::cover!(n == ENV && r, "bound attained, leaf true");
    kani::cover!(!r, "leaf false");
}

#[kani::proof]
#[kani::unwind(3)]
fn c10_b_leaf_key_history() {
    let (hist, n) = any_hist_keys();
    let kc = any_keycode();
    let rec: u8 = kani::any();
    kani::assume(rec <= MAX_KEY_RECENCY);
    let ops = [OpCode::new_key_history(kc, rec)];
    let r = evaluate_boolean(&ops, no_keys(), no_coords(), hist[..n].iter().copied(), no_hc(), no_layers(), 0);
    // "key-history": the rec-th most recent key (0 = most recent) is kc; false if history is shorter
    let expect = (rec as usize) < n && hist[rec as usize].event == kc;
    assert!(r == expect);
    kani::cover!(n == HIST && rec == 7 && r, "deepest recency reachable");
}

#[kani::proof]
#[kani::unwind(3)]
fn c10_b_leaf_ticks_gt() {
    let (hist, n) = any_hist_ticks();
    let t: u16 = kani::any();
    let nth: u8 = kani::any();
    kani::assume(nth <= MAX_KEY_RECENCY);
    let gt = [OpCode::new_ticks_since_gt(nth, t)];
    let rg = evaluate_boolean(&gt, no_keys(), no_coords(), hist[..n].iter().copied(), no_hc(), no_layers(), 0);
    // the stored threshold: what the opcode decodes to (== oracle_eff_ticks(t), proved for all
    // t by c10_k_codec_ticks; composing the two contracts keeps this query free of division)
    let eff = match gt[0].opcode_type(None) {
        OpCodeType::TicksSinceGreaterThan(x) => x.ticks_since,
        _ => panic!("not a gt opcode"),
    };
    // "key-timing": greater-than is strict; false when the history is shorter than nth
    let expect = (nth as usize) < n && hist[nth as usize].ticks_since_occurrence > eff;
    assert!(rg == expect);
    kani::cover!(rg && n == HIST && nth == 7, "gt true at deepest recency");
}

#[kani::proof]
#[kani::unwind(3)]
fn c10_b_leaf_ticks_lt() {
    let (hist, n) = any_hist_ticks();
    let t: u16 = kani::any();
    let nth: u8 = kani::any();
    kani::assume(nth <= MAX_KEY_RECENCY);
    let lt = [OpCode::new_ticks_since_lt(nth, t)];
    let rl = evaluate_boolean(&lt, no_keys(), no_coords(), hist[..n].iter().copied(), no_hc(), no_layers(), 0);
    let eff = match lt[0].opcode_type(None) {
        OpCodeType::TicksSinceLessThan(x) => x.ticks_since,
        _ => panic!("not an lt opcode"),
    };
    // less-than is the complement of greater-than on the same stored threshold
    let expect = (nth as usize) < n && !(hist[nth as usize].ticks_since_occurrence > eff);
    assert!(rl == expect);
    kani::cover!(rl && n == HIST && nth == 7, "lt true at deepest recency");
}

#[kani::proof]
#[kani::unwind(5)]
fn c10_b_leaf_input() {
    let (coords, n) = any_coords();
    let row: u8 = kani::any();
    let col: u16 = kani::any();
    kani::assume(row < 4 && col < 0x0400);
    let (a, b) = OpCode::new_active_input((row, col));
    let ops = [a, b];
    let r = evaluate_boolean(&ops, no_keys(), coords[..n].iter().copied(), no_hk(), no_hc(), no_layers(), 0);
    let mut expect = false;
    let mut i = 0;
    while i < n {
        if coords[i] == (row, col) {
            expect = true;
        }
        i += 1;
    }
    assert!(r == expect);
    kani::cover!(n == ENV && r, "bound attained, leaf true");
}

#[kani::proof]
#[kani::unwind(3)]
fn c10_b_leaf_input_history() {
    let (hist, n) = any_hist_coords();
    let row: u8 = kani::any();
    let col: u16 = kani::any();
    let rec: u8 = kani::any();
    kani::assume(row < 4 && col < 0x0400 && rec < 8);
    let (a, b) = OpCode::new_historical_input((row, col), rec);
    let ops = [a, b];
    let r = evaluate_boolean(&ops, no_keys(), no_coords(), no_hk(), hist[..n].iter().copied(), no_layers(), 0);
    let expect = (rec as usize) < n && hist[rec as usize].event == (row, col);
    assert!(r == expect);
    kani::cover!(n == HIST && rec == 7 && r, "deepest recency reachable");
}

#[kani::proof]
#[kani::unwind(5)]
fn c10_b_leaf_layer() {
    let ls: [u16; ENV] = [kani::any(), kani::any(), kani::any()];
    let n: usize = kani::any();
    kani::assume(n <= ENV);
    let l: u16 = kani::any();
    kani::assume((l as usize) < crate::layout::MAX_LAYERS);
    let base: u16 = kani::any();
    let (a, b) = OpCode::new_layer(l);
    let ops = [a, b];
    let r = evaluate_boolean(&ops, no_keys(), no_coords(), no_hk(), no_hc(), ls[..n].iter().copied(), base);
    // "layer": the most recently activated layer (first of the order) is l
    assert!(r == (n > 0 && ls[0] == l));
    let (a, b) = OpCode::new_base_layer(l);
    let ops = [a, b];
    let r = evaluate_boolean(&ops, no_keys(), no_coords(), no_hk(), no_hc(), ls[..n].iter().copied(), base);
    assert!(r == (base == l));
}

/// must-fail twin of the leaf harnesses: claims a key leaf is true for a key that is absent
#[kani::proof]
#[kani::unwind(5)]
fn c10_b_leaf_key_neg() {
    let (keys, n) = any_keys();
    let kc = any_keycode();
    let ops = [OpCode::new_key(kc)];
    let r = evaluate_boolean(&ops, keys[..n].iter().copied(), no_coords(), no_hk(), no_hc(), no_layers(), 0);
    assert!(r);
}

// ---------------------------------------------------------------------------------------
// B-B3: fixed-shape programs with symbolic leaves: counterexample search for the Verus
// evaluator proof (never counted as proof).  Leaves are "key A/B/C active".
// ---------------------------------------------------------------------------------------

fn abc_env() -> ([KeyCode; 3], [bool; 3], usize) {
    // which of A, B, C are active
    let a: bool = kani::any();
    let b: bool = kani::any();
    let c: bool = kani::any();
    let mut keys = [KeyCode::ErrorUndefined; 3];
    let mut n = 0;
    if a {
        keys[n] = KeyCode::A;
        n += 1;
    }
    if b {
        keys[n] = KeyCode::B;
        n += 1;
    }
    if c {
        keys[n] = KeyCode::C;
        n += 1;
    }
    (keys, [a, b, c], n)
}

fn eval_keys(ops: &[OpCode], keys: &[KeyCode]) -> bool {
    evaluate_boolean(ops, keys.iter().copied(), no_coords(), no_hk(), no_hc(), no_layers(), 0)
}

fn any_op() -> BooleanOperator {
    let w: u8 = kani::any();
    kani::assume(w < 3);
    match w {
        0 => Or,
        1 => And,
        _ => Not,
    }
}

fn sem(op: BooleanOperator, vals: &[bool]) -> bool {
    let mut any = false;
    let mut all = true;
    let mut i = 0;
    while i < vals.len() {
        any = any || vals[i];
        all = all && vals[i];
        i += 1;
    }
    match op {
        Or => any,
        And => all,
        Not => !any,
    }
}

/// (op1 (op2 a b) c)   -- nested operator first, then a leaf
#[kani::proof]
#[kani::unwind(8)]
fn c10_b_shape_nested_first() {
    let (keys, v, n) = abc_env();
    let op1 = any_op();
    let op2 = any_op();
    let ops = [
        OpCode::new_bool(op1, 5),
        OpCode::new_bool(op2, 4),
        OpCode::new_key(KeyCode::A),
        OpCode::new_key(KeyCode::B),
        OpCode::new_key(KeyCode::C),
    ];
    let inner = sem(op2, &[v[0], v[1]]);
    let expect = sem(op1, &[inner, v[2]]);
    assert!(eval_keys(&ops, &keys[..n]) == expect);
}

/// (op1 a (op2 b c))   -- nested operator last
#[kani::proof]
#[kani::unwind(8)]
fn c10_b_shape_nested_last() {
    let (keys, v, n) = abc_env();
    let op1 = any_op();
    let op2 = any_op();
    let ops = [
        OpCode::new_bool(op1, 5),
        OpCode::new_key(KeyCode::A),
        OpCode::new_bool(op2, 5),
        OpCode::new_key(KeyCode::B),
        OpCode::new_key(KeyCode::C),
    ];
    let inner = sem(op2, &[v[1], v[2]]);
    let expect = sem(op1, &[v[0], inner]);
    assert!(eval_keys(&ops, &keys[..n]) == expect);
}

/// (op0 (op1 (op2 a b)) c)   -- a nested operator that is the last operand of its parent,
/// with more of the expression following: the shape on which F1 manifests.
#[kani::proof]
#[kani::unwind(8)]
fn c10_b_shape_nested_last_then_more() {
    let (keys, v, n) = abc_env();
    let op0 = any_op();
    let op1 = any_op();
    let op2 = any_op();
    let ops = [
        OpCode::new_bool(op0, 6),
        OpCode::new_bool(op1, 5),
        OpCode::new_bool(op2, 5),
        OpCode::new_key(KeyCode::A),
        OpCode::new_key(KeyCode::B),
        OpCode::new_key(KeyCode::C),
    ];
    let inner2 = sem(op2, &[v[0], v[1]]);
    let inner1 = sem(op1, &[inner2]);
    let expect = sem(op0, &[inner1, v[2]]);
    assert!(eval_keys(&ops, &keys[..n]) == expect);
}

/// two top-level items (implicit or): (op1 a b) c
#[kani::proof]
#[kani::unwind(8)]
fn c10_b_shape_toplevel_list() {
    let (keys, v, n) = abc_env();
    let op1 = any_op();
    let ops = [
        OpCode::new_bool(op1, 3),
        OpCode::new_key(KeyCode::A),
        OpCode::new_key(KeyCode::B),
        OpCode::new_key(KeyCode::C),
    ];
    let expect = sem(op1, &[v[0], v[1]]) || v[2];
    assert!(eval_keys(&ops, &keys[..n]) == expect);
    // the empty list is true
    assert!(eval_keys(&[], &keys[..n]));
}


// ---------------------------------------------------------------------------------------
// B-B4: case iteration on the real (unextracted, generic) Switch::actions / SwitchActions::next:
// three cases `(a) act0 bf0`, `(b) act1 bf1`, `(c) act2 bf2` with symbolic break/fallthrough and
// symbolic key state.  "Cases are tried top to bottom, break stops and fallthrough continues,
// and every firing case's action is performed."
// ---------------------------------------------------------------------------------------
static CASE_ACTS: [Action<'static, core::convert::Infallible>; 3] =
    [Action::KeyCode(KeyCode::X), Action::KeyCode(KeyCode::Y), Action::KeyCode(KeyCode::Z)];

fn any_bf() -> BreakOrFallthrough {
    if kani::any() {
        Break
    } else {
        Fallthrough
    }
}

#[kani::proof]
#[kani::unwind(4)]
fn c10_b_case_iteration() {
    // whether case i fires is chosen freely: a firing case has the empty condition (true), a
    // non-firing one tests a key while no key is active (condition evaluation itself is covered
    // by the evaluator proof and the leaf harnesses; this harness is about the iteration).
    // Two cases: three cases did not finish in 10 min.
    let v: [bool; 2] = [kani::any(), kani::any()];
    let never = [OpCode::new_key(KeyCode::A)];
    let always: [OpCode; 0] = [];
    let cond = |f: bool| -> &[OpCode] { if f { &always } else { &never } };
    let bf = [any_bf(), any_bf()];
    let cases: [Case<'_, core::convert::Infallible>; 2] = [(cond(v[0]), &CASE_ACTS[0], bf[0]), (cond(v[1]), &CASE_ACTS[1], bf[1])];
    let sw = Switch { cases: &cases };
    let mut it = sw.actions(no_keys(), no_coords(), no_hk(), no_hc(), no_layers(), 0);
    // oracle: top to bottom; break stops; fallthrough continues
    let first_fires = v[0];
    let second_fires = v[1] && !(v[0] && bf[0] == Break);
    let r1 = it.next();
    let r2 = it.next();
    let r3 = it.next();
    let is = |r: Option<&Action<'_, core::convert::Infallible>>, k: usize| match r {
        Some(a) => core::ptr::eq(a, &CASE_ACTS[k]),
        None => false,
    };
    if first_fires && second_fires {
        assert!(is(r1, 0) && is(r2, 1) && r3.is_none());
    } else if first_fires {
        assert!(is(r1, 0) && r2.is_none() && r3.is_none());
    } else if second_fires {
        assert!(is(r1, 1) && r2.is_none() && r3.is_none());
    } else {
        assert!(r1.is_none() && r2.is_none() && r3.is_none());
    }
    kani::cover!(first_fires && second_fires, "fallthrough into a second firing case");
    kani::cover!(v[0] && v[1] && !second_fires, "break hides a later true case");
    kani::cover!(!v[0] && second_fires, "a non-firing case before a firing one");
}

// ---------------------------------------------------------------------------------------
// The Verus proof of evaluate_boolean ASSUMES this contract of the third-party stack type
// (contracts/switch.spec.rs, `mod arraydeque`).  Here it is checked on the real crate for the
// exact instantiation the evaluator uses; the capacity is 8, so lengths 0..=8 are all lengths.
// ---------------------------------------------------------------------------------------
#[kani::proof]
#[kani::unwind(10)]
fn c10_k_arraydeque_contract() {
    let mut d: arraydeque::ArrayDeque<OperatorAndEndIndex, MAX_BOOL_EXPR_DEPTH, arraydeque::behavior::Saturating> = Default::default();
    assert!(d.len() == 0);
    let n: usize = kani::any();
    kani::assume(n <= MAX_BOOL_EXPR_DEPTH);
    // fill with n recognisable elements
    let mut i = 0;
    while i < n {
        let r = d.push_back(OperatorAndEndIndex { op: Or, idx: i });
        assert!(r.is_ok()); // below capacity: accepted
        i += 1;
    }
    assert!(d.len() == n);
    let x = OperatorAndEndIndex { op: Not, idx: kani::any() };
    let r = d.push_back(x);
    if n < MAX_BOOL_EXPR_DEPTH {
        // appended at the back, nothing else touched
        assert!(r.is_ok() && d.len() == n + 1);
        assert!(d.pop_back() == Some(x));
    } else {
        // full: rejected, unchanged
        assert!(r.is_err() && d.len() == n);
    }
    // pop_back returns the elements in reverse order of insertion, then None
    let mut k = n;
    while k > 0 {
        k -= 1;
        assert!(d.pop_back() == Some(OperatorAndEndIndex { op: Or, idx: k }));
    }
    assert!(d.pop_back().is_none() && d.len() == 0);
    kani::cover!(n == MAX_BOOL_EXPR_DEPTH, "full stack reached");
}
