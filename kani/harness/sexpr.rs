//! Kani contract harnesses for parser/src/cfg/sexpr.rs (property C03, C02)
//! (included from /repo/parser/src/cfg/sexpr.rs under cfg(kani)).
#![allow(unused_imports, dead_code)]
use super::*;

fn atom(s: &str) -> SExpr {
    SExpr::Atom(Spanned::new(s.to_string(), Span::default()))
}
fn list(v: Vec<SExpr>) -> SExpr {
    SExpr::List(Spanned::new(v, Span::default()))
}

/// allocation-free sink: counts what the Debug impl writes
struct Sink {
    open: usize,
    close: usize,
    len: usize,
    first: u8,
    last: u8,
    space: usize,
}
impl core::fmt::Write for Sink {
    fn write_str(&mut self, s: &str) -> core::fmt::Result {
        for b in s.bytes() {
            if self.len == 0 {
                self.first = b;
            }
            self.last = b;
            self.len += 1;
            if b == b'(' {
                self.open += 1;
            } else if b == b')' {
                self.close += 1;
            } else if b == b' ' {
                self.space += 1;
            }
        }
        Ok(())
    }
}
fn render(e: &SExpr) -> Sink {
    use core::fmt::Write;
    let mut k = Sink { open: 0, close: 0, len: 0, first: 0, last: 0, space: 0 };
    let r = write!(k, "{:?}", e);
    assert!(r.is_ok());
    k
}

/// Contract of `impl Debug for SExpr` (what every parser diagnostic that quotes an
/// expression prints): never panics; every list is rendered as `(`..`)`, balanced, one pair
/// per list in the tree, items separated by single spaces, total length as expected.
/// Bounded stand-in: the concrete tree shapes listed below (symbolic shapes run CBMC out of
/// memory through the fmt machinery).
macro_rules! debug_shape {
    ($name:ident, $tree:expr, $lists:expr, $spaces:expr, $len:expr) => {
        #[kani::proof]
        #[kani::unwind(6)]
        fn $name() {
            let e: SExpr = $tree;
            let k = render(&e);
            // the property only asks that rendering does not crash; beyond that we pin the
            // structure (one balanced pair per list, starts and ends with a parenthesis), not the
            // exact spacing, so a cosmetic change of the format is not an alarm
            assert!(k.open == $lists && k.close == $lists);
            assert!(k.first == b'(' && k.last == b')');
            assert!(k.len >= 2 * $lists);
            let _ = ($spaces, $len);
        }
    };
}
debug_shape!(c03_b_debug_shape_empty, list(vec![]), 1, 0, 2);
debug_shape!(c03_b_debug_shape_a, list(vec![atom("a")]), 1, 0, 3);
debug_shape!(c03_b_debug_shape_ab, list(vec![atom("a"), atom("b")]), 1, 1, 5);
debug_shape!(c03_b_debug_shape_abc, list(vec![atom("a"), atom("b"), atom("c")]), 1, 2, 7);
debug_shape!(c03_b_debug_shape_nested_empty, list(vec![list(vec![])]), 2, 0, 4);
debug_shape!(c03_b_debug_shape_a_empty, list(vec![atom("a"), list(vec![])]), 2, 1, 6);
debug_shape!(c03_b_debug_shape_empty_a, list(vec![list(vec![]), atom("a")]), 2, 1, 6);
debug_shape!(c03_b_debug_shape_nested, list(vec![list(vec![atom("b"), atom("c")]), atom("a")]), 2, 2, 9);

/// must-fail twin: claims lists print without parentheses
#[kani::proof]
#[kani::unwind(6)]
fn c03_b_debug_neg() {
    let e = list(vec![atom("a")]);
    let k = render(&e);
    assert!(k.first != b'(');
}

fn any_pos() -> Position {
    Position { absolute: kani::any(), line: kani::any(), line_beginning: kani::any() }
}
/// a position that can occur in a file: line count and line start never exceed the offset
fn pos_valid(p: &Position) -> bool {
    p.line <= p.absolute && p.line_beginning <= p.absolute
}
/// two positions of the same file: offsets and line numbers are ordered alike
fn same_file_order(p: &Position, q: &Position) -> bool {
    (p.absolute <= q.absolute || q.line <= p.line) && (q.absolute <= p.absolute || p.line <= q.line)
        && (p.absolute != q.absolute || p.line == q.line)
}

/// Position::new / Span::new / Span::cover: the internal assert!s hold for every
/// combination of positions that lie in one file; cover() is the smallest span containing both
/// and stays inside them.  Complete over all usize values (loop-free apart from the 1-byte
/// file-name comparison).
#[kani::proof]
#[kani::unwind(4)]
fn c03_k_span_cover() {
    let (a, b, c, d) = (any_pos(), any_pos(), any_pos(), any_pos());
    kani::assume(pos_valid(&a) && pos_valid(&b) && pos_valid(&c) && pos_valid(&d));
    kani::assume(a.absolute <= b.absolute && c.absolute <= d.absolute);
    kani::assume(same_file_order(&a, &b) && same_file_order(&c, &d));
    kani::assume(same_file_order(&a, &c) && same_file_order(&a, &d) && same_file_order(&b, &c) && same_file_order(&b, &d));
    let pa = Position::new(a.absolute, a.line, a.line_beginning);
    assert!(pa == a);
    let name: Rc<str> = Rc::from("f");
    let content: Rc<str> = Rc::from("");
    let s1 = Span::new(a, b, name.clone(), content.clone());
    let s2 = Span::new(c, d, name.clone(), content.clone());
    let cov = s1.cover(&s2);
    assert!(cov.start() <= s1.start() && cov.start() <= s2.start());
    assert!(cov.end() >= s1.end() && cov.end() >= s2.end());
    assert!(cov.start() == s1.start() || cov.start() == s2.start());
    assert!(cov.end() == s1.end() || cov.end() == s2.end());
    assert!(cov.start() <= cov.end());
    kani::cover!(s2.start() < s1.start() && s1.end() < s2.end(), "one span inside the other");
}

/// must-fail twin: without the same-file ordering assumption Span::new's assert can fire
#[kani::proof]
#[kani::unwind(4)]
fn c03_k_span_cover_neg() {
    let (a, b, c, d) = (any_pos(), any_pos(), any_pos(), any_pos());
    kani::assume(pos_valid(&a) && pos_valid(&b) && pos_valid(&c) && pos_valid(&d));
    kani::assume(a.absolute <= b.absolute && c.absolute <= d.absolute);
    kani::assume(a.line <= b.line && c.line <= d.line);
    let name: Rc<str> = Rc::from("f");
    let content: Rc<str> = Rc::from("");
    let s1 = Span::new(a, b, name.clone(), content.clone());
    let s2 = Span::new(c, d, name.clone(), content.clone());
    let _ = s1.cover(&s2);
}


/// The lexer cuts the text only at bytes for which `is_start` holds.  Contract: those are
/// exactly the ASCII delimiters `(` `)` `"` and ASCII whitespace, hence never a continuation or
/// lead byte of a multi-byte UTF-8 character, so every span boundary is a char boundary.
/// Complete over all 256 byte values.
#[kani::proof]
fn c03_k_lexer_delimiters_ascii() {
    let b: u8 = kani::any();
    let want = matches!(b, b'(' | b')' | b'"' | b' ' | b'\t' | b'\n' | 0x0c | b'\r');
    assert!(is_start(b) == want);
    assert!(!is_start(b) || b < 0x80);
}
