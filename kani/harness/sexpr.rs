//! Kani contract harnesses for sexpr (included from /repo/parser/src/cfg/sexpr.rs under cfg(kani)).
#![allow(unused_imports, dead_code)]
use super::*;
