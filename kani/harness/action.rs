//! Kani contract harnesses for action (included from /repo/keyberon/src/action.rs under cfg(kani)).
#![allow(unused_imports, dead_code)]
use super::*;
