//! Kani contract harnesses for keyberon/src/action.rs (property C09: chords v1 tables)
//! (included from /repo/keyberon/src/action.rs under cfg(kani)).
#![allow(unused_imports, dead_code)]
use super::*;

const CH_N: usize = 3;
static CH_A: [Action<'static, core::convert::Infallible>; CH_N] =
    [Action::KeyCode(KeyCode::A), Action::KeyCode(KeyCode::B), Action::KeyCode(KeyCode::C)];

/// symbolic chord table with n <= CH_N entries over 128-bit masks
fn any_chords() -> ([(ChordKeys, &'static Action<'static, core::convert::Infallible>); CH_N], usize) {
    let arr = [(kani::any::<u128>(), &CH_A[0]), (kani::any::<u128>(), &CH_A[1]), (kani::any::<u128>(), &CH_A[2])];
    let n: usize = kani::any();
    kani::assume(n <= CH_N);
    (arr, n)
}

/// get_chord: the action whose key set EQUALS the pressed set ("exactly the pressed key set"),
/// none if no chord is defined for it.
#[kani::proof]
#[kani::unwind(5)]
fn c09_b_get_chord() {
    let (arr, n) = any_chords();
    // parser guarantee: chord key sets are unique within a group
    kani::assume(n < 2 || arr[0].0 != arr[1].0);
    kani::assume(n < 3 || (arr[0].0 != arr[2].0 && arr[1].0 != arr[2].0));
    let g = ChordsGroup { coords: &[], chords: &arr[..n], timeout: kani::any() };
    let m: u128 = kani::any();
    let r = g.get_chord(m);
    let mut want: Option<usize> = None;
    let mut i = 0;
    while i < n {
        if arr[i].0 == m {
            want = Some(i);
        }
        i += 1;
    }
    match (r, want) {
        (None, None) => {}
        (Some(a), Some(i)) => assert!(core::ptr::eq(a, arr[i].1)),
        _ => panic!("get_chord disagrees with the table"),
    }
    kani::cover!(n == CH_N && want == Some(2), "last entry of a full table matches");
}

/// get_chord_if_unambiguous: that action iff no other defined chord strictly contains the
/// pressed set (then more keys could still complete a longer chord).
#[kani::proof]
#[kani::unwind(5)]
fn c09_b_get_chord_if_unambiguous() {
    let (arr, n) = any_chords();
    kani::assume(n < 2 || arr[0].0 != arr[1].0);
    kani::assume(n < 3 || (arr[0].0 != arr[2].0 && arr[1].0 != arr[2].0));
    let g = ChordsGroup { coords: &[], chords: &arr[..n], timeout: kani::any() };
    let m: u128 = kani::any();
    let r = g.get_chord_if_unambiguous(m);
    let mut exact: Option<usize> = None;
    let mut superset = false;
    let mut i = 0;
    while i < n {
        if arr[i].0 == m {
            exact = Some(i);
        } else if arr[i].0 & m == m {
            superset = true;
        }
        i += 1;
    }
    match r {
        None => assert!(exact.is_none() || superset),
        Some(a) => {
            assert!(!superset);
            assert!(core::ptr::eq(a, arr[exact.unwrap()].1));
        }
    }
    kani::cover!(n == CH_N && exact.is_some() && superset, "ambiguous");
    kani::cover!(n == CH_N && r.is_some(), "unambiguous in a full table");
}

/// get_keys: the mask of the first table row for that coordinate
#[kani::proof]
#[kani::unwind(5)]
fn c09_b_get_keys() {
    let c0: (u8, u16) = (kani::any(), kani::any());
    let c1: (u8, u16) = (kani::any(), kani::any());
    let c2: (u8, u16) = (kani::any(), kani::any());
    let coords = [(c0, kani::any::<u128>()), (c1, kani::any::<u128>()), (c2, kani::any::<u128>())];
    let n: usize = kani::any();
    kani::assume(n <= 3);
    let g: ChordsGroup<'_, core::convert::Infallible> = ChordsGroup { coords: &coords[..n], chords: &[], timeout: 0 };
    let c: (u8, u16) = (kani::any(), kani::any());
    let r = g.get_keys(c);
    let mut want = None;
    let mut i = n;
    while i > 0 {
        i -= 1;
        if coords[i].0 == c {
            want = Some(coords[i].1);
        }
    }
    assert!(r == want);
}

/// must-fail twin: claims a subset of a chord is never ambiguous
#[kani::proof]
#[kani::unwind(5)]
fn c09_b_get_chord_if_unambiguous_neg() {
    let (arr, n) = any_chords();
    kani::assume(n == 2 && arr[0].0 != arr[1].0);
    let g = ChordsGroup { coords: &[], chords: &arr[..n], timeout: 0 };
    let r = g.get_chord_if_unambiguous(arr[0].0);
    assert!(r.is_some());
}
