//! Kani contract harnesses for keyberon/src/chord.rs (chords v2; properties C09, C02)
//! (included from /repo/keyberon/src/chord.rs under cfg(kani)).
#![allow(unused_imports, dead_code, unused_mut)]
use super::*;

type Inf = core::convert::Infallible;
static ACT: [Action<'static, Inf>; 3] = [Action::KeyCode(crate::key_code::KeyCode::A), Action::KeyCode(crate::key_code::KeyCode::B), Action::KeyCode(crate::key_code::KeyCode::C)];

fn empty_chv2<'a>() -> ChordsV2<'a, Inf> {
    // an empty FxHashMap allocates nothing and is never hashed into by the functions below
    ChordsV2::new(ChordsForKeys { mapping: FxHashMap::default() }, 5)
}

fn any_status() -> ActiveChordStatus {
    let k: u8 = kani::any();
    kani::assume(k < 4);
    match k {
        0 => Unread,
        1 => UnreadReleased,
        2 => Releasable,
        _ => Released,
    }
}

/// next_coord: virtual coordinates stay in 851..=900 forever (base case: new() starts at 851;
/// step: from any value in range the result and the successor are in range).
#[kani::proof]
fn c09_k_next_coord() {
    let c = empty_chv2();
    assert!(c.next_coord.get() == KEY_MAX + 1);
    let v: u16 = kani::any();
    kani::assume(v >= KEY_MAX + 1 && v <= KEY_MAX + 50);
    c.next_coord.set(v);
    let r = c.next_coord();
    assert!(r == v);
    let n = c.next_coord.get();
    assert!(n >= KEY_MAX + 1 && n <= KEY_MAX + 50);
    assert!(n == if v == KEY_MAX + 50 { KEY_MAX + 1 } else { v + 1 });
}

/// get_active_chord: "released per the configured release rule"
#[kani::proof]
#[kani::unwind(5)]
fn c09_b_get_active_chord() {
    let keys: [u16; 3] = [kani::any(), kani::any(), kani::any()];
    let n: usize = kani::any();
    kani::assume(n >= 1 && n <= 3);
    let rb = if kani::any() { ReleaseBehaviour::OnFirstRelease } else { ReleaseBehaviour::OnLastRelease };
    let ch = ChordV2 { action: &ACT[0], participating_keys: &keys[..n], pending_duration: kani::any(), disabled_layers: &[], release_behaviour: rb };
    let since: u16 = kani::any();
    let coord: u16 = kani::any();
    let rel: bool = kani::any();
    let a = get_active_chord(&ch, since, coord, rel);
    assert!(a.coordinate == coord && a.delay == since);
    assert!(core::ptr::eq(a.action, &ACT[0]));
    assert!(a.participating_keys.len() == n);
    match rb {
        ReleaseBehaviour::OnLastRelease => {
            // must see every participant released
            assert!(a.remaining_keys_to_release.len() == n);
            let mut i = 0;
            while i < n {
                assert!(a.remaining_keys_to_release[i] == keys[i]);
                i += 1;
            }
            assert!(a.status == Unread);
        }
        ReleaseBehaviour::OnFirstRelease => {
            assert!(a.remaining_keys_to_release.is_empty());
            assert!(a.status == if rel { UnreadReleased } else { Unread });
        }
    }
}

fn mk_active<'a>(coord: u16, part: &'a [u16], remaining: &[u16], status: ActiveChordStatus, action: &'a Action<'a, Inf>, delay: u16) -> ActiveChord<'a, Inf> {
    let mut r = HVec::new();
    let mut i = 0;
    while i < remaining.len() {
        let _ = r.push(remaining[i]);
        i += 1;
    }
    ActiveChord { coordinate: coord, remaining_keys_to_release: r, participating_keys: part, action, status, delay }
}

/// get_action_chv2: each activated chord is handed to the layout exactly once, oldest first
#[kani::proof]
#[kani::unwind(5)]
fn c09_b_get_action_once() {
    let keys: [u16; 1] = [1];
    let mut c = empty_chv2();
    let st = [any_status(), any_status(), any_status()];
    let n: usize = kani::any();
    kani::assume(n <= 3);
    let mut i = 0;
    while i < n {
        let _ = c.active_chords.push(mk_active(851 + i as u16, &keys, &[], st[i], &ACT[i], 7 + i as u16));
        i += 1;
    }
    let r = c.get_action_chv2();
    // first unread one
    let mut first: Option<usize> = None;
    let mut i = n;
    while i > 0 {
        i -= 1;
        if matches!(st[i], Unread | UnreadReleased) {
            first = Some(i);
        }
    }
    match (r, first) {
        (None, None) => {}
        (Some((coord, delay, act)), Some(k)) => {
            assert!(coord == (0, 851 + k as u16) && delay == 7 + k as u16);
            assert!(core::ptr::eq(act, &ACT[k]));
        }
        _ => panic!("handed out the wrong chord"),
    }
    let mut i = 0;
    while i < n {
        let want = if Some(i) == first {
            if st[i] == Unread { Releasable } else { Released }
        } else {
            st[i]
        };
        assert!(c.active_chords[i].status == want);
        i += 1;
    }
    // ... and never twice
    if let Some(k) = first {
        let again = c.get_action_chv2();
        if let Some((coord, _, _)) = again {
            assert!(coord != (0, 851 + k as u16));
        }
    }
}

const DQ_N: usize = 1;

fn any_ev() -> Event {
    let j: u16 = kani::any();
    kani::assume(j < 5);
    if kani::any() { Event::Press(0, j) } else { Event::Release(0, j) }
}

/// remaining-keys list of a two-key chord, chosen among the four subsets without a
/// symbolic-length loop (those made CBMC run out of memory)
fn rem_of<'a>(coord: u16, part: &'a [u16; 2], which: u8, status: ActiveChordStatus, action: &'a Action<'a, Inf>) -> ActiveChord<'a, Inf> {
    match which {
        0 => mk_active(coord, part, &[], status, action, 0),
        1 => mk_active(coord, part, &[part[0]], status, action, 0),
        2 => mk_active(coord, part, &[part[1]], status, action, 0),
        _ => mk_active(coord, part, &[part[0], part[1]], status, action, 0),
    }
}

/// what drain_releases must do to one chord over keys part, given which keys were released
fn expect_chord(part: &[u16; 2], which: u8, st: ActiveChordStatus, rel0: bool, rel1: bool) -> (usize, ActiveChordStatus) {
    let has0 = which == 1 || which == 3;
    let has1 = which == 2 || which == 3;
    let left = (if has0 && !rel0 { 1 } else { 0 }) + (if has1 && !rel1 { 1 } else { 0 });
    let touched = rel0 || rel1;
    let status = if touched && left == 0 {
        match st { Unread | UnreadReleased => UnreadReleased, Releasable | Released => Released }
    } else {
        st
    };
    (left, status)
}

/// drain_releases: a participant's release removes it from the chord's remaining keys; when none
/// remain the chord is released; a non-participant's release changes no chord (two chords are
/// active at once, over disjoint keys); a release is forwarded (not swallowed) iff no press is
/// pending before it; presses stay queued, in order.
fn drain_case(wa: u8, wb: u8) {
    let pa: [u16; 2] = [0, 1];
    let pb: [u16; 2] = [2, 3];
    let mut c = empty_chv2();
    // one symbolic event, optionally preceded by a pending press of an unrelated key
    // (two symbolic events did not finish in 10 min)
    let lead_press: bool = kani::any();
    let evs = if lead_press { [Event::Press(0, 4), any_ev()] } else { [any_ev(), Event::Press(0, 4)] };
    let n: usize = if lead_press { 2 } else { 1 };
    let _ = c.queue.push_back(Queued { event: evs[0], since: 0 });
    if n >= 2 { let _ = c.queue.push_back(Queued { event: evs[1], since: 0 }); }
    let (sa, sb) = (any_status(), any_status());
    let _ = c.active_chords.push(rem_of(860, &pa, wa, sa, &ACT[0]));
    let _ = c.active_chords.push(rem_of(861, &pb, wb, sb, &ACT[1]));
    let mut dq = SmolQueue::new();
    c.drain_releases(&mut dq);

    let released = |k: u16| -> bool { (n >= 1 && evs[0] == Event::Release(0, k)) || (n >= 2 && evs[1] == Event::Release(0, k)) };
    let (la, ea) = expect_chord(&pa, wa, sa, released(0), released(1));
    let (lb, eb) = expect_chord(&pb, wb, sb, released(2), released(3));
    assert!(c.active_chords.len() == 2);
    assert!(c.active_chords[0].remaining_keys_to_release.len() == la && c.active_chords[0].status == ea);
    assert!(c.active_chords[1].remaining_keys_to_release.len() == lb && c.active_chords[1].status == eb);
    assert!(c.active_chords[0].coordinate == 860 && c.active_chords[1].coordinate == 861);
    // a key that was released is no longer waited for
    if la == 1 {
        let k = c.active_chords[0].remaining_keys_to_release[0];
        assert!((k == 0 || k == 1) && !released(k));
    }
    if lb == 1 {
        let k = c.active_chords[1].remaining_keys_to_release[0];
        assert!((k == 2 || k == 3) && !released(k));
    }
    // queues
    let first_is_press = n >= 1 && matches!(evs[0], Event::Press(..));
    let mut want_q = 0;
    let mut want_d = 0;
    if n >= 1 {
        if first_is_press { want_q += 1; } else { want_d += 1; }
    }
    if n >= 2 {
        if matches!(evs[1], Event::Press(..)) || first_is_press { want_q += 1; } else { want_d += 1; }
    }
    assert!(c.queue.len() == want_q && dq.len() == want_d);
    if n >= 1 {
        if first_is_press { assert!(c.queue[0].event == evs[0]); } else { assert!(dq[0].event == evs[0]); }
    }
    if n >= 2 {
        let e1_kept = matches!(evs[1], Event::Press(..)) || first_is_press;
        if e1_kept { assert!(c.queue[want_q - 1].event == evs[1]); } else { assert!(dq[want_d - 1].event == evs[1]); }
    }
    kani::cover!(n == 1 && want_d == 1, "release forwarded");
    kani::cover!(n == 2 && want_q == 2 && matches!(evs[1], Event::Release(..)), "release kept behind a pending press");
}

// which remaining-key lists the two chords start with is fixed per harness (a symbolic-length
// list inside `retain` exhausts CBMC's memory); statuses, events and their number are symbolic
#[kani::proof]
#[kani::unwind(5)]
fn c09_b_drain_releases_full() {
    drain_case(3, 3); // OnLastRelease, nothing released yet
}
#[kani::proof]
#[kani::unwind(5)]
fn c09_b_drain_releases_partial() {
    drain_case(1, 2); // one key of each chord still to be released
}
#[kani::proof]
#[kani::unwind(5)]
fn c09_b_drain_releases_first() {
    drain_case(0, 0); // OnFirstRelease: nothing to wait for
}

/// must-fail twin: claims a release never changes a chord
#[kani::proof]
#[kani::unwind(6)]
fn c09_b_drain_releases_neg() {
    let p: [u16; 1] = [1];
    let mut c = empty_chv2();
    let _ = c.queue.push_back(Queued { event: Event::Release(0, 1), since: 0 });
    let st = any_status();
    let _ = c.active_chords.push(mk_active(860, &p, &[], st, &ACT[0], 0));
    let mut dq = SmolQueue::new();
    c.drain_releases(&mut dq);
    assert!(c.active_chords[0].status == st);
}
