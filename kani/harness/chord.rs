//! Kani contract harnesses for chord (included from /repo/keyberon/src/chord.rs under cfg(kani)).
#![allow(unused_imports, dead_code)]
use super::*;
