//! Kani contract harnesses for keyberon/src/chord.rs (chords v2; properties C09, C02)
//! (included from /repo/keyberon/src/chord.rs under cfg(kani)).
#![allow(unused_imports, dead_code, unused_mut)]
use super::*;

type Inf = core::convert::Infallible;
static ACT: [Action<'static, Inf>; 3] = [Action::KeyCode(crate::key_code::KeyCode::A), Action::KeyCode(crate::key_code::KeyCode::B), Action::KeyCode(crate::key_code::KeyCode::C)];

fn empty_chv2<'a>() -> ChordsV2<'a, Inf> {
    // an empty FxHashMap allocates nothing and is never hashed into by the functions below
    ChordsV2::new(ChordsForKeys { mapping: FxHashMap::default() }, 5)
}

fn any_status() -> ActiveChordStatus {
    let k: u8 = kani::any();
    kani::assume(k < 4);
    match k {
        0 => Unread,
        1 => UnreadReleased,
        2 => Releasable,
        _ => Released,
    }
}

/// next_coord: virtual coordinates stay in 851..=900 forever (base case: new() starts at 851;
/// step: from any value in range the result and the successor are in range).
#[kani::proof]
fn c09_k_next_coord() {
    let c = empty_chv2();
    assert!(c.next_coord.get() == KEY_MAX + 1);
    let v: u16 = kani::any();
    kani::assume(v >= KEY_MAX + 1 && v <= KEY_MAX + 50);
    c.next_coord.set(v);
    let r = c.next_coord();
    assert!(r == v);
    let n = c.next_coord.get();
    assert!(n >= KEY_MAX + 1 && n <= KEY_MAX + 50);
    assert!(n == if v == KEY_MAX + 50 { KEY_MAX + 1 } else { v + 1 });
}

/// get_active_chord: "released per the configured release rule"
#[kani::proof]
#[kani::unwind(5)]
fn c09_b_get_active_chord() {
    let keys: [u16; 3] = [kani::any(), kani::any(), kani::any()];
    let n: usize = kani::any();
    kani::assume(n >= 1 && n <= 3);
    let rb = if kani::any() { ReleaseBehaviour::OnFirstRelease } else { ReleaseBehaviour::OnLastRelease };
    let ch = ChordV2 { action: &ACT[0], participating_keys: &keys[..n], pending_duration: kani::any(), disabled_layers: &[], release_behaviour: rb };
    let since: u16 = kani::any();
    let coord: u16 = kani::any();
    let rel: bool = kani::any();
    let a = get_active_chord(&ch, since, coord, rel);
    assert!(a.coordinate == coord && a.delay == since);
    assert!(core::ptr::eq(a.action, &ACT[0]));
    assert!(a.participating_keys.len() == n);
    match rb {
        ReleaseBehaviour::OnLastRelease => {
            // must see every participant released
            assert!(a.remaining_keys_to_release.len() == n);
            let mut i = 0;
            while i < n {
                assert!(a.remaining_keys_to_release[i] == keys[i]);
                i += 1;
            }
            assert!(a.status == Unread);
        }
        ReleaseBehaviour::OnFirstRelease => {
            assert!(a.remaining_keys_to_release.is_empty());
            assert!(a.status == if rel { UnreadReleased } else { Unread });
        }
    }
}

fn mk_active<'a>(coord: u16, part: &'a [u16], remaining: &[u16], status: ActiveChordStatus, action: &'a Action<'a, Inf>, delay: u16) -> ActiveChord<'a, Inf> {
    let mut r = HVec::new();
    let mut i = 0;
    while i < remaining.len() {
        let _ = r.push(remaining[i]);
        i += 1;
    }
    ActiveChord { coordinate: coord, remaining_keys_to_release: r, participating_keys: part, action, status, delay }
}

/// get_action_chv2: each activated chord is handed to the layout exactly once, oldest first
#[kani::proof]
#[kani::unwind(5)]
fn c09_b_get_action_once() {
    let keys: [u16; 1] = [1];
    let mut c = empty_chv2();
    let st = [any_status(), any_status(), any_status()];
    let n: usize = kani::any();
    kani::assume(n <= 3);
    let mut i = 0;
    while i < n {
        let _ = c.active_chords.push(mk_active(851 + i as u16, &keys, &[], st[i], &ACT[i], 7 + i as u16));
        i += 1;
    }
    let r = c.get_action_chv2();
    // first unread one
    let mut first: Option<usize> = None;
    let mut i = n;
    while i > 0 {
        i -= 1;
        if matches!(st[i], Unread | UnreadReleased) {
            first = Some(i);
        }
    }
    match (r, first) {
        (None, None) => {}
        (Some((coord, delay, act)), Some(k)) => {
            assert!(coord == (0, 851 + k as u16) && delay == 7 + k as u16);
            assert!(core::ptr::eq(act, &ACT[k]));
        }
        _ => panic!("handed out the wrong chord"),
    }
    let mut i = 0;
    while i < n {
        let want = if Some(i) == first {
            if st[i] == Unread { Releasable } else { Released }
        } else {
            st[i]
        };
        assert!(c.active_chords[i].status == want);
        i += 1;
    }
    // ... and never twice
    if let Some(k) = first {
        let again = c.get_action_chv2();
        if let Some((coord, _, _)) = again {
            assert!(coord != (0, 851 + k as u16));
        }
    }
}

fn any_ev() -> Event {
    let j: u16 = kani::any();
    kani::assume(j < 4);
    if kani::any() { Event::Press(0, j) } else { Event::Release(0, j) }
}

/// drain_releases with one active chord over keys {1, 2} that still waits for key 1
/// (OnLastRelease, key 2 already released) and one symbolic queued event, optionally behind a
/// pending press of an unrelated key.  Larger configurations (two chords, two remaining keys,
/// two symbolic events) were tried and do not finish in 10 min; they are NOT covered.
fn drain_case(lead_press: bool) {
    let p: [u16; 2] = [1, 2];
    let mut c = empty_chv2();
    let e = any_ev();
    if lead_press {
        let _ = c.queue.push_back(Queued { event: Event::Press(0, 3), since: 0 });
    }
    let _ = c.queue.push_back(Queued { event: e, since: 0 });
    let st = any_status();
    let _ = c.active_chords.push(mk_active(860, &p, &[1], st, &ACT[0], 0));
    let mut dq = SmolQueue::new();
    c.drain_releases(&mut dq);
    let a = &c.active_chords[0];
    if e == Event::Release(0, 1) {
        // the last awaited participant was released: the chord is released
        assert!(a.remaining_keys_to_release.is_empty());
        assert!(a.status == match st { Unread | UnreadReleased => UnreadReleased, Releasable | Released => Released });
    } else if e == Event::Release(0, 2) {
        // a participant that is not awaited any more: still waiting for key 1
        assert!(a.remaining_keys_to_release.len() == 1 && a.remaining_keys_to_release[0] == 1);
        assert!(a.status == st);
    } else {
        // presses and releases of non-participants change no chord
        assert!(a.remaining_keys_to_release.len() == 1 && a.remaining_keys_to_release[0] == 1);
        assert!(a.status == st);
    }
    assert!(a.coordinate == 860 && c.active_chords.len() == 1);
    // a release is forwarded iff no press is pending before it; presses stay queued
    let is_rel = matches!(e, Event::Release(..));
    if lead_press {
        assert!(dq.is_empty() && c.queue.len() == 2);
        assert!(c.queue[0].event == Event::Press(0, 3) && c.queue[1].event == e);
    } else if is_rel {
        assert!(c.queue.is_empty() && dq.len() == 1 && dq[0].event == e);
    } else {
        assert!(dq.is_empty() && c.queue.len() == 1 && c.queue[0].event == e);
    }
    kani::cover!(e == Event::Release(0, 1) && st == Releasable, "chord released");
}
#[kani::proof]
#[kani::unwind(4)]
fn c09_b_drain_releases() {
    drain_case(false);
}
#[kani::proof]
#[kani::unwind(4)]
fn c09_b_drain_releases_behind_press() {
    drain_case(true);
}

/// must-fail twin: claims a release never changes a chord
#[kani::proof]
#[kani::unwind(6)]
fn c09_b_drain_releases_neg() {
    let p: [u16; 1] = [1];
    let mut c = empty_chv2();
    let _ = c.queue.push_back(Queued { event: Event::Release(0, 1), since: 0 });
    let st = any_status();
    let _ = c.active_chords.push(mk_active(860, &p, &[], st, &ACT[0], 0));
    let mut dq = SmolQueue::new();
    c.drain_releases(&mut dq);
    assert!(c.active_chords[0].status == st);
}

