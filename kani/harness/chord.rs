//! Kani contract harnesses for keyberon/src/chord.rs (chords v2; properties C09, C02)
//! (included from /repo/keyberon/src/chord.rs under cfg(kani)).
#![allow(unused_imports, dead_code, unused_mut)]
use super::*;

type Inf = core::convert::Infallible;
static ACT: [Action<'static, Inf>; 3] = [Action::KeyCode(crate::key_code::KeyCode::A), Action::KeyCode(crate::key_code::KeyCode::B), Action::KeyCode(crate::key_code::KeyCode::C)];

fn empty_chv2<'a>() -> ChordsV2<'a, Inf> {
    // an empty FxHashMap allocates nothing and is never hashed into by the functions below
    ChordsV2::new(ChordsForKeys { mapping: FxHashMap::default() }, 5)
}

fn any_status() -> ActiveChordStatus {
    let k: u8 = kani::any();
    kani::assume(k < 4);
    match k {
        0 => Unread,
        1 => UnreadReleased,
        2 => Releasable,
        _ => Released,
    }
}

/// next_coord: virtual coordinates stay in 851..=900 forever (base case: new() starts at 851;
/// step: from any value in range the result and the successor are in range).
#[kani::proof]
fn c09_k_next_coord() {
    let c = empty_chv2();
    assert!(c.next_coord.get() == KEY_MAX + 1);
    let v: u16 = kani::any();
    kani::assume(v >= KEY_MAX + 1 && v <= KEY_MAX + 50);
    c.next_coord.set(v);
    let r = c.next_coord();
    assert!(r == v);
    let n = c.next_coord.get();
    assert!(n >= KEY_MAX + 1 && n <= KEY_MAX + 50);
    assert!(n == if v == KEY_MAX + 50 { KEY_MAX + 1 } else { v + 1 });
}

/// get_active_chord: "released per the configured release rule"
#[kani::proof]
#[kani::unwind(5)]
fn c09_b_get_active_chord() {
    let keys: [u16; 3] = [kani::any(), kani::any(), kani::any()];
    let n: usize = kani::any();
    kani::assume(n >= 1 && n <= 3);
    let rb = if kani::any() { ReleaseBehaviour::OnFirstRelease } else { ReleaseBehaviour::OnLastRelease };
    let ch = ChordV2 { action: &ACT[0], participating_keys: &keys[..n], pending_duration: kani::any(), disabled_layers: &[], release_behaviour: rb };
    let since: u16 = kani::any();
    let coord: u16 = kani::any();
    let rel: bool = kani::any();
    let a = get_active_chord(&ch, since, coord, rel);
    assert!(a.coordinate == coord && a.delay == since);
    assert!(core::ptr::eq(a.action, &ACT[0]));
    assert!(a.participating_keys.len() == n);
    match rb {
        ReleaseBehaviour::OnLastRelease => {
            // must see every participant released
            assert!(a.remaining_keys_to_release.len() == n);
            let mut i = 0;
            while i < n {
                assert!(a.remaining_keys_to_release[i] == keys[i]);
                i += 1;
            }
            assert!(a.status == Unread);
        }
        ReleaseBehaviour::OnFirstRelease => {
            assert!(a.remaining_keys_to_release.is_empty());
            assert!(a.status == if rel { UnreadReleased } else { Unread });
        }
    }
}

fn mk_active<'a>(coord: u16, part: &'a [u16], remaining: &[u16], status: ActiveChordStatus, action: &'a Action<'a, Inf>, delay: u16) -> ActiveChord<'a, Inf> {
    let mut r = HVec::new();
    let mut i = 0;
    while i < remaining.len() {
        let _ = r.push(remaining[i]);
        i += 1;
    }
    ActiveChord { coordinate: coord, remaining_keys_to_release: r, participating_keys: part, action, status, delay }
}

/// get_action_chv2: each activated chord is handed to the layout exactly once, oldest first
#[kani::proof]
#[kani::unwind(5)]
fn c09_b_get_action_once() {
    let keys: [u16; 1] = [1];
    let mut c = empty_chv2();
    let st = [any_status(), any_status(), any_status()];
    let n: usize = kani::any();
    kani::assume(n <= 3);
    let mut i = 0;
    while i < n {
        let _ = c.active_chords.push(mk_active(851 + i as u16, &keys, &[], st[i], &ACT[i], 7 + i as u16));
        i += 1;
    }
    let r = c.get_action_chv2();
    // first unread one
    let mut first: Option<usize> = None;
    let mut i = n;
    while i > 0 {
        i -= 1;
        if matches!(st[i], Unread | UnreadReleased) {
            first = Some(i);
        }
    }
    match (r, first) {
        (None, None) => {}
        (Some((coord, delay, act)), Some(k)) => {
            assert!(coord == (0, 851 + k as u16) && delay == 7 + k as u16);
            assert!(core::ptr::eq(act, &ACT[k]));
        }
        _ => panic!("handed out the wrong chord"),
    }
    let mut i = 0;
    while i < n {
        let want = if Some(i) == first {
            if st[i] == Unread { Releasable } else { Released }
        } else {
            st[i]
        };
        assert!(c.active_chords[i].status == want);
        i += 1;
    }
    // ... and never twice
    if let Some(k) = first {
        let again = c.get_action_chv2();
        if let Some((coord, _, _)) = again {
            assert!(coord != (0, 851 + k as u16));
        }
    }
}

const DQ_N: usize = 1;

fn any_ev() -> Event {
    let j: u16 = kani::any();
    kani::assume(j < 3);
    if kani::any() { Event::Press(0, j) } else { Event::Release(0, j) }
}

/// drain_releases: a participant's release removes it from the chord's remaining keys; when none
/// remain the chord is released; a non-participant's release changes no chord; a release is
/// forwarded (not swallowed) iff no press is pending before it; presses stay queued, in order.
#[kani::proof]
#[kani::unwind(4)]
fn c09_b_drain_releases() {
    let p: [u16; 2] = [kani::any(), kani::any()];
    let mut c = empty_chv2();
    let evs = [any_ev()];
    let n: usize = DQ_N;
    let mut i = 0;
    while i < n {
        let _ = c.queue.push_back(Queued { event: evs[i], since: kani::any() });
        i += 1;
    }
    // one active chord over keys {p0, p1}, some of them still to be released
    kani::assume(p[0] < 3 && p[1] < 3 && p[0] != p[1]);
    let last_release: bool = kani::any();
    let rem0: bool = kani::any();
    let rem1: bool = kani::any();
    let mut rem = [0u16; 2];
    let mut rn = 0;
    if last_release {
        if rem0 { rem[rn] = p[0]; rn += 1; }
        if rem1 { rem[rn] = p[1]; rn += 1; }
    }
    let st = any_status();
    let _ = c.active_chords.push(mk_active(860, &p, &rem[..rn], st, &ACT[0], 0));
    let mut dq = SmolQueue::new();
    c.drain_releases(&mut dq);

    // expected chord state
    let mut rel_p0 = false;
    let mut rel_p1 = false;
    let mut any_part_released = false;
    let mut i = 0;
    while i < n {
        if let Event::Release(_, j) = evs[i] {
            if j == p[0] { rel_p0 = true; any_part_released = true; }
            if j == p[1] { rel_p1 = true; any_part_released = true; }
        }
        i += 1;
    }
    let a = &c.active_chords[0];
    let mut want = [0u16; 2];
    let mut wn = 0;
    if last_release {
        if rem0 && !rel_p0 { want[wn] = p[0]; wn += 1; }
        if rem1 && !rel_p1 { want[wn] = p[1]; wn += 1; }
    }
    assert!(a.remaining_keys_to_release.len() == wn);
    let mut i = 0;
    while i < wn {
        assert!(a.remaining_keys_to_release[i] == want[i]);
        i += 1;
    }
    let want_status = if any_part_released && wn == 0 {
        match st { Unread | UnreadReleased => UnreadReleased, Releasable | Released => Released }
    } else {
        st
    };
    assert!(a.status == want_status);
    assert!(a.coordinate == 860);

    // expected queues
    let mut seen_press = false;
    let mut qi = 0;
    let mut di = 0;
    let mut i = 0;
    while i < n {
        match evs[i] {
            Event::Press(..) => {
                seen_press = true;
                assert!(c.queue[qi].event == evs[i]);
                qi += 1;
            }
            Event::Release(..) => {
                if seen_press {
                    assert!(c.queue[qi].event == evs[i]);
                    qi += 1;
                } else {
                    assert!(dq[di].event == evs[i]);
                    di += 1;
                }
            }
        }
        i += 1;
    }
    assert!(c.queue.len() == qi && dq.len() == di);
    kani::cover!(n == DQ_N && want_status == Released && st == Releasable, "last participant released");
    kani::cover!(n == DQ_N && di == 1 && qi == 0, "release forwarded");
}

/// clear_released_chords: exactly one Release(0, coordinate) per released chord, which is then
/// forgotten; the others stay, in order.
#[kani::proof]
#[kani::unwind(4)]
fn c09_b_clear_released() {
    let keys: [u16; 1] = [1];
    let mut c = empty_chv2();
    let st = [any_status(), any_status()];
    let n: usize = 2;
    let mut i = 0;
    while i < n {
        let _ = c.active_chords.push(mk_active(851 + i as u16, &keys, &[], st[i], &ACT[i], 0));
        i += 1;
    }
    let mut dq = SmolQueue::new();
    c.clear_released_chords(&mut dq);
    let mut di = 0;
    let mut ai = 0;
    let mut i = 0;
    while i < n {
        if st[i] == Released {
            assert!(dq[di].event == Event::Release(0, 851 + i as u16));
            di += 1;
        } else {
            assert!(c.active_chords[ai].coordinate == 851 + i as u16 && c.active_chords[ai].status == st[i]);
            ai += 1;
        }
        i += 1;
    }
    assert!(dq.len() == di && c.active_chords.len() == ai);
    kani::cover!(n == 2 && di == 1 && ai == 1, "one released of two");
}

/// must-fail twin: claims a release never changes a chord
#[kani::proof]
#[kani::unwind(6)]
fn c09_b_drain_releases_neg() {
    let p: [u16; 1] = [1];
    let mut c = empty_chv2();
    let _ = c.queue.push_back(Queued { event: Event::Release(0, 1), since: 0 });
    let st = any_status();
    let _ = c.active_chords.push(mk_active(860, &p, &[], st, &ACT[0], 0));
    let mut dq = SmolQueue::new();
    c.drain_releases(&mut dq);
    assert!(c.active_chords[0].status == st);
}

#[kani::proof]
#[kani::unwind(4)]
fn zz_probe_a() {
    let p: [u16; 2] = [1, 2];
    let mut c = empty_chv2();
    let _ = c.queue.push_back(Queued { event: Event::Release(0, 1), since: 0 });
    let st = any_status();
    let _ = c.active_chords.push(mk_active(860, &p, &[1], st, &ACT[0], 0));
    let mut dq = SmolQueue::new();
    c.drain_releases(&mut dq);
    let want = match st { Unread | UnreadReleased => UnreadReleased, Releasable | Released => Released };
    assert!(c.active_chords[0].status == want);
    assert!(dq.len() == 1);
}
#[kani::proof]
#[kani::unwind(4)]
fn zz_probe_b() {
    let p: [u16; 2] = [1, 2];
    let mut c = empty_chv2();
    let e = any_ev();
    let _ = c.queue.push_back(Queued { event: e, since: 0 });
    let _ = c.active_chords.push(mk_active(860, &p, &[1], Releasable, &ACT[0], 0));
    let mut dq = SmolQueue::new();
    c.drain_releases(&mut dq);
    let rel1 = e == Event::Release(0, 1);
    assert!(c.active_chords[0].status == if rel1 { Released } else { Releasable });
}
