//@ unit reload
// Side-car contracts for live reload (src/kanata/mod.rs), property C15: "If the file to reload does
// not parse, kanata keeps running with the previous configuration ... If it parses, the reload is
// applied once no output key is down (or after one idle second): the first layer becomes active ..."
// What is cut: Kanata::do_live_reload (whole, for the configuration target_os = "linux" WITHOUT the
// cargo features tcp_server / zippychord / gui: the notification and zippychord statements are
// #[cfg]-gated and dropped by R6), and the deferral test in handle_time_ticks (a FRAGMENT).
// Kanata, Cfg and CfgOptions are sliced (R7) to the fields the function moves; their types are opaque.

//@ raw
#[verifier::external_body]
pub struct VerifError { verif_opaque: u8 }
#[verifier::external_body]
pub struct VerifParseError { verif_opaque: u8 }
type Result<T> = core::result::Result<T, VerifError>;
// R13: bail!("..") -> return Err(verif_bail());
#[verifier::external_body]
fn verif_bail() -> VerifError { unimplemented!() }

// opaque configuration payloads: only moved from the parsed Cfg into Kanata
#[verifier::external_body]
pub struct KbdOut { verif_opaque: u8 }
#[verifier::external_body]
pub struct PathBuf { verif_opaque: u8 }
#[verifier::external_body]
pub struct KeyOutputs { verif_opaque: u8 }
#[verifier::external_body]
pub struct LayerInfo { verif_opaque: u8 }
#[verifier::external_body]
pub struct KeySeqsToFKeys { verif_opaque: u8 }
#[verifier::external_body]
pub struct Overrides { verif_opaque: u8 }
#[verifier::external_body]
pub struct MappedKeys { verif_opaque: u8 }
#[verifier::external_body]
pub struct KeyRepeatSettings { verif_opaque: u8 }
#[verifier::external_body]
pub struct BLayout { verif_opaque: u8 }
impl BLayout {
    pub uninterp spec fn cur_layer(&self) -> usize;
    #[verifier::external_body]
    fn current_layer(&self) -> (r: usize) ensures r == self.cur_layer() { unimplemented!() }
}
pub struct KanataLayout { pub verif_inner: BLayout }
impl KanataLayout {
    /// R18: `bm(&mut self) -> &mut Layout` is only read here -> shared reference
    fn verif_b(&self) -> (r: &BLayout) ensures *r == self.verif_inner { &self.verif_inner }
}
//@ item parser/src/custom_action.rs enum SequenceInputMode
//@@ keep-vis
//@ item parser/src/cfg/defcfg.rs enum ReplayDelayBehaviour
//@@ keep-vis
//@ item src/kanata/dynamic_macro.rs struct ReplayBehaviour
//@@ keep-vis
//@@ no-derives
//@ item parser/src/cfg/defcfg.rs struct CfgLinuxOptions
//@@ keep-vis
//@@ no-derives
//@@ keep-fields linux_x11_repeat_delay_rate
//@ item parser/src/cfg/defcfg.rs struct CfgOptions
//@@ keep-vis
//@@ no-derives
//@@ keep-fields sequence_timeout sequence_input_mode sequence_backtrack_modcancel sequence_always_on log_layer_changes movemouse_inherit_accel_state movemouse_smooth_diagonals override_release_on_activation dynamic_macro_max_presses dynamic_macro_replay_delay_behaviour linux_opts
//@ item parser/src/cfg/mod.rs struct Cfg
//@@ keep-vis
//@@ no-derives
//@@ keep-fields mapped_keys key_outputs layer_info options layout sequences overrides switch_max_key_timing
//@ item src/kanata/mod.rs struct Kanata
//@@ keep-vis
//@@ no-derives
//@@ keep-fields kbd_out cfg_paths cur_cfg_idx key_outputs layout cur_keys prev_keys layer_info prev_layer sequence_backtrack_modcancel sequence_always_on sequence_input_mode sequence_timeout sequences overrides live_reload_requested log_layer_changes ticks_since_idle movemouse_inherit_accel_state movemouse_smooth_diagonals override_release_on_activation dynamic_macro_max_presses dynamic_macro_replay_behaviour switch_max_key_timing macro_on_press_cancel_duration
//@@ resub Rpath 1 /cfg::KeyOutputs/ => `KeyOutputs`
//@@ resub Rpath 1 /cfg::KanataLayout/ => `KanataLayout`
//@@ resub Rpath 1 /cfg::KeySeqsToFKeys/ => `KeySeqsToFKeys`
//@@ resub Rtype 2 /Vec<KeyCode>/ => `Vec<u16>`
//@@ add-field pub verif_mapped: Ghost<Option<MappedKeys>>
//@@ add-field pub verif_printed: Ghost<Seq<usize>>

//@ raw
/// the result of parsing the file at a path: a function of the path (the file system is outside)
pub uninterp spec fn parse_of(p: PathBuf) -> core::result::Result<Cfg, VerifParseError>;
pub mod cfg {
    use vstd::prelude::*;
    /// kanata_parser::cfg::new_from_file, ASSUMED deterministic in the path for the duration of the call
    #[verifier::external_body]
    pub fn new_from_file(p: &crate::PathBuf) -> (r: core::result::Result<crate::Cfg, crate::VerifParseError>)
        ensures r == crate::parse_of(*p),
    { unimplemented!() }
}
/// update_kbd_out: pushes two unicode options to the output device; may fail
pub uninterp spec fn kbd_out_ok(o: CfgOptions) -> bool;
#[verifier::external_body]
fn update_kbd_out(_cfg: &CfgOptions, _kbd_out: &KbdOut) -> (r: Result<()>)
    ensures r is Ok == kbd_out_ok(*_cfg),
{ unimplemented!() }
#[verifier::external_body]
fn get_forced_log_layer_changes() -> (r: Option<bool>)
    ensures r == forced_log(),
{ unimplemented!() }
pub uninterp spec fn forced_log() -> Option<bool>;
pub uninterp spec fn repeat_rate_ok(s: Option<KeyRepeatSettings>) -> bool;
/// R25: `*MAPPED_KEYS.lock() = v;` (a global behind a mutex) -> recorded in a ghost field
impl Kanata {
    #[verifier::external_body]
    fn verif_set_mapped_keys(&mut self, v: MappedKeys)
        ensures *final(self) == (Kanata { verif_mapped: Ghost(Some(v)), ..*old(self) }),
    { unimplemented!() }
    #[verifier::external_body]
    fn set_repeat_rate(s: Option<KeyRepeatSettings>) -> (r: Result<()>)
        ensures r is Ok == repeat_rate_ok(s),
    { unimplemented!() }
    #[verifier::external_body]
    fn print_layer(&self, layer: usize)
    { unimplemented!() }
}

//@ item src/kanata/mod.rs fn do_live_reload in `Kanata`
//@@ wrap impl Kanata
//@@ macro-stmt R13 bail => `return Err(verif_bail());`
//@@ resub R25 1 /\*MAPPED_KEYS\.lock\(\) = ([^;]*);/ => `self.verif_set_mapped_keys(\1);`
//@@ resub R18 * /self\.layout\.bm\(\)/ => `self.layout.verif_b()`
//@@ sig Rtx `_tx: &Option<Sender<ServerMessage>>` => `_tx: &Option<u8>`
//@@ ret r
//@@ spec
    requires
        old(self).cur_cfg_idx < old(self).cfg_paths@.len(),
    ensures
        // ALL-OR-NOTHING, the failure half: if the file does not parse (or the output device rejects
        // the new options) NOTHING of the running configuration or state is touched
        (parse_of(old(self).cfg_paths@[old(self).cur_cfg_idx as int]) is Err
            || !kbd_out_ok(parse_of(old(self).cfg_paths@[old(self).cur_cfg_idx as int])->Ok_0.options)) ==>
            r is Err && *final(self) == *old(self),
        // the request flag and the idle counter are not this function's business
        final(self).live_reload_requested == old(self).live_reload_requested,
        final(self).ticks_since_idle == old(self).ticks_since_idle,
        // it succeeds whenever the file parses and the devices accept the new options
        (parse_of(old(self).cfg_paths@[old(self).cur_cfg_idx as int]) matches Ok(c) && kbd_out_ok(c.options)
            && repeat_rate_ok(c.options.linux_opts.linux_x11_repeat_delay_rate)) ==> r is Ok,
        // the success half: every configuration-derived field comes from the newly parsed
        // configuration, the layer shown is the new layout's current layer, the macro cancel window is
        // closed; the file list, the index and the key lists are kept
        r is Ok ==> ({
            let c = parse_of(old(self).cfg_paths@[old(self).cur_cfg_idx as int])->Ok_0;
            &&& parse_of(old(self).cfg_paths@[old(self).cur_cfg_idx as int]) is Ok
            &&& final(self).layout == c.layout && final(self).key_outputs == c.key_outputs && final(self).layer_info == c.layer_info
            &&& final(self).sequences == c.sequences && final(self).overrides == c.overrides
            &&& final(self).verif_mapped@ == Some(c.mapped_keys)
            &&& final(self).switch_max_key_timing == c.switch_max_key_timing
            &&& final(self).sequence_timeout == c.options.sequence_timeout && final(self).sequence_input_mode == c.options.sequence_input_mode
            &&& final(self).sequence_always_on == c.options.sequence_always_on && final(self).sequence_backtrack_modcancel == c.options.sequence_backtrack_modcancel
            &&& final(self).dynamic_macro_max_presses == c.options.dynamic_macro_max_presses
            &&& final(self).dynamic_macro_replay_behaviour.delay == c.options.dynamic_macro_replay_delay_behaviour
            &&& final(self).prev_layer == c.layout.verif_inner.cur_layer()
            &&& final(self).macro_on_press_cancel_duration == 0
            &&& final(self).cfg_paths == old(self).cfg_paths && final(self).cur_cfg_idx == old(self).cur_cfg_idx
            &&& final(self).cur_keys == old(self).cur_keys && final(self).prev_keys == old(self).prev_keys
        }),

// ---------------------------------------------------------------------------------------
// WHEN a requested reload is applied: the `if self.live_reload_requested && ..` statement of
// Kanata::handle_time_ticks (a FRAGMENT, `stmt-at`).
// ---------------------------------------------------------------------------------------
//@ fragment src/kanata/mod.rs fn handle_time_ticks in `Kanata` stmt-at `if self.live_reload_requested` as reload_when_quiet
//@@ wrap impl Kanata
//@@ header
fn reload_when_quiet(&mut self, tx: &Option<u8>)
//@@ spec
    requires
        old(self).cur_cfg_idx < old(self).cfg_paths@.len(),
    ensures
        ({
            let due = old(self).live_reload_requested
                && ((old(self).prev_keys@.len() == 0 && old(self).cur_keys@.len() == 0) || old(self).ticks_since_idle > 1000);
            let parsed = parse_of(old(self).cfg_paths@[old(self).cur_cfg_idx as int]);
            // not requested, or an output key is still down and kanata has not been idle for a second:
            // nothing happens, the request stays pending
            &&& !due ==> *final(self) == *old(self)
            // due: the request is consumed - it is tried once - and if the file does not parse the
            // running configuration stays exactly as it was ("as if no reload had been requested")
            &&& due ==> !final(self).live_reload_requested
            &&& due && parsed is Err ==> *final(self) == (Kanata { live_reload_requested: false, ..*old(self) })
            // due and it parses (and the devices accept it): the new layout is in place
            &&& due && parsed is Ok && kbd_out_ok(parsed->Ok_0.options) && repeat_rate_ok(parsed->Ok_0.options.linux_opts.linux_x11_repeat_delay_rate)
                    ==> final(self).layout == parsed->Ok_0.layout && final(self).prev_layer == parsed->Ok_0.layout.verif_inner.cur_layer()
        }),
