//@ unit ticks
// Side-car contract for Kanata::handle_scrolling (src/kanata/mod.rs), property C02:
// "run-time arithmetic assuming those checks (interval - 1 ..)".  The parser accepts a mouse-wheel
// action only with a non-zero interval; the run-time countdown relies on it.  Cut whole; Kanata is
// sliced (R7) to the three fields it touches; KbdOut::scroll is a stub with a ghost log.

//@ raw
#[verifier::external_body]
pub struct VerifError { verif_opaque: u8 }
type Result<T> = core::result::Result<T, VerifError>;
//@ item parser/src/custom_action.rs enum MWheelDirection
//@@ keep-vis
//@ item src/kanata/mod.rs struct ScrollState
//@@ keep-vis
//@ raw
/// the OS output: a ghost log of wheel events
pub struct KbdOut { pub verif_scrolls: Ghost<Seq<(MWheelDirection, u16)>> }
impl KbdOut {
    /// ASSUMED: emits one wheel event (the real method returns io::Result; `?` converts the error)
    #[verifier::external_body]
    fn scroll(&mut self, direction: MWheelDirection, distance: u16) -> (r: Result<()>)
        ensures final(self).verif_scrolls@ == old(self).verif_scrolls@.push((direction, distance)),
    { unimplemented!() }
}
//@ item src/kanata/mod.rs struct Kanata
//@@ keep-vis
//@@ no-derives
//@@ keep-fields kbd_out scroll_state hscroll_state

//@ raw
/// one countdown step of a continuous-scroll state: fires when the counter is 0 and re-arms it to
/// interval - 1 (so one event every `interval` ticks), otherwise counts down
spec fn stepped(s: ScrollState) -> ScrollState {
    ScrollState { ticks_until_scroll: if s.ticks_until_scroll == 0 { (s.interval - 1) as u16 } else { (s.ticks_until_scroll - 1) as u16 }, ..s }
}
spec fn fired(s: Option<ScrollState>) -> Seq<(MWheelDirection, u16)> {
    match s { Some(s) => if s.ticks_until_scroll == 0 { seq![(s.direction, s.distance)] } else { Seq::empty() }, None => Seq::empty() }
}

//@ item src/kanata/mod.rs fn handle_scrolling in `Kanata`
//@@ wrap impl Kanata
//@@ ret r
//@@ spec
    requires
        // what the parser enforces for every mouse-wheel action (parse_non_zero_u16): interval >= 1.
        // Without it `interval - 1` underflows (panic with overflow checks, 65535-tick stall without).
        old(self).scroll_state matches Some(s) ==> s.interval >= 1,
        old(self).hscroll_state matches Some(s) ==> s.interval >= 1,
    ensures
        // no arithmetic failure (checked by Verus on every path), and on success:
        r is Ok ==> final(self).scroll_state == (match old(self).scroll_state { Some(s) => Some(stepped(s)), None => None })
            && final(self).hscroll_state == (match old(self).hscroll_state { Some(s) => Some(stepped(s)), None => None })
            // vertical before horizontal, each at most once, exactly when its counter was 0
            && final(self).kbd_out.verif_scrolls@ == old(self).kbd_out.verif_scrolls@ + fired(old(self).scroll_state) + fired(old(self).hscroll_state),
//@@ before 1 `Ok(())`
    proof {
        let l0 = old(self).kbd_out.verif_scrolls@;
        assert(self.kbd_out.verif_scrolls@ =~= l0 + fired(old(self).scroll_state) + fired(old(self).hscroll_state));
    }
