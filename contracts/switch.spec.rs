//@ unit switch
// Side-car contracts for keyberon/src/action/switch.rs (property C10, C02).
// Nothing below is executable repository code: only spec functions, lemmas and
// requires/ensures/invariant text that the generator splices onto the text cut
// from /repo on every run.

//@ item keyberon/src/layout.rs type KCoord
//@ item keyberon/src/layout.rs const MAX_LAYERS
//@@ wrap pub mod layout
//@@ keep-vis

//@ item keyberon/src/key_code.rs const KEY_MAX
//@ item keyberon/src/key_code.rs enum KeyCode
//@ item keyberon/src/action/switch.rs const MAX_OPCODE_LEN
//@ item keyberon/src/action/switch.rs const OP_MASK
//@ item keyberon/src/action/switch.rs const MAX_BOOL_EXPR_DEPTH
//@ item keyberon/src/action/switch.rs const MAX_KEY_RECENCY
//@ item keyberon/src/action/switch.rs const OR_VAL
//@ item keyberon/src/action/switch.rs const AND_VAL
//@ item keyberon/src/action/switch.rs const NOT_VAL
//@ item keyberon/src/action/switch.rs const INPUT_VAL
//@ item keyberon/src/action/switch.rs const HISTORICAL_INPUT_VAL
//@ item keyberon/src/action/switch.rs const LAYER_VAL
//@ item keyberon/src/action/switch.rs const BASE_LAYER_VAL
//@ item keyberon/src/action/switch.rs const TICKS_SINCE_VAL_GT
//@ item keyberon/src/action/switch.rs const TICKS_SINCE_VAL_LT
//@ item keyberon/src/action/switch.rs const HISTORICAL_KEYCODE_VAL
//@ item keyberon/src/action/switch.rs enum BooleanOperator
//@ item keyberon/src/action/switch.rs struct OpCode
//@ item keyberon/src/action/switch.rs enum OpCodeType
//@ item keyberon/src/action/switch.rs struct OperatorAndEndIndex
//@ item keyberon/src/action/switch.rs struct HistoricalKeyCode
//@ item keyberon/src/action/switch.rs struct HistoricalInput
//@ item keyberon/src/action/switch.rs struct TicksSinceNthKey
//@ item keyberon/src/action/switch.rs enum BreakOrFallthrough

//@ raw
use BooleanOperator::*;
use BreakOrFallthrough::*;

// ---------------------------------------------------------------------------
// A1: lossy tick compression.  Oracle written from the documentation of
// `new_ticks_since_gt`: exact below 256, 8 ms resolution (rounded down) from 256,
// 128 ms resolution (rounded down) from 2304.
// ---------------------------------------------------------------------------
spec fn spec_compress(t: int) -> int {
    if t <= 255 { t } else if t <= 2303 { (t - 255) / 8 + 255 } else { (t - 2303) / 128 + 511 }
}
spec fn spec_decompress(c: int) -> int {
    if c <= 255 { c } else if c <= 511 { (c - 255) * 8 + 255 } else { (c - 511) * 128 + 2303 }
}
/// what a written threshold t becomes once it went through the opcode
spec fn eff_ticks(t: int) -> int { spec_decompress(spec_compress(t)) }

proof fn lemma_ticks_roundtrip(t: int)
    requires 0 <= t <= 65535,
    ensures
        0 <= spec_compress(t) <= 1005,
        eff_ticks(t) <= t,
        t <= 255 ==> eff_ticks(t) == t,
        256 <= t <= 2303 ==> t - eff_ticks(t) < 8,
        2304 <= t ==> t - eff_ticks(t) < 128,
        // recompressing what was decompressed is stable (idempotent)
        spec_compress(eff_ticks(t)) == spec_compress(t),
{
}
proof fn lemma_ticks_monotone(a: int, b: int)
    requires 0 <= a <= b <= 65535,
    ensures spec_compress(a) <= spec_compress(b), eff_ticks(a) <= eff_ticks(b),
{
}

//@ item keyberon/src/action/switch.rs fn lossy_compress_ticks
//@@ ret r
//@@ spec
    ensures r as int == spec_compress(t as int), r <= 1005,

//@ item keyberon/src/action/switch.rs fn lossy_decompress_ticks
//@@ ret r
//@@ spec
    requires t <= 1005,
    ensures r as int == spec_decompress(t as int),

//@ raw
// ---------------------------------------------------------------------------
// A2: opcode codec.  Oracle: what each constructor is documented to mean.
// ---------------------------------------------------------------------------
proof fn lemma_bits_key(x: u16)
    requires x <= 0x0FFF,
    ensures x & 0x0FFF == x,
{
    assert(x <= 0x0FFF ==> x & 0x0FFF == x) by(bit_vector);
}

proof fn lemma_bits_ticks(base: u16, c: u16, n: u16)
    requires c <= 1005, n <= 7, base == 0x4000 || base == 0x6000,
    ensures
        (base | c | (n << 10)) > 0x0FFF,
        (base | c | (n << 10)) & 0xE000 == base,
        ((base | c | (n << 10)) & 0x1C00) >> 10 == n,
        (base | c | (n << 10)) & 0x03FF == c,
{
    assert(c <= 1005 && n <= 7 && (base == 0x4000 || base == 0x6000) ==>
        (base | c | (n << 10)) > 0x0FFF
        && (base | c | (n << 10)) & 0xE000 == base
        && ((base | c | (n << 10)) & 0x1C00) >> 10 == n
        && (base | c | (n << 10)) & 0x03FF == c) by(bit_vector);
}

proof fn lemma_bits_bool(e: u16)
    requires e <= 0x0FFF,
    ensures
        e & 0x0FFF == e,
        ((e + 0x1000) as u16) & 0xF000 == 0x1000, ((e + 0x1000) as u16) & 0x0FFF == e, ((e + 0x1000) as u16) & 0xE000 == 0,
        ((e + 0x2000) as u16) & 0xF000 == 0x2000, ((e + 0x2000) as u16) & 0x0FFF == e, ((e + 0x2000) as u16) & 0xE000 == 0x2000,
        ((e + 0x3000) as u16) & 0xF000 == 0x3000, ((e + 0x3000) as u16) & 0x0FFF == e, ((e + 0x3000) as u16) & 0xE000 == 0x2000,
{
    assert(e <= 0x0FFF ==> (e & 0x0FFF) == e) by(bit_vector);
    assert(e <= 0x0FFF ==> add(e, 0x1000u16) & 0xF000 == 0x1000 && add(e, 0x1000u16) & 0x0FFF == e && add(e, 0x1000u16) & 0xE000 == 0) by(bit_vector);
    assert(e <= 0x0FFF ==> add(e, 0x2000u16) & 0xF000 == 0x2000 && add(e, 0x2000u16) & 0x0FFF == e && add(e, 0x2000u16) & 0xE000 == 0x2000) by(bit_vector);
    assert(e <= 0x0FFF ==> add(e, 0x3000u16) & 0xF000 == 0x3000 && add(e, 0x3000u16) & 0x0FFF == e && add(e, 0x3000u16) & 0xE000 == 0x2000) by(bit_vector);
}

/// second word of the two-word input opcodes: row in bits 15-14, recency in 13-11, column in 9-0
proof fn lemma_bits_input(a: u8, b: u16, k: u8)
    requires a < 4, b < 0x400, k < 8,
    ensures
        a & 3 == a,
        ((a as u16) << 14) <= 0xC000,
        ((k as u16) << 11) <= 0x3800,
        ({
            let w = (((a as u16) << 14) + ((k as u16) << 11) + b) as u16;
            ((w >> 14) & 0x3) as u8 == a && w & 0x3FF == b && (w >> 11) as u8 & 0x7 == k
        }),
{
    assert(a < 4 ==> a & 3 == a) by(bit_vector);
    assert(a < 4 ==> ((a as u16) << 14) <= 0xC000) by(bit_vector);
    assert(k < 8 ==> ((k as u16) << 11) <= 0x3800) by(bit_vector);
    assert(a < 4 && b < 0x400 && k < 8 ==> ({
        let w = add(add((a as u16) << 14, (k as u16) << 11), b);
        ((w >> 14) & 0x3) as u8 == a && w & 0x3FF == b && (w >> 11) as u8 & 0x7 == k
    })) by(bit_vector);
}
proof fn lemma_bits_input0(a: u8, b: u16)
    requires a < 4, b < 0x400,
    ensures
        a & 3 == a,
        ((a as u16) << 14) <= 0xC000,
        ({
            let w = (((a as u16) << 14) + b) as u16;
            ((w >> 14) & 0x3) as u8 == a && w & 0x3FF == b
        }),
{
    assert(a < 4 ==> a & 3 == a) by(bit_vector);
    assert(a < 4 ==> ((a as u16) << 14) <= 0xC000) by(bit_vector);
    assert(a < 4 && b < 0x400 ==> ({
        let w = add((a as u16) << 14, b);
        ((w >> 14) & 0x3) as u8 == a && w & 0x3FF == b
    })) by(bit_vector);
}

//@ item keyberon/src/action/switch.rs fn to_u16 in `BooleanOperator`
//@@ wrap impl BooleanOperator
//@@ ret r
//@@ spec
    ensures r == (match self { Or => 0x1000u16, And => 0x2000u16, Not => 0x3000u16 }),

//@ item keyberon/src/action/switch.rs fn new_key in `OpCode`
//@@ wrap impl OpCode
//@@ ret r
//@@ spec
    ensures r.0 == kc as u16, r.0 < 850,
//@@ before 1 `Self(kc as u16`
    proof { lemma_bits_key(kc as u16); }

//@ item keyberon/src/action/switch.rs fn new_key_history in `OpCode`
//@@ wrap impl OpCode
//@@ ret r
//@@ spec
    requires key_recency <= 7,
    ensures
        r.0 >= 0x8000,
        r.0 & 0x0FFF == kc as u16,
        (r.0 & 0x7000) >> 12 == key_recency as u16,
//@@ before 1 `Self((kc as u16`
    proof {
        let k = kc as u16; let n = key_recency as u16;
        assert(k <= 0x0FFF && n <= 7 ==> ((k & 0x0FFF) | 0x8000u16 | (n << 12)) >= 0x8000
            && ((k & 0x0FFF) | 0x8000u16 | (n << 12)) & 0x0FFF == k
            && (((k & 0x0FFF) | 0x8000u16 | (n << 12)) & 0x7000) >> 12 == n) by(bit_vector);
    }

//@ item keyberon/src/action/switch.rs fn new_ticks_since_gt in `OpCode`
//@@ wrap impl OpCode
//@@ ret r
//@@ spec
    requires nth_key <= 7,
    ensures
        r.0 > 0x0FFF,
        r.0 & 0xE000 == 0x4000,
        (r.0 & 0x1C00) >> 10 == nth_key as u16,
        (r.0 & 0x03FF) as int == spec_compress(ticks_since as int),
//@@ before 1 `Self(TICKS_SINCE_VAL_GT`
    proof { lemma_bits_ticks(0x4000u16, spec_compress(ticks_since as int) as u16, nth_key as u16); }

//@ item keyberon/src/action/switch.rs fn new_ticks_since_lt in `OpCode`
//@@ wrap impl OpCode
//@@ ret r
//@@ spec
    requires nth_key <= 7,
    ensures
        r.0 > 0x0FFF,
        r.0 & 0xE000 == 0x6000,
        (r.0 & 0x1C00) >> 10 == nth_key as u16,
        (r.0 & 0x03FF) as int == spec_compress(ticks_since as int),
//@@ before 1 `Self(TICKS_SINCE_VAL_LT`
    proof { lemma_bits_ticks(0x6000u16, spec_compress(ticks_since as int) as u16, nth_key as u16); }

//@ item keyberon/src/action/switch.rs fn new_bool in `OpCode`
//@@ wrap impl OpCode
//@@ ret r
//@@ spec
    requires end_idx <= 0x0FFF,
    ensures
        r.0 > 0x0FFF,
        r.0 & 0xE000 == 0 || r.0 & 0xE000 == 0x2000,
        r.0 & 0xF000 == (match op { Or => 0x1000u16, And => 0x2000u16, Not => 0x3000u16 }),
        r.0 & 0x0FFF == end_idx,
//@@ before 1 `Self((end_idx & MAX_OPCODE_LEN)`
    proof { lemma_bits_bool(end_idx); }

//@ item keyberon/src/action/switch.rs fn new_active_input in `OpCode`
//@@ wrap impl OpCode
//@@ ret r
//@@ spec
    requires input.0 < 4, input.1 < 0x0400,
    ensures
        r.0.0 == 851,
        ((r.1.0 >> 14) & 0x3) as u8 == input.0,
        r.1.0 & 0x3FF == input.1,
//@@ before 1 `( Self(INPUT_VAL),`
    proof { lemma_bits_input0(input.0, input.1); }

//@ item keyberon/src/action/switch.rs fn new_historical_input in `OpCode`
//@@ wrap impl OpCode
//@@ ret r
//@@ spec
    requires input.0 < 4, input.1 < 0x0400, key_recency < 8,
    ensures
        r.0.0 == 852,
        ((r.1.0 >> 14) & 0x3) as u8 == input.0,
        r.1.0 & 0x3FF == input.1,
        (r.1.0 >> 11) as u8 & 0x7 == key_recency,
//@@ before 1 `( Self(HISTORICAL_INPUT_VAL),`
    proof { lemma_bits_input(input.0, input.1, key_recency); }

//@ item keyberon/src/action/switch.rs fn new_layer in `OpCode`
//@@ wrap impl OpCode
//@@ ret r
//@@ spec
    requires (layer as usize) < crate::layout::MAX_LAYERS,
    ensures r.0.0 == 853, r.1.0 == layer,

//@ item keyberon/src/action/switch.rs fn new_base_layer in `OpCode`
//@@ wrap impl OpCode
//@@ ret r
//@@ spec
    requires (base_layer as usize) < crate::layout::MAX_LAYERS,
    ensures r.0.0 == 854, r.1.0 == base_layer,

//@ raw
// --- decoding: what a word (and, for two-word opcodes, its successor) means -------------
spec fn is_key_word(w: u16) -> bool { w < 850 }
spec fn is_two_word(w: u16) -> bool { 851 <= w <= 854 }
spec fn is_boolop_word(w: u16) -> bool { w > 0x0FFF && (w & 0xE000 == 0 || w & 0xE000 == 0x2000) }
spec fn is_ticks_word(w: u16) -> bool { w & 0xE000 == 0x4000 || w & 0xE000 == 0x6000 }
spec fn is_histkey_word(w: u16) -> bool { w >= 0x8000 }
/// words `opcode_type` can interpret without panicking / overflowing
spec fn word_ok(w: u16, next: Option<OpCode>) -> bool {
    is_key_word(w)
    || (is_two_word(w) && next.is_some())
    || (w > 0x0FFF && (is_ticks_word(w) ==> (w & 0x03FF) <= 1005))
}
spec fn boolop_of(w: u16) -> BooleanOperator {
    if w & 0xF000 == 0x1000 { Or } else if w & 0xF000 == 0x2000 { And } else { Not }
}
spec fn spec_decode(w: u16, next: Option<OpCode>) -> OpCodeType {
    if w < 850 {
        OpCodeType::KeyCode(w)
    } else if w <= 0x0FFF {
        let n = next.unwrap().0;
        if w == 851 { OpCodeType::Input((((n >> 14) & 0x3) as u8, n & 0x3FF)) }
        else if w == 852 { OpCodeType::HistoricalInput(HistoricalInput { input: (((n >> 14) & 0x3) as u8, n & 0x3FF), how_far_back: ((n >> 11) as u8) & 0x7 }) }
        else if w == 853 { OpCodeType::Layer(n) }
        else { OpCodeType::BaseLayer(n) }
    } else if w & 0xE000 == 0x6000 {
        OpCodeType::TicksSinceLessThan(TicksSinceNthKey { nth_key: ((w & 0x1C00) >> 10) as u8, ticks_since: spec_decompress((w & 0x03FF) as int) as u16 })
    } else if w & 0xE000 == 0x4000 {
        OpCodeType::TicksSinceGreaterThan(TicksSinceNthKey { nth_key: ((w & 0x1C00) >> 10) as u8, ticks_since: spec_decompress((w & 0x03FF) as int) as u16 })
    } else if w >= 0x8000 {
        OpCodeType::HistoricalKeyCode(HistoricalKeyCode { key_code: w & 0x0FFF, how_far_back: ((w & 0x7000) >> 12) as u8 })
    } else {
        OpCodeType::BooleanOp(OperatorAndEndIndex { op: boolop_of(w), idx: (w & 0x0FFF) as usize })
    }
}

proof fn lemma_bits_classes(w: u16)
    ensures
        w > 0x0FFF ==> (w & 0xE000 == 0 || w & 0xE000 == 0x2000 || w & 0xE000 == 0x4000 || w & 0xE000 == 0x6000
                        || w & 0xE000 == 0x8000 || w & 0xE000 == 0xA000 || w & 0xE000 == 0xC000 || w & 0xE000 == 0xE000),
        (w >= 0x8000) <==> (w & 0xE000 == 0x8000 || w & 0xE000 == 0xA000 || w & 0xE000 == 0xC000 || w & 0xE000 == 0xE000),
        w > 0x0FFF && w & 0xE000 == 0 ==> w & 0xF000 == 0x1000,
        w & 0xE000 == 0x2000 ==> (w & 0xF000 == 0x2000 || w & 0xF000 == 0x3000),
        (w & 0x03FF) <= 0x3FF, (w & 0x0FFF) <= 0x0FFF,
        ((w & 0x1C00) >> 10) <= 7, ((w & 0x7000) >> 12) <= 7,
{
    assert(w > 0x0FFF ==> (w & 0xE000 == 0 || w & 0xE000 == 0x2000 || w & 0xE000 == 0x4000 || w & 0xE000 == 0x6000
                        || w & 0xE000 == 0x8000 || w & 0xE000 == 0xA000 || w & 0xE000 == 0xC000 || w & 0xE000 == 0xE000)) by(bit_vector);
    assert((w >= 0x8000) <==> (w & 0xE000 == 0x8000 || w & 0xE000 == 0xA000 || w & 0xE000 == 0xC000 || w & 0xE000 == 0xE000)) by(bit_vector);
    assert(w > 0x0FFF && w & 0xE000 == 0 ==> w & 0xF000 == 0x1000) by(bit_vector);
    assert(w & 0xE000 == 0x2000 ==> (w & 0xF000 == 0x2000 || w & 0xF000 == 0x3000)) by(bit_vector);
    assert((w & 0x03FF) <= 0x3FF && (w & 0x0FFF) <= 0x0FFF && ((w & 0x1C00) >> 10) <= 7 && ((w & 0x7000) >> 12) <= 7) by(bit_vector);
}

//@ item keyberon/src/action/switch.rs fn from in `From<u16> for OperatorAndEndIndex` as op_from
//@@ wrap impl OperatorAndEndIndex
//@@ ret r
//@@ spec
    requires value & 0xF000 == 0x1000 || value & 0xF000 == 0x2000 || value & 0xF000 == 0x3000,
    ensures r.op == boolop_of(value), r.idx == (value & 0x0FFF) as usize,

//@ item keyberon/src/action/switch.rs fn opcode_type in `OpCode`
//@@ wrap impl OpCode
//@@ ret r
//@@ sub R4 1 `OperatorAndEndIndex::from(self.0)` => `OperatorAndEndIndex::op_from(self.0)`
//@@ spec
    requires word_ok(self.0, next),
    ensures r == spec_decode(self.0, next),
//@@ before 1 `if self.0 < KEY_MAX`
    proof { lemma_bits_classes(self.0); }

//@ raw
// --- A2 round trips: composed purely from the contracts above (callers see only contracts) ---
fn rt_key(kc: KeyCode, next: Option<OpCode>)
{
    let op = OpCode::new_key(kc);
    let d = op.opcode_type(next);
    assert(d == OpCodeType::KeyCode(kc as u16));
}
fn rt_key_history(kc: KeyCode, n: u8, next: Option<OpCode>)
    requires n <= 7,
{
    let op = OpCode::new_key_history(kc, n);
    proof { lemma_bits_classes(op.0); }
    let d = op.opcode_type(next);
    assert(d == OpCodeType::HistoricalKeyCode(HistoricalKeyCode { key_code: kc as u16, how_far_back: n }));
}
fn rt_ticks_gt(n: u8, t: u16, next: Option<OpCode>)
    requires n <= 7,
{
    let op = OpCode::new_ticks_since_gt(n, t);
    proof { lemma_ticks_roundtrip(t as int); lemma_bits_classes(op.0); }
    let d = op.opcode_type(next);
    assert(d == OpCodeType::TicksSinceGreaterThan(TicksSinceNthKey { nth_key: n, ticks_since: eff_ticks(t as int) as u16 }));
}
fn rt_ticks_lt(n: u8, t: u16, next: Option<OpCode>)
    requires n <= 7,
{
    let op = OpCode::new_ticks_since_lt(n, t);
    proof { lemma_ticks_roundtrip(t as int); lemma_bits_classes(op.0); }
    let d = op.opcode_type(next);
    assert(d == OpCodeType::TicksSinceLessThan(TicksSinceNthKey { nth_key: n, ticks_since: eff_ticks(t as int) as u16 }));
}
fn rt_bool(op: BooleanOperator, e: u16, next: Option<OpCode>)
    requires e <= 0x0FFF,
{
    let o = OpCode::new_bool(op, e);
    proof { lemma_bits_classes(o.0); }
    let d = o.opcode_type(next);
    assert(d == OpCodeType::BooleanOp(OperatorAndEndIndex { op: op, idx: e as usize }));
}
fn rt_input(c: KCoord)
    requires c.0 < 4, c.1 < 0x400,
{
    let (a, b) = OpCode::new_active_input(c);
    let d = a.opcode_type(Some(b));
    assert(d == OpCodeType::Input(c));
}
fn rt_hist_input(c: KCoord, n: u8)
    requires c.0 < 4, c.1 < 0x400, n < 8,
{
    let (a, b) = OpCode::new_historical_input(c, n);
    let d = a.opcode_type(Some(b));
    assert(d == OpCodeType::HistoricalInput(HistoricalInput { input: c, how_far_back: n }));
}
fn rt_layer(l: u16)
    requires (l as usize) < crate::layout::MAX_LAYERS,
{
    let (a, b) = OpCode::new_layer(l);
    let d = a.opcode_type(Some(b));
    assert(d == OpCodeType::Layer(l));
    let (a2, b2) = OpCode::new_base_layer(l);
    let d2 = a2.opcode_type(Some(b2));
    assert(d2 == OpCodeType::BaseLayer(l));
}
