//@ unit switch
// Side-car contracts for keyberon/src/action/switch.rs (property C10, C02).
// Nothing below is executable repository code: only spec functions, lemmas and
// requires/ensures/invariant text that the generator splices onto the text cut
// from /repo on every run.

//@ item keyberon/src/layout.rs type KCoord
//@ item keyberon/src/layout.rs const MAX_LAYERS
//@@ wrap pub mod layout
//@@ keep-vis

//@ item keyberon/src/key_code.rs const KEY_MAX
//@ item keyberon/src/key_code.rs enum KeyCode
//@ item keyberon/src/action/switch.rs const MAX_OPCODE_LEN
//@ item keyberon/src/action/switch.rs const OP_MASK
//@ item keyberon/src/action/switch.rs const MAX_BOOL_EXPR_DEPTH
//@ item keyberon/src/action/switch.rs const MAX_KEY_RECENCY
//@ item keyberon/src/action/switch.rs const OR_VAL
//@ item keyberon/src/action/switch.rs const AND_VAL
//@ item keyberon/src/action/switch.rs const NOT_VAL
//@ item keyberon/src/action/switch.rs const INPUT_VAL
//@ item keyberon/src/action/switch.rs const HISTORICAL_INPUT_VAL
//@ item keyberon/src/action/switch.rs const LAYER_VAL
//@ item keyberon/src/action/switch.rs const BASE_LAYER_VAL
//@ item keyberon/src/action/switch.rs const TICKS_SINCE_VAL_GT
//@ item keyberon/src/action/switch.rs const TICKS_SINCE_VAL_LT
//@ item keyberon/src/action/switch.rs const HISTORICAL_KEYCODE_VAL
//@ item keyberon/src/action/switch.rs enum BooleanOperator
//@ item keyberon/src/action/switch.rs struct OpCode
//@ item keyberon/src/action/switch.rs enum OpCodeType
//@ item keyberon/src/action/switch.rs struct OperatorAndEndIndex
//@ item keyberon/src/action/switch.rs struct HistoricalKeyCode
//@ item keyberon/src/action/switch.rs struct HistoricalInput
//@ item keyberon/src/action/switch.rs struct TicksSinceNthKey
//@ item keyberon/src/action/switch.rs enum BreakOrFallthrough

//@ raw
use BooleanOperator::*;
use BreakOrFallthrough::*;

// ---------------------------------------------------------------------------
// A1: lossy tick compression.  Oracle written from the documentation of
// `new_ticks_since_gt`: exact below 256, 8 ms resolution (rounded down) from 256,
// 128 ms resolution (rounded down) from 2304.
// ---------------------------------------------------------------------------
spec fn spec_compress(t: int) -> int {
    if t <= 255 { t } else if t <= 2303 { (t - 255) / 8 + 255 } else { (t - 2303) / 128 + 511 }
}
spec fn spec_decompress(c: int) -> int {
    if c <= 255 { c } else if c <= 511 { (c - 255) * 8 + 255 } else { (c - 511) * 128 + 2303 }
}
/// what a written threshold t becomes once it went through the opcode
spec fn eff_ticks(t: int) -> int { spec_decompress(spec_compress(t)) }

proof fn lemma_ticks_roundtrip(t: int)
    requires 0 <= t <= 65535,
    ensures
        0 <= spec_compress(t) <= 1005,
        eff_ticks(t) <= t,
        t <= 255 ==> eff_ticks(t) == t,
        256 <= t <= 2303 ==> t - eff_ticks(t) < 8,
        2304 <= t ==> t - eff_ticks(t) < 128,
        // recompressing what was decompressed is stable (idempotent)
        spec_compress(eff_ticks(t)) == spec_compress(t),
{
}
proof fn lemma_ticks_monotone(a: int, b: int)
    requires 0 <= a <= b <= 65535,
    ensures spec_compress(a) <= spec_compress(b), eff_ticks(a) <= eff_ticks(b),
{
}

//@ item keyberon/src/action/switch.rs fn lossy_compress_ticks
//@@ ret r
//@@ spec
    ensures r as int == spec_compress(t as int), r <= 1005,

//@ item keyberon/src/action/switch.rs fn lossy_decompress_ticks
//@@ ret r
//@@ spec
    requires t <= 1005,
    ensures r as int == spec_decompress(t as int),

//@ raw
// ---------------------------------------------------------------------------
// A2: opcode codec.  Oracle: what each constructor is documented to mean.
// ---------------------------------------------------------------------------
proof fn lemma_bits_key(x: u16)
    requires x <= 0x0FFF,
    ensures x & 0x0FFF == x,
{
    assert(x <= 0x0FFF ==> x & 0x0FFF == x) by(bit_vector);
}

proof fn lemma_bits_ticks(base: u16, c: u16, n: u16)
    requires c <= 1005, n <= 7, base == 0x4000 || base == 0x6000,
    ensures
        (base | c | (n << 10)) > 0x0FFF,
        (base | c | (n << 10)) & 0xE000 == base,
        ((base | c | (n << 10)) & 0x1C00) >> 10 == n,
        (base | c | (n << 10)) & 0x03FF == c,
{
    assert(c <= 1005 && n <= 7 && (base == 0x4000 || base == 0x6000) ==>
        (base | c | (n << 10)) > 0x0FFF
        && (base | c | (n << 10)) & 0xE000 == base
        && ((base | c | (n << 10)) & 0x1C00) >> 10 == n
        && (base | c | (n << 10)) & 0x03FF == c) by(bit_vector);
}

proof fn lemma_bits_bool(e: u16)
    requires e <= 0x0FFF,
    ensures
        e & 0x0FFF == e,
        ((e + 0x1000) as u16) & 0xF000 == 0x1000, ((e + 0x1000) as u16) & 0x0FFF == e, ((e + 0x1000) as u16) & 0xE000 == 0,
        ((e + 0x2000) as u16) & 0xF000 == 0x2000, ((e + 0x2000) as u16) & 0x0FFF == e, ((e + 0x2000) as u16) & 0xE000 == 0x2000,
        ((e + 0x3000) as u16) & 0xF000 == 0x3000, ((e + 0x3000) as u16) & 0x0FFF == e, ((e + 0x3000) as u16) & 0xE000 == 0x2000,
{
    assert(e <= 0x0FFF ==> (e & 0x0FFF) == e) by(bit_vector);
    assert(e <= 0x0FFF ==> add(e, 0x1000u16) & 0xF000 == 0x1000 && add(e, 0x1000u16) & 0x0FFF == e && add(e, 0x1000u16) & 0xE000 == 0) by(bit_vector);
    assert(e <= 0x0FFF ==> add(e, 0x2000u16) & 0xF000 == 0x2000 && add(e, 0x2000u16) & 0x0FFF == e && add(e, 0x2000u16) & 0xE000 == 0x2000) by(bit_vector);
    assert(e <= 0x0FFF ==> add(e, 0x3000u16) & 0xF000 == 0x3000 && add(e, 0x3000u16) & 0x0FFF == e && add(e, 0x3000u16) & 0xE000 == 0x2000) by(bit_vector);
}

/// second word of the two-word input opcodes: row in bits 15-14, recency in 13-11, column in 9-0
proof fn lemma_bits_input(a: u8, b: u16, k: u8)
    requires a < 4, b < 0x400, k < 8,
    ensures
        a & 3 == a,
        ((a as u16) << 14) <= 0xC000,
        ((k as u16) << 11) <= 0x3800,
        ({
            let w = (((a as u16) << 14) + ((k as u16) << 11) + b) as u16;
            ((w >> 14) & 0x3) as u8 == a && w & 0x3FF == b && (w >> 11) as u8 & 0x7 == k
        }),
{
    assert(a < 4 ==> a & 3 == a) by(bit_vector);
    assert(a < 4 ==> ((a as u16) << 14) <= 0xC000) by(bit_vector);
    assert(k < 8 ==> ((k as u16) << 11) <= 0x3800) by(bit_vector);
    assert(a < 4 && b < 0x400 && k < 8 ==> ({
        let w = add(add((a as u16) << 14, (k as u16) << 11), b);
        ((w >> 14) & 0x3) as u8 == a && w & 0x3FF == b && (w >> 11) as u8 & 0x7 == k
    })) by(bit_vector);
}
proof fn lemma_bits_input0(a: u8, b: u16)
    requires a < 4, b < 0x400,
    ensures
        a & 3 == a,
        ((a as u16) << 14) <= 0xC000,
        ({
            let w = (((a as u16) << 14) + b) as u16;
            ((w >> 14) & 0x3) as u8 == a && w & 0x3FF == b
        }),
{
    assert(a < 4 ==> a & 3 == a) by(bit_vector);
    assert(a < 4 ==> ((a as u16) << 14) <= 0xC000) by(bit_vector);
    assert(a < 4 && b < 0x400 ==> ({
        let w = add((a as u16) << 14, b);
        ((w >> 14) & 0x3) as u8 == a && w & 0x3FF == b
    })) by(bit_vector);
}

/// every KeyCode discriminant is at most 767 (one query over the enum, reused by the constructors)
proof fn lemma_kc_le(kc: KeyCode)
    ensures (kc as u16) <= 767,
{
}

//@ item keyberon/src/action/switch.rs fn to_u16 in `BooleanOperator`
//@@ wrap impl BooleanOperator
//@@ ret r
//@@ spec
    ensures r == (match self { Or => 0x1000u16, And => 0x2000u16, Not => 0x3000u16 }),

//@ item keyberon/src/action/switch.rs fn new_key in `OpCode`
//@@ wrap impl OpCode
//@@ ret r
//@@ spec
    ensures r.0 == kc as u16, r.0 < 850,
//@@ before 1 `assert!((kc as u16) <= KEY_MAX);`
    proof { lemma_kc_le(kc); lemma_bits_key(kc as u16); }

//@ item keyberon/src/action/switch.rs fn new_key_history in `OpCode`
//@@ wrap impl OpCode
//@@ ret r
//@@ spec
    requires key_recency <= 7,
    ensures
        r.0 >= 0x8000,
        r.0 & 0x0FFF == kc as u16,
        (r.0 & 0x7000) >> 12 == key_recency as u16,
//@@ before 1 `assert!((kc as u16) <= MAX_OPCODE_LEN);`
    proof {
        lemma_kc_le(kc);
        let k = kc as u16; let n = key_recency as u16;
        assert(k <= 0x0FFF && n <= 7 ==> ((k & 0x0FFF) | 0x8000u16 | (n << 12)) >= 0x8000
            && ((k & 0x0FFF) | 0x8000u16 | (n << 12)) & 0x0FFF == k
            && (((k & 0x0FFF) | 0x8000u16 | (n << 12)) & 0x7000) >> 12 == n) by(bit_vector);
    }

//@ item keyberon/src/action/switch.rs fn new_ticks_since_gt in `OpCode`
//@@ wrap impl OpCode
//@@ ret r
//@@ spec
    requires nth_key <= 7,
    ensures
        r.0 > 0x0FFF,
        r.0 & 0xE000 == 0x4000,
        (r.0 & 0x1C00) >> 10 == nth_key as u16,
        (r.0 & 0x03FF) as int == spec_compress(ticks_since as int),
//@@ before 1 `Self(TICKS_SINCE_VAL_GT`
    proof { lemma_bits_ticks(0x4000u16, spec_compress(ticks_since as int) as u16, nth_key as u16); }

//@ item keyberon/src/action/switch.rs fn new_ticks_since_lt in `OpCode`
//@@ wrap impl OpCode
//@@ ret r
//@@ spec
    requires nth_key <= 7,
    ensures
        r.0 > 0x0FFF,
        r.0 & 0xE000 == 0x6000,
        (r.0 & 0x1C00) >> 10 == nth_key as u16,
        (r.0 & 0x03FF) as int == spec_compress(ticks_since as int),
//@@ before 1 `Self(TICKS_SINCE_VAL_LT`
    proof { lemma_bits_ticks(0x6000u16, spec_compress(ticks_since as int) as u16, nth_key as u16); }

//@ item keyberon/src/action/switch.rs fn new_bool in `OpCode`
//@@ wrap impl OpCode
//@@ ret r
//@@ spec
    requires end_idx <= 0x0FFF,
    ensures
        r.0 > 0x0FFF,
        r.0 & 0xE000 == 0 || r.0 & 0xE000 == 0x2000,
        r.0 & 0xF000 == (match op { Or => 0x1000u16, And => 0x2000u16, Not => 0x3000u16 }),
        r.0 & 0x0FFF == end_idx,
        // the word the encoding `enc` (A5) uses for an operator
        r == bool_word(op, end_idx as int),
//@@ before 1 `Self((end_idx & MAX_OPCODE_LEN)`
    proof { lemma_bits_bool(end_idx); }

//@ item keyberon/src/action/switch.rs fn new_active_input in `OpCode`
//@@ wrap impl OpCode
//@@ ret r
//@@ spec
    requires input.0 < 4, input.1 < 0x0400,
    ensures
        r.0.0 == 851,
        ((r.1.0 >> 14) & 0x3) as u8 == input.0,
        r.1.0 & 0x3FF == input.1,
//@@ before 1 `( Self(INPUT_VAL),`
    proof { lemma_bits_input0(input.0, input.1); }

//@ item keyberon/src/action/switch.rs fn new_historical_input in `OpCode`
//@@ wrap impl OpCode
//@@ ret r
//@@ spec
    requires input.0 < 4, input.1 < 0x0400, key_recency < 8,
    ensures
        r.0.0 == 852,
        ((r.1.0 >> 14) & 0x3) as u8 == input.0,
        r.1.0 & 0x3FF == input.1,
        (r.1.0 >> 11) as u8 & 0x7 == key_recency,
//@@ before 1 `( Self(HISTORICAL_INPUT_VAL),`
    proof { lemma_bits_input(input.0, input.1, key_recency); }

//@ item keyberon/src/action/switch.rs fn new_layer in `OpCode`
//@@ wrap impl OpCode
//@@ ret r
//@@ spec
    requires (layer as usize) < crate::layout::MAX_LAYERS,
    ensures r.0.0 == 853, r.1.0 == layer,

//@ item keyberon/src/action/switch.rs fn new_base_layer in `OpCode`
//@@ wrap impl OpCode
//@@ ret r
//@@ spec
    requires (base_layer as usize) < crate::layout::MAX_LAYERS,
    ensures r.0.0 == 854, r.1.0 == base_layer,

//@ raw
// --- decoding: what a word (and, for two-word opcodes, its successor) means -------------
spec fn is_key_word(w: u16) -> bool { w < 850 }
spec fn is_two_word(w: u16) -> bool { 851 <= w <= 854 }
spec fn is_boolop_word(w: u16) -> bool { w > 0x0FFF && (w & 0xE000 == 0 || w & 0xE000 == 0x2000) }
spec fn is_ticks_word(w: u16) -> bool { w & 0xE000 == 0x4000 || w & 0xE000 == 0x6000 }
spec fn is_histkey_word(w: u16) -> bool { w >= 0x8000 }
/// words `opcode_type` can interpret without panicking / overflowing
spec fn word_ok(w: u16, next: Option<OpCode>) -> bool {
    is_key_word(w)
    || (is_two_word(w) && next.is_some())
    || (w > 0x0FFF && (is_ticks_word(w) ==> (w & 0x03FF) <= 1005))
}
spec fn boolop_of(w: u16) -> BooleanOperator {
    if w & 0xF000 == 0x1000 { Or } else if w & 0xF000 == 0x2000 { And } else { Not }
}
spec fn spec_decode(w: u16, next: Option<OpCode>) -> OpCodeType {
    if w < 850 {
        OpCodeType::KeyCode(w)
    } else if w <= 0x0FFF {
        let n = next.unwrap().0;
        if w == 851 { OpCodeType::Input((((n >> 14) & 0x3) as u8, n & 0x3FF)) }
        else if w == 852 { OpCodeType::HistoricalInput(HistoricalInput { input: (((n >> 14) & 0x3) as u8, n & 0x3FF), how_far_back: ((n >> 11) as u8) & 0x7 }) }
        else if w == 853 { OpCodeType::Layer(n) }
        else { OpCodeType::BaseLayer(n) }
    } else if w & 0xE000 == 0x6000 {
        OpCodeType::TicksSinceLessThan(TicksSinceNthKey { nth_key: ((w & 0x1C00) >> 10) as u8, ticks_since: spec_decompress((w & 0x03FF) as int) as u16 })
    } else if w & 0xE000 == 0x4000 {
        OpCodeType::TicksSinceGreaterThan(TicksSinceNthKey { nth_key: ((w & 0x1C00) >> 10) as u8, ticks_since: spec_decompress((w & 0x03FF) as int) as u16 })
    } else if w >= 0x8000 {
        OpCodeType::HistoricalKeyCode(HistoricalKeyCode { key_code: w & 0x0FFF, how_far_back: ((w & 0x7000) >> 12) as u8 })
    } else {
        OpCodeType::BooleanOp(OperatorAndEndIndex { op: boolop_of(w), idx: (w & 0x0FFF) as usize })
    }
}

proof fn lemma_bits_classes(w: u16)
    ensures
        w > 0x0FFF ==> (w & 0xE000 == 0 || w & 0xE000 == 0x2000 || w & 0xE000 == 0x4000 || w & 0xE000 == 0x6000
                        || w & 0xE000 == 0x8000 || w & 0xE000 == 0xA000 || w & 0xE000 == 0xC000 || w & 0xE000 == 0xE000),
        (w >= 0x8000) <==> (w & 0xE000 == 0x8000 || w & 0xE000 == 0xA000 || w & 0xE000 == 0xC000 || w & 0xE000 == 0xE000),
        w > 0x0FFF && w & 0xE000 == 0 ==> w & 0xF000 == 0x1000,
        w & 0xE000 == 0x2000 ==> (w & 0xF000 == 0x2000 || w & 0xF000 == 0x3000),
        (w & 0x03FF) <= 0x3FF, (w & 0x0FFF) <= 0x0FFF,
        ((w & 0x1C00) >> 10) <= 7, ((w & 0x7000) >> 12) <= 7,
{
    assert(w > 0x0FFF ==> (w & 0xE000 == 0 || w & 0xE000 == 0x2000 || w & 0xE000 == 0x4000 || w & 0xE000 == 0x6000
                        || w & 0xE000 == 0x8000 || w & 0xE000 == 0xA000 || w & 0xE000 == 0xC000 || w & 0xE000 == 0xE000)) by(bit_vector);
    assert((w >= 0x8000) <==> (w & 0xE000 == 0x8000 || w & 0xE000 == 0xA000 || w & 0xE000 == 0xC000 || w & 0xE000 == 0xE000)) by(bit_vector);
    assert(w > 0x0FFF && w & 0xE000 == 0 ==> w & 0xF000 == 0x1000) by(bit_vector);
    assert(w & 0xE000 == 0x2000 ==> (w & 0xF000 == 0x2000 || w & 0xF000 == 0x3000)) by(bit_vector);
    assert((w & 0x03FF) <= 0x3FF && (w & 0x0FFF) <= 0x0FFF && ((w & 0x1C00) >> 10) <= 7 && ((w & 0x7000) >> 12) <= 7) by(bit_vector);
}

//@ item keyberon/src/action/switch.rs fn from in `From<u16> for OperatorAndEndIndex` as op_from
//@@ wrap impl OperatorAndEndIndex
//@@ ret r
//@@ spec
    requires value & 0xF000 == 0x1000 || value & 0xF000 == 0x2000 || value & 0xF000 == 0x3000,
    ensures r.op == boolop_of(value), r.idx == (value & 0x0FFF) as usize,

//@ item keyberon/src/action/switch.rs fn opcode_type in `OpCode`
//@@ wrap impl OpCode
//@@ ret r
//@@ sub R4 1 `OperatorAndEndIndex::from(self.0)` => `OperatorAndEndIndex::op_from(self.0)`
//@@ spec
    requires word_ok(self.0, next),
    ensures r == spec_decode(self.0, next),
//@@ before 1 `if self.0 < KEY_MAX`
    proof { lemma_bits_classes(self.0); }

//@ raw
// --- A2 round trips: composed purely from the contracts above (callers see only contracts) ---
fn rt_key(kc: KeyCode, next: Option<OpCode>)
{
    let op = OpCode::new_key(kc);
    let d = op.opcode_type(next);
    assert(d == OpCodeType::KeyCode(kc as u16));
}
fn rt_key_history(kc: KeyCode, n: u8, next: Option<OpCode>)
    requires n <= 7,
{
    let op = OpCode::new_key_history(kc, n);
    proof { lemma_bits_classes(op.0); }
    let d = op.opcode_type(next);
    assert(d == OpCodeType::HistoricalKeyCode(HistoricalKeyCode { key_code: kc as u16, how_far_back: n }));
}
fn rt_ticks_gt(n: u8, t: u16, next: Option<OpCode>)
    requires n <= 7,
{
    let op = OpCode::new_ticks_since_gt(n, t);
    proof { lemma_ticks_roundtrip(t as int); lemma_bits_classes(op.0); }
    let d = op.opcode_type(next);
    assert(d == OpCodeType::TicksSinceGreaterThan(TicksSinceNthKey { nth_key: n, ticks_since: eff_ticks(t as int) as u16 }));
}
fn rt_ticks_lt(n: u8, t: u16, next: Option<OpCode>)
    requires n <= 7,
{
    let op = OpCode::new_ticks_since_lt(n, t);
    proof { lemma_ticks_roundtrip(t as int); lemma_bits_classes(op.0); }
    let d = op.opcode_type(next);
    assert(d == OpCodeType::TicksSinceLessThan(TicksSinceNthKey { nth_key: n, ticks_since: eff_ticks(t as int) as u16 }));
}
fn rt_bool(op: BooleanOperator, e: u16, next: Option<OpCode>)
    requires e <= 0x0FFF,
{
    let o = OpCode::new_bool(op, e);
    proof { lemma_bits_classes(o.0); }
    let d = o.opcode_type(next);
    assert(d == OpCodeType::BooleanOp(OperatorAndEndIndex { op: op, idx: e as usize }));
}
fn rt_input(c: KCoord)
    requires c.0 < 4, c.1 < 0x400,
{
    let (a, b) = OpCode::new_active_input(c);
    let d = a.opcode_type(Some(b));
    assert(d == OpCodeType::Input(c));
}
fn rt_hist_input(c: KCoord, n: u8)
    requires c.0 < 4, c.1 < 0x400, n < 8,
{
    let (a, b) = OpCode::new_historical_input(c, n);
    let d = a.opcode_type(Some(b));
    assert(d == OpCodeType::HistoricalInput(HistoricalInput { input: c, how_far_back: n }));
}
fn rt_layer(l: u16)
    requires (l as usize) < crate::layout::MAX_LAYERS,
{
    let (a, b) = OpCode::new_layer(l);
    let d = a.opcode_type(Some(b));
    assert(d == OpCodeType::Layer(l));
    let (a2, b2) = OpCode::new_base_layer(l);
    let d2 = a2.opcode_type(Some(b2));
    assert(d2 == OpCodeType::BaseLayer(l));
}

// =========================================================================================
// A3: evaluate_boolean == the meaning of the written expression, for every well-formed
// opcode stream of every size and nesting depth <= 8.
// =========================================================================================
//@ item keyberon/src/layout.rs struct HistoricalEvent

//@ raw
// R3: the third-party container is resolved to this module, which carries its ASSUMED contract
// (arraydeque 0.5.1, behavior::Saturating: push_back on a full deque returns Err and changes
// nothing; pop_back returns the last element).
pub mod arraydeque {
    use vstd::prelude::*;
    pub mod behavior {
        pub struct Saturating;
    }
    pub struct CapacityError<T> { pub element: T }
    #[verifier::external_body]
    #[verifier::reject_recursive_types(T)]
    #[verifier::reject_recursive_types(B)]
    pub struct ArrayDeque<T, const N: usize, B> {
        v: Vec<T>,
        b: core::marker::PhantomData<B>,
    }
    impl<T, const N: usize, B> ArrayDeque<T, N, B> {
        pub uninterp spec fn view(&self) -> Seq<T>;
        #[verifier::external_body]
        pub fn new() -> (r: Self)
            ensures r.view().len() == 0,
        { unimplemented!() }
        #[verifier::external_body]
        pub fn push_back(&mut self, x: T) -> (r: Result<(), CapacityError<T>>)
            ensures
                old(self).view().len() < N ==> r.is_ok() && final(self).view() == old(self).view().push(x),
                old(self).view().len() >= N ==> r.is_err() && final(self).view() == old(self).view(),
        { unimplemented!() }
        #[verifier::external_body]
        pub fn pop_back(&mut self) -> (r: Option<T>)
            ensures
                old(self).view().len() == 0 ==> r.is_none() && final(self).view() == old(self).view(),
                old(self).view().len() > 0 ==> r == Some(old(self).view().last()) && final(self).view() == old(self).view().drop_last(),
        { unimplemented!() }
    }
}

pub assume_specification<T: Copy>[ Option::<&T>::copied ](o: Option<&T>) -> (r: Option<T>)
    ensures
        o.is_none() ==> r.is_none(),
        o.is_some() ==> r == Some(*o.unwrap()),
;

// ---- the environment a condition is evaluated in (what the five iterators yield) ----------
ghost struct Env {
    keys: Seq<KeyCode>,                         // active keys
    inputs: Seq<KCoord>,                        // active input coordinates
    hkeys: Seq<HistoricalEvent<KeyCode>>,       // key history, most recent first
    hinputs: Seq<HistoricalEvent<KCoord>>,      // input history, most recent first
    layers: Seq<u16>,                           // layer order, most recently activated first
    default_layer: u16,
}

// ---- meaning of each leaf, from the user documentation of `switch` ------------------------
spec fn m_key(env: Env, kc: u16) -> bool { exists|i: int| 0 <= i < env.keys.len() && #[trigger] env.keys[i] as u16 == kc }
spec fn m_key_history(env: Env, kc: u16, back: u8) -> bool { back < env.hkeys.len() && env.hkeys[back as int].event as u16 == kc }
spec fn m_ticks_gt(env: Env, nth: u8, t: u16) -> bool { nth < env.hkeys.len() && env.hkeys[nth as int].ticks_since_occurrence > t }
spec fn m_ticks_lt(env: Env, nth: u8, t: u16) -> bool { nth < env.hkeys.len() && !(env.hkeys[nth as int].ticks_since_occurrence > t) }
spec fn m_input(env: Env, c: KCoord) -> bool { exists|i: int| 0 <= i < env.inputs.len() && #[trigger] env.inputs[i] == c }
spec fn m_input_history(env: Env, c: KCoord, back: u8) -> bool { back < env.hinputs.len() && env.hinputs[back as int].event == c }
spec fn m_layer(env: Env, l: u16) -> bool { env.layers.len() > 0 && env.layers[0] == l }
spec fn m_base_layer(env: Env, l: u16) -> bool { env.default_layer == l }

// R5: the eight iterator expressions of the leaf arms are replaced by these calls.  Their
// bodies are NOT verified here: that each real iterator expression computes exactly this
// meaning is what the Kani harnesses c10_b_leaf_* check on the unextracted function.
#[verifier::external_body]
fn leaf_key(Ghost(env): Ghost<Env>, kc: u16) -> (r: bool) ensures r == m_key(env, kc) { unimplemented!() }
#[verifier::external_body]
fn leaf_key_history(Ghost(env): Ghost<Env>, hkc: HistoricalKeyCode) -> (r: bool) ensures r == m_key_history(env, hkc.key_code, hkc.how_far_back) { unimplemented!() }
#[verifier::external_body]
fn leaf_ticks_lt(Ghost(env): Ghost<Env>, tsnk: TicksSinceNthKey) -> (r: bool) ensures r == m_ticks_lt(env, tsnk.nth_key, tsnk.ticks_since) { unimplemented!() }
#[verifier::external_body]
fn leaf_ticks_gt(Ghost(env): Ghost<Env>, tsnk: TicksSinceNthKey) -> (r: bool) ensures r == m_ticks_gt(env, tsnk.nth_key, tsnk.ticks_since) { unimplemented!() }
#[verifier::external_body]
fn leaf_input(Ghost(env): Ghost<Env>, coord: KCoord) -> (r: bool) ensures r == m_input(env, coord) { unimplemented!() }
#[verifier::external_body]
fn leaf_input_history(Ghost(env): Ghost<Env>, hki: HistoricalInput) -> (r: bool) ensures r == m_input_history(env, hki.input, hki.how_far_back) { unimplemented!() }
#[verifier::external_body]
fn leaf_layer(Ghost(env): Ghost<Env>, layer: u16) -> (r: bool) ensures r == m_layer(env, layer) { unimplemented!() }


// ---- the opcode stream as a prefix encoding -------------------------------------------------
spec fn w(ops: Seq<OpCode>, i: int) -> u16 { ops[i].0 }
spec fn nxt(ops: Seq<OpCode>, i: int) -> Option<OpCode> { if i + 1 < ops.len() { Some(ops[i + 1]) } else { None } }
spec fn is_op(ops: Seq<OpCode>, i: int) -> bool { is_boolop_word(w(ops, i)) }
spec fn op_end(ops: Seq<OpCode>, i: int) -> int { (w(ops, i) & 0x0FFF) as int }
spec fn op_kind(ops: Seq<OpCode>, i: int) -> BooleanOperator { boolop_of(w(ops, i)) }
spec fn leaf_width(ops: Seq<OpCode>, i: int) -> int { if is_two_word(w(ops, i)) { 2 } else { 1 } }
/// index of the operand that follows the operand starting at i
spec fn step(ops: Seq<OpCode>, i: int) -> int { if is_op(ops, i) { op_end(ops, i) } else { i + leaf_width(ops, i) } }

/// [i, end) is a well-formed operand list whose operators nest at most d deep; every operator
/// has at least one operand (the property excludes empty operators) and ends inside its parent
spec fn wf_list(ops: Seq<OpCode>, i: int, end: int, d: int) -> bool
    decreases end - i,
{
    if i >= end {
        i == end
    } else {
        &&& 0 <= i && end <= ops.len()
        &&& word_ok(w(ops, i), nxt(ops, i))
        &&& if is_op(ops, i) {
                &&& d > 0
                &&& i + 1 < op_end(ops, i) <= end
                &&& wf_list(ops, i + 1, op_end(ops, i), d - 1)
                &&& wf_list(ops, op_end(ops, i), end, d)
            } else {
                &&& i + leaf_width(ops, i) <= end
                &&& wf_list(ops, i + leaf_width(ops, i), end, d)
            }
    }
}

/// meaning of the leaf starting at i
spec fn leaf_val(ops: Seq<OpCode>, env: Env, i: int) -> bool {
    match spec_decode(w(ops, i), nxt(ops, i)) {
        OpCodeType::BooleanOp(_) => false,
        OpCodeType::KeyCode(kc) => m_key(env, kc),
        OpCodeType::HistoricalKeyCode(h) => m_key_history(env, h.key_code, h.how_far_back),
        OpCodeType::Input(c) => m_input(env, c),
        OpCodeType::HistoricalInput(h) => m_input_history(env, h.input, h.how_far_back),
        OpCodeType::TicksSinceLessThan(t) => m_ticks_lt(env, t.nth_key, t.ticks_since),
        OpCodeType::TicksSinceGreaterThan(t) => m_ticks_gt(env, t.nth_key, t.ticks_since),
        OpCodeType::Layer(l) => m_layer(env, l),
        OpCodeType::BaseLayer(l) => m_base_layer(env, l),
    }
}

/// mode 0: "some operand in [i, end) is true";  mode 1: "every operand in [i, end) is true".
/// or = some, and = every, not = none (the documented meaning of `not` with several operands).
spec fn ev(ops: Seq<OpCode>, env: Env, mode: int, i: int, end: int) -> bool
    decreases end - i,
{
    if i >= end || !(i < step(ops, i) <= end) {
        mode == 1
    } else {
        let v = if is_op(ops, i) {
            let e = op_end(ops, i);
            match op_kind(ops, i) {
                Or => ev(ops, env, 0, i + 1, e),
                And => ev(ops, env, 1, i + 1, e),
                Not => !ev(ops, env, 0, i + 1, e),
            }
        } else {
            leaf_val(ops, env, i)
        };
        if mode == 0 { v || ev(ops, env, 0, step(ops, i), end) } else { v && ev(ops, env, 1, step(ops, i), end) }
    }
}
spec fn fval(ops: Seq<OpCode>, env: Env, op: BooleanOperator, s: int, e: int) -> bool {
    match op { Or => ev(ops, env, 0, s, e), And => ev(ops, env, 1, s, e), Not => !ev(ops, env, 0, s, e) }
}
/// value of the single operand that starts at p
spec fn opval(ops: Seq<OpCode>, env: Env, p: int) -> bool { ev(ops, env, 0, p, step(ops, p)) }
/// a switch case's condition: implicit `or` over the top-level list; the empty list is true
spec fn sem_top(ops: Seq<OpCode>, env: Env) -> bool { if ops.len() == 0 { true } else { ev(ops, env, 0, 0, ops.len() as int) } }

/// p is an operand boundary of the list starting at s
spec fn reach(ops: Seq<OpCode>, s: int, p: int) -> bool
    decreases p - s,
{
    if s == p { true } else if s > p { false } else if s < step(ops, s) && step(ops, s) <= p { reach(ops, step(ops, s), p) } else { false }
}

proof fn lemma_wf_reach(ops: Seq<OpCode>, i: int, end: int, d: int)
    requires wf_list(ops, i, end, d),
    ensures reach(ops, i, end), i <= end,
    decreases end - i,
{
    if i < end {
        lemma_wf_reach(ops, step(ops, i), end, d);
    }
}
proof fn lemma_reach_trans(ops: Seq<OpCode>, s: int, p: int, q: int)
    requires reach(ops, s, p), reach(ops, p, q),
    ensures reach(ops, s, q), s <= p <= q,
    decreases p - s,
{
    lemma_reach_le(ops, s, p);
    lemma_reach_le(ops, p, q);
    if s < p {
        lemma_reach_trans(ops, step(ops, s), p, q);
    }
}
proof fn lemma_reach_le(ops: Seq<OpCode>, s: int, p: int)
    requires reach(ops, s, p),
    ensures s <= p,
    decreases p - s,
{
    if s < p { lemma_reach_le(ops, step(ops, s), p); }
}
/// well-formedness is inherited by every boundary
proof fn lemma_wf_at(ops: Seq<OpCode>, s: int, p: int, end: int, d: int)
    requires wf_list(ops, s, end, d), reach(ops, s, p), p <= end,
    ensures wf_list(ops, p, end, d),
    decreases p - s,
{
    if s < p {
        lemma_reach_le(ops, step(ops, s), p);
        lemma_wf_at(ops, step(ops, s), p, end, d);
    }
}
/// splitting a list at a boundary
proof fn lemma_split(ops: Seq<OpCode>, env: Env, mode: int, s: int, p: int, e: int)
    requires reach(ops, s, p), reach(ops, p, e), mode == 0 || mode == 1,
    ensures
        mode == 0 ==> ev(ops, env, 0, s, e) == (ev(ops, env, 0, s, p) || ev(ops, env, 0, p, e)),
        mode == 1 ==> ev(ops, env, 1, s, e) == (ev(ops, env, 1, s, p) && ev(ops, env, 1, p, e)),
    decreases p - s,
{
    lemma_reach_le(ops, s, p);
    lemma_reach_le(ops, p, e);
    if s < p {
        let t = step(ops, s);
        lemma_reach_le(ops, t, p);
        lemma_split(ops, env, mode, t, p, e);
    }
}
/// the operand at p is an operator: its value is the value of its frame
proof fn lemma_opval_op(ops: Seq<OpCode>, env: Env, p: int)
    requires is_op(ops, p), p + 1 < op_end(ops, p),
    ensures opval(ops, env, p) == fval(ops, env, op_kind(ops, p), p + 1, op_end(ops, p)),
{
    reveal_with_fuel(ev, 2);
}
proof fn lemma_opval_leaf(ops: Seq<OpCode>, env: Env, p: int)
    requires !is_op(ops, p),
    ensures opval(ops, env, p) == leaf_val(ops, env, p),
{
    reveal_with_fuel(ev, 2);
}

// ---- ghost view of the evaluator's explicit stack ------------------------------------------
ghost struct Frame { op: BooleanOperator, start: int, end: int }

/// operands of a frame passed so far were non-deciding
spec fn pre_ok(ops: Seq<OpCode>, env: Env, op: BooleanOperator, s: int, p: int) -> bool {
    match op { Or => !ev(ops, env, 0, s, p), And => ev(ops, env, 1, s, p), Not => !ev(ops, env, 0, s, p) }
}
spec fn frame_link(ops: Seq<OpCode>, env: Env, outer: Frame, inner: Frame) -> bool {
    let pos = inner.start - 1;
    &&& inner.start < inner.end
    &&& reach(ops, outer.start, pos) && pos < outer.end
    &&& is_op(ops, pos) && op_kind(ops, pos) == inner.op && op_end(ops, pos) == inner.end
    &&& pre_ok(ops, env, outer.op, outer.start, pos)
}
spec fn frames_ok(ops: Seq<OpCode>, env: Env, fr: Seq<Frame>) -> bool {
    &&& 1 <= fr.len() <= 9
    &&& fr[0] == (Frame { op: Or, start: 0, end: ops.len() as int })
    &&& forall|j: int| 0 <= j < fr.len() ==> 0 <= (#[trigger] fr[j]).start <= fr[j].end <= ops.len() && wf_list(ops, fr[j].start, fr[j].end, 8 - j)
    &&& forall|j: int| 1 <= j < fr.len() ==> frame_link(ops, env, fr[j - 1], #[trigger] fr[j])
}
spec fn stack_ok(fr: Seq<Frame>, stack: Seq<OperatorAndEndIndex>) -> bool {
    &&& stack.len() == fr.len() - 1
    &&& forall|j: int| 0 <= j < stack.len() ==> (#[trigger] stack[j]).op == fr[j].op && stack[j].idx as int == fr[j].end
}
spec fn inv(ops: Seq<OpCode>, env: Env, fr: Seq<Frame>, stack: Seq<OperatorAndEndIndex>, cop: BooleanOperator, ce: int, ci: int, ret: bool) -> bool {
    &&& frames_ok(ops, env, fr) && stack_ok(fr, stack)
    &&& cop == fr.last().op && ce == fr.last().end
    &&& reach(ops, fr.last().start, ci) && ci <= ce
    &&& (ci < ce ==> pre_ok(ops, env, cop, fr.last().start, ci))
    &&& (ci == ce && fr.last().start < ce ==> ret == fval(ops, env, cop, fr.last().start, ce))
}

proof fn lemma_decode_kind(w: u16, next: Option<OpCode>)
    requires word_ok(w, next),
    ensures
        (spec_decode(w, next) is BooleanOp) == is_boolop_word(w),
        is_boolop_word(w) ==> spec_decode(w, next) == OpCodeType::BooleanOp(OperatorAndEndIndex { op: boolop_of(w), idx: (w & 0x0FFF) as usize }),
        (spec_decode(w, next) is Input || spec_decode(w, next) is HistoricalInput || spec_decode(w, next) is Layer || spec_decode(w, next) is BaseLayer) == is_two_word(w),
        is_boolop_word(w) ==> !is_two_word(w),
{
    lemma_bits_classes(w);
}

/// with an empty stack the current frame is the top-level one
proof fn lemma_top(ops: Seq<OpCode>, env: Env, fr: Seq<Frame>, stack: Seq<OperatorAndEndIndex>, cop: BooleanOperator, ce: int, ci: int, ret: bool)
    requires inv(ops, env, fr, stack, cop, ce, ci, ret),
    ensures
        stack.len() == 0 ==> ce == ops.len() && cop == Or,
        ce <= ops.len(), 0 <= ci,
        ci < ce ==> word_ok(w(ops, ci), nxt(ops, ci)) && step(ops, ci) <= ce && ci < step(ops, ci),
        ci < ce && is_op(ops, ci) ==> stack.len() < 8,
{
    let k = fr.len() - 1;
    assert(fr.last() == fr[k]);
    lemma_reach_le(ops, fr[k].start, ci);
    if ci < ce {
        lemma_wf_at(ops, fr[k].start, ci, ce, 8 - k);
    }
}

/// entering a nested operator at ci
proof fn lemma_push(ops: Seq<OpCode>, env: Env, fr: Seq<Frame>, stack: Seq<OperatorAndEndIndex>, cop: BooleanOperator, ce: int, ci: int, ret: bool)
    requires inv(ops, env, fr, stack, cop, ce, ci, ret), ci < ce, is_op(ops, ci), ce < 0x1000_0000,
    ensures
        stack.len() < 8,
        inv(ops, env,
            fr.push(Frame { op: op_kind(ops, ci), start: ci + 1, end: op_end(ops, ci) }),
            stack.push(OperatorAndEndIndex { op: cop, idx: ce as usize }),
            op_kind(ops, ci), op_end(ops, ci), ci + 1, ret),
{
    let k = fr.len() - 1;
    assert(fr.last() == fr[k]);
    lemma_reach_le(ops, fr[k].start, ci);
    lemma_wf_at(ops, fr[k].start, ci, ce, 8 - k);
    let nf = Frame { op: op_kind(ops, ci), start: ci + 1, end: op_end(ops, ci) };
    let fr2 = fr.push(nf);
    let st2 = stack.push(OperatorAndEndIndex { op: cop, idx: ce as usize });
    assert(fr2.last() == nf);
    assert forall|j: int| 0 <= j < fr2.len() implies 0 <= (#[trigger] fr2[j]).start <= fr2[j].end <= ops.len() && wf_list(ops, fr2[j].start, fr2[j].end, 8 - j) by {
        if j < fr.len() { assert(fr2[j] == fr[j]); }
    }
    assert forall|j: int| 1 <= j < fr2.len() implies frame_link(ops, env, fr2[j - 1], #[trigger] fr2[j]) by {
        if j < fr.len() { assert(fr2[j] == fr[j]); assert(fr2[j - 1] == fr[j - 1]); }
        else { assert(fr2[j - 1] == fr[k]); }
    }
    assert forall|j: int| 0 <= j < st2.len() implies (#[trigger] st2[j]).op == fr2[j].op && st2[j].idx as int == fr2[j].end by {
        if j < stack.len() { assert(st2[j] == stack[j]); assert(fr2[j] == fr[j]); }
        else { assert(fr2[j] == fr[k]); }
    }
    reveal_with_fuel(ev, 1);
    assert(reach(ops, ci + 1, ci + 1));
}

/// a leaf at ci has just been evaluated to v
proof fn lemma_leaf_step(ops: Seq<OpCode>, env: Env, fr: Seq<Frame>, stack: Seq<OperatorAndEndIndex>, cop: BooleanOperator, ce: int, ci: int, v: bool)
    requires inv(ops, env, fr, stack, cop, ce, ci, v), ci < ce, !is_op(ops, ci), v == leaf_val(ops, env, ci),
    ensures ({
        let r = if cop == Not { !v } else { v };
        let short = (r && cop == Or) || (!r && (cop == And || cop == Not));
        let q = ci + leaf_width(ops, ci);
        &&& q <= ce
        &&& (short ==> inv(ops, env, fr, stack, cop, ce, ce, r))
        &&& (!short ==> inv(ops, env, fr, stack, cop, ce, q, r))
    }),
{
    let k = fr.len() - 1;
    let s = fr[k].start;
    assert(fr.last() == fr[k]);
    lemma_reach_le(ops, s, ci);
    lemma_wf_at(ops, s, ci, ce, 8 - k);
    let q = step(ops, ci);
    assert(q == ci + leaf_width(ops, ci));
    assert(reach(ops, ci, q)) by { reveal_with_fuel(reach, 2); }
    lemma_reach_trans(ops, s, ci, q);
    lemma_wf_reach(ops, q, ce, 8 - k);
    lemma_reach_trans(ops, s, q, ce);
    lemma_opval_leaf(ops, env, ci);
    // value of [s, q) and of [s, ce)
    lemma_split(ops, env, 0, s, ci, q);
    lemma_split(ops, env, 1, s, ci, q);
    lemma_split(ops, env, 0, s, q, ce);
    lemma_split(ops, env, 1, s, q, ce);
    lemma_and_single(ops, env, ci);
    if q == ce {
        assert(ev(ops, env, 0, q, ce) == false);
        assert(ev(ops, env, 1, q, ce) == true);
    }
}
/// the every-of over a single operand is that operand's value
proof fn lemma_and_single(ops: Seq<OpCode>, env: Env, p: int)
    requires p < step(ops, p),
    ensures ev(ops, env, 1, p, step(ops, p)) == opval(ops, env, p),
{
    reveal_with_fuel(ev, 2);
}

/// the current frame is finished (ci == ce) and the enclosing one has just been popped
proof fn lemma_pop(ops: Seq<OpCode>, env: Env, fr: Seq<Frame>, stack: Seq<OperatorAndEndIndex>, cop: BooleanOperator, ce: int, ci: int, ret: bool)
    requires inv(ops, env, fr, stack, cop, ce, ci, ret), ci >= ce, stack.len() > 0,
    ensures ({
        let top = stack.last();
        let op1 = top.op;
        let e1 = top.idx as int;
        let short = (ret && (op1 == Or || op1 == Not)) || (!ret && op1 == And) || ci >= e1;
        let r1 = if op1 == Not { !ret } else { ret };
        &&& ci == ce && ci <= e1
        &&& (short ==> inv(ops, env, fr.drop_last(), stack.drop_last(), op1, e1, e1, r1))
        &&& (!short ==> inv(ops, env, fr.drop_last(), stack.drop_last(), op1, e1, ci, ret))
    }),
{
    let k = fr.len() - 1;
    assert(fr.last() == fr[k]);
    assert(stack.last() == stack[k - 1]);
    let inner = fr[k];
    let outer = fr[k - 1];
    assert(frame_link(ops, env, fr[k - 1], fr[k]));
    let pos = inner.start - 1;
    let s = outer.start;
    let e1 = outer.end;
    let fr1 = fr.drop_last();
    let st1 = stack.drop_last();
    assert(fr1.last() == outer);
    assert forall|j: int| 0 <= j < fr1.len() implies 0 <= (#[trigger] fr1[j]).start <= fr1[j].end <= ops.len() && wf_list(ops, fr1[j].start, fr1[j].end, 8 - j) by {
        assert(fr1[j] == fr[j]);
    }
    assert forall|j: int| 1 <= j < fr1.len() implies frame_link(ops, env, fr1[j - 1], #[trigger] fr1[j]) by {
        assert(fr1[j] == fr[j]); assert(fr1[j - 1] == fr[j - 1]);
    }
    assert forall|j: int| 0 <= j < st1.len() implies (#[trigger] st1[j]).op == fr1[j].op && st1[j].idx as int == fr1[j].end by {
        assert(st1[j] == stack[j]); assert(fr1[j] == fr[j]);
    }
    // the nested operator is the operand at pos of the outer frame; its value is ret
    lemma_opval_op(ops, env, pos);
    assert(opval(ops, env, pos) == ret);
    let q = step(ops, pos);
    assert(q == ce);
    lemma_wf_at(ops, s, pos, e1, 8 - (k - 1));
    assert(q <= e1);
    assert(reach(ops, pos, q)) by { reveal_with_fuel(reach, 2); }
    lemma_reach_trans(ops, s, pos, q);
    lemma_wf_reach(ops, q, e1, 8 - (k - 1));
    lemma_reach_trans(ops, s, q, e1);
    lemma_split(ops, env, 0, s, pos, q);
    lemma_split(ops, env, 1, s, pos, q);
    lemma_split(ops, env, 0, s, q, e1);
    lemma_split(ops, env, 1, s, q, e1);
    lemma_and_single(ops, env, pos);
    if q == e1 {
        assert(ev(ops, env, 0, q, e1) == false);
        assert(ev(ops, env, 1, q, e1) == true);
    }
}

/// after the main loop every open frame ends at the end of the stream; unwinding one frame
proof fn lemma_drain(ops: Seq<OpCode>, env: Env, fr: Seq<Frame>, stack: Seq<OperatorAndEndIndex>, cop: BooleanOperator, ret: bool)
    requires inv(ops, env, fr, stack, cop, ops.len() as int, ops.len() as int, ret), stack.len() > 0, ops.len() > 0,
    ensures ({
        let top = stack.last();
        let r1 = if top.op == Not { !ret } else { ret };
        &&& top.idx as int == ops.len()
        &&& inv(ops, env, fr.drop_last(), stack.drop_last(), top.op, ops.len() as int, ops.len() as int, r1)
    }),
{
    let k = fr.len() - 1;
    assert(fr.last() == fr[k]);
    assert(stack.last() == stack[k - 1]);
    assert(frame_link(ops, env, fr[k - 1], fr[k]));
    // nesting: the outer frame ends no earlier than the inner one
    let pos = fr[k].start - 1;
    lemma_wf_at(ops, fr[k - 1].start, pos, fr[k - 1].end, 8 - (k - 1));
    assert(fr[k - 1].end == ops.len());
    lemma_pop(ops, env, fr, stack, cop, ops.len() as int, ops.len() as int, ret);
}

//@ raw
proof fn lemma_done(ops: Seq<OpCode>, env: Env, fr: Seq<Frame>, stack: Seq<OperatorAndEndIndex>, cop: BooleanOperator, ret: bool)
    requires inv(ops, env, fr, stack, cop, ops.len() as int, ops.len() as int, ret), stack.len() == 0, ops.len() > 0,
    ensures ret == sem_top(ops, env),
{
    assert(fr.last() == fr[0]);
}

//@ item keyberon/src/action/switch.rs fn evaluate_boolean
//@@ ret result
//@@ sig R5sig `key_codes: impl Iterator<Item = KeyCode> + Clone,\n    inputs: impl Iterator<Item = KCoord> + Clone,\n    historical_keys: impl Iterator<Item = HistoricalEvent<KeyCode>> + Clone,\n    historical_inputs: impl Iterator<Item = HistoricalEvent<KCoord>> + Clone,\n    layers: impl Iterator<Item = u16> + Clone,` => `Ghost(env): Ghost<Env>,`
//@@ sub R2 2 `(current_op, current_end_index) = (operator.op, operator.idx);` => `current_op = operator.op; current_end_index = operator.idx;`
//@@ resub R3 1 /= Default::default\(\);/ => `= arraydeque::ArrayDeque::new();`
//@@ sub R5 1 `key_codes.clone().any(|kc_input| kc_input as u16 == kc)` => `leaf_key(Ghost(env), kc)`
//@@ resub R5 1 /historical_keys\s*\.clone\(\)\s*\.nth\(hkc\.how_far_back as usize\)\s*\.map\(\|he\| he\.event as u16 == hkc\.key_code\)\s*\.unwrap_or\(false\)/ => `leaf_key_history(Ghost(env), hkc)`
//@@ resub R5 1 /historical_keys\s*\.clone\(\)\s*\.nth\(tsnk\.nth_key\.into\(\)\)\s*\.map\(\|he\| he\.ticks_since_occurrence <= tsnk\.ticks_since\)\s*\.unwrap_or\(false\)/ => `leaf_ticks_lt(Ghost(env), tsnk)`
//@@ resub R5 1 /historical_keys\s*\.clone\(\)\s*\.nth\(tsnk\.nth_key\.into\(\)\)\s*\.map\(\|he\| he\.ticks_since_occurrence > tsnk\.ticks_since\)\s*\.unwrap_or\(false\)/ => `leaf_ticks_gt(Ghost(env), tsnk)`
//@@ sub R5 1 `inputs.clone().any(|c| c == coord)` => `leaf_input(Ghost(env), coord)`
//@@ resub R5 1 /historical_inputs\s*\.clone\(\)\s*\.nth\(hki\.how_far_back as usize\)\s*\.map\(\|he\| he\.event == hki\.input\)\s*\.unwrap_or\(false\)/ => `leaf_input_history(Ghost(env), hki)`
//@@ sub R5 1 `layers.clone().next().map(|l| l == layer).unwrap_or(false)` => `leaf_layer(Ghost(env), layer)`
//@@ spec
    requires
        // what the parser promises for every compiled condition: a well-formed prefix encoding,
        // operators nested at most 8 deep, each with at least one operand
        bool_expr@.len() < 0x1000,
        wf_list(bool_expr@, 0, bool_expr@.len() as int, 8),
        env.default_layer == default_layer,
    ensures
        // the result is the meaning of the written condition
        result == sem_top(bool_expr@, env),
//@@ before 1 `while current_index < bool_expr.len() {`
    let ghost ops = bool_expr@;
    let ghost mut fr: Seq<Frame> = seq![Frame { op: Or, start: 0, end: ops.len() as int }];
    let ghost mut ci0: int = 0;
    proof {
        reveal_with_fuel(ev, 1);
        assert(reach(ops, 0, 0));
        assert(fr.last() == fr[0]);
        assert(inv(ops, env, fr, stack@, current_op, current_end_index as int, current_index as int, ret));
    }
//@@ loop 1
        invariant
            ops == bool_expr@, ops.len() < 0x1000, env.default_layer == default_layer,
            current_end_index <= bool_expr.len(),
            inv(ops, env, fr, stack@, current_op, current_end_index as int, current_index as int, ret),
            ops.len() == 0 ==> ret,
        ensures
            current_index >= bool_expr.len(),
        decreases bool_expr.len() - current_index, stack@.len(),
//@@ before 1 `match stack.pop_back() {`
            proof {
                lemma_top(ops, env, fr, stack@, current_op, current_end_index as int, current_index as int, ret);
                assert(stack@.len() > 0);
                lemma_pop(ops, env, fr, stack@, current_op, current_end_index as int, current_index as int, ret);
            }
            let ghost old_stack = stack@;
//@@ before 1 `if matches!((ret, current_op),`
            proof {
                fr = fr.drop_last();
                assert(stack@ == old_stack.drop_last());
            }
//@@ before 1 `match bool_expr[current_index].opcode_type(`
        proof {
            lemma_top(ops, env, fr, stack@, current_op, current_end_index as int, current_index as int, ret);
            ci0 = current_index as int;
            lemma_decode_kind(w(ops, ci0), nxt(ops, ci0));
        }
//@@ before 1 `let res = stack.push_back(OperatorAndEndIndex {`
                proof {
                    lemma_push(ops, env, fr, stack@, current_op, current_end_index as int, current_index as int, ret);
                    fr = fr.push(Frame { op: op_kind(ops, ci0), start: ci0 + 1, end: op_end(ops, ci0) });
                }
//@@ before 2 `if current_op == Not {`
        proof {
            assert(!is_op(ops, ci0));
            assert(ret == leaf_val(ops, env, ci0));
            assert(current_index as int == ci0 + leaf_width(ops, ci0) - 1);
            lemma_leaf_step(ops, env, fr, stack@, current_op, current_end_index as int, ci0, ret);
        }
//@@ before 1 `while let Some(OperatorAndEndIndex { op, .. }) = stack.pop_back() {`
    let ghost mut gst = stack@;
    proof {
        if ops.len() > 0 {
            lemma_top(ops, env, fr, stack@, current_op, current_end_index as int, current_index as int, ret);
            if stack@.len() == 0 {
                lemma_done(ops, env, fr, stack@, current_op, ret);
            }
        }
    }
//@@ loop 2
        invariant
            ops == bool_expr@, gst == stack@,
            ops.len() == 0 ==> ret && stack@.len() == 0,
            ops.len() > 0 ==> exists|cop: BooleanOperator| inv(ops, env, fr, stack@, cop, ops.len() as int, ops.len() as int, ret),
            ops.len() > 0 && stack@.len() == 0 ==> ret == sem_top(ops, env),
        ensures
            stack@.len() == 0,
        decreases stack@.len(),
//@@ before 1 `if op == Not {`
        proof {
            let cop = choose|cop: BooleanOperator| inv(ops, env, fr, gst, cop, ops.len() as int, ops.len() as int, ret);
            lemma_drain(ops, env, fr, gst, cop, ret);
            let r1 = if op == Not { !ret } else { ret };
            fr = fr.drop_last();
            gst = stack@;
            if stack@.len() == 0 {
                lemma_done(ops, env, fr, stack@, op, r1);
            }
        }

// =========================================================================================
// A4: case iteration.  SwitchActions::next returns the first case at or after case_index whose
// condition is true; `break` ends the iteration, `fallthrough` continues with the next case.
// =========================================================================================
//@ raw
// R7: the action type is opaque here (only references to it are passed around)
#[verifier::external_body]
#[verifier::reject_recursive_types(T)]
pub struct Action<'a, T> { p: core::marker::PhantomData<&'a T> }

//@ item keyberon/src/action/switch.rs struct SwitchActions
//@@ no-derives
//@@ attr #[verifier::reject_recursive_types(T)]
//@@ resub R7 1 /<'a, T, A1, A2, H1, H2, L>\s*where.*?\{/ => `<'a, T> {`
//@@ resub R7 1 /active_keys: A1,\s*active_positions: A2,\s*historical_keys: H1,\s*historical_positions: H2,\s*layers: L,/ => `env: Ghost<Env>,`

//@ raw
spec fn case_ok<T>(c: (&[OpCode], &Action<T>, BreakOrFallthrough)) -> bool {
    c.0@.len() < 0x1000 && wf_list(c.0@, 0, c.0@.len() as int, 8)
}
spec fn fires<T>(c: (&[OpCode], &Action<T>, BreakOrFallthrough), env: Env) -> bool { sem_top(c.0@, env) }

//@ item keyberon/src/action/switch.rs fn next in `Iterator for SwitchActions`
//@@ wrap impl<'a, T> SwitchActions<'a, T>
//@@ ret r
//@@ sig R7sig `Option<Self::Item>` => `Option<&'a Action<'a, T>>`
//@@ resub R5 1 /evaluate_boolean\(\s*case\.0,\s*self\.active_keys\.clone\(\),\s*self\.active_positions\.clone\(\),\s*self\.historical_keys\.clone\(\),\s*self\.historical_positions\.clone\(\),\s*self\.layers\.clone\(\),\s*self\.default_layer,\s*\)/ => `evaluate_boolean(case.0, Ghost(self.env@), self.default_layer)`
//@@ spec
    requires
        forall|i: int| 0 <= i < old(self).cases@.len() ==> case_ok(#[trigger] old(self).cases@[i]),
        old(self).env@.default_layer == old(self).default_layer,
        old(self).case_index <= old(self).cases@.len(),
    ensures
        final(self).cases == old(self).cases, final(self).env == old(self).env, final(self).default_layer == old(self).default_layer,
        final(self).case_index <= final(self).cases@.len(),
        // nothing fires from here on: the iteration is over
        r.is_none() ==> final(self).case_index == old(self).cases@.len()
            && forall|i: int| old(self).case_index <= i < old(self).cases@.len() ==> !fires(#[trigger] old(self).cases@[i], old(self).env@),
        // otherwise: the first firing case, top to bottom; break stops, fallthrough continues
        r.is_some() ==> exists|k: int| {
            &&& old(self).case_index <= k < old(self).cases@.len()
            &&& fires(#[trigger] old(self).cases@[k], old(self).env@)
            &&& forall|i: int| old(self).case_index <= i < k ==> !fires(#[trigger] old(self).cases@[i], old(self).env@)
            &&& r.unwrap() == old(self).cases@[k].1
            &&& final(self).case_index == (if old(self).cases@[k].2 == Break { old(self).cases@.len() as int } else { k + 1 })
        },
//@@ loop 1
            invariant
                self.cases == old(self).cases, self.env == old(self).env, self.default_layer == old(self).default_layer,
                old(self).case_index <= self.case_index <= self.cases@.len(),
                forall|i: int| 0 <= i < self.cases@.len() ==> case_ok(#[trigger] self.cases@[i]),
                self.env@.default_layer == self.default_layer,
                forall|i: int| old(self).case_index <= i < self.case_index ==> !fires(#[trigger] self.cases@[i], self.env@),
            decreases self.cases@.len() - self.case_index,

// =========================================================================================
// A5: the array-level meaning `sem_top` agrees with the meaning of the WRITTEN expression tree
// under the prefix encoding with absolute exclusive end indices (what the parser's switch
// compiler is expected to emit).  This ties the oracle of A3 to "any nesting of and / or / not".
// =========================================================================================
//@ raw
ghost enum Expr {
    L1(OpCode),                       // one-word leaf
    L2(OpCode, OpCode),               // two-word leaf
    Op(BooleanOperator, Box<EList>),  // operator with its operand list
}
ghost enum EList {
    Nil,
    Cons(Box<Expr>, Box<EList>),
}
spec fn esize(e: Expr) -> nat
    decreases e,
{
    match e { Expr::L1(_) => 1, Expr::L2(_, _) => 2, Expr::Op(_, l) => 1 + lsize(*l) }
}
spec fn lsize(l: EList) -> nat
    decreases l,
{
    match l { EList::Nil => 0, EList::Cons(e, r) => esize(*e) + lsize(*r) }
}
spec fn op_word(op: BooleanOperator) -> u16 { match op { Or => 0x1000u16, And => 0x2000u16, Not => 0x3000u16 } }
/// the word new_bool(op, end) builds
spec fn bool_word(op: BooleanOperator, end: int) -> OpCode { OpCode(((end as u16) + op_word(op)) as u16) }
spec fn enc(e: Expr, base: int) -> Seq<OpCode>
    decreases e,
{
    match e {
        Expr::L1(w) => seq![w],
        Expr::L2(a, b) => seq![a, b],
        Expr::Op(op, l) => seq![bool_word(op, base + 1 + lsize(*l))] + lenc(*l, base + 1),
    }
}
spec fn lenc(l: EList, base: int) -> Seq<OpCode>
    decreases l,
{
    match l {
        EList::Nil => Seq::<OpCode>::empty(),
        EList::Cons(e, r) => enc(*e, base) + lenc(*r, base + esize(*e)),
    }
}
/// meaning of a written expression: or = some operand true, and = every, not = none
spec fn esem(e: Expr, env: Env) -> bool
    decreases e,
{
    match e {
        Expr::L1(w) => leaf_val(seq![w], env, 0),
        Expr::L2(a, b) => leaf_val(seq![a, b], env, 0),
        Expr::Op(op, l) => match op { Or => lany(*l, env), And => lall(*l, env), Not => !lany(*l, env) },
    }
}
spec fn lany(l: EList, env: Env) -> bool
    decreases l,
{
    match l { EList::Nil => false, EList::Cons(e, r) => esem(*e, env) || lany(*r, env) }
}
spec fn lall(l: EList, env: Env) -> bool
    decreases l,
{
    match l { EList::Nil => true, EList::Cons(e, r) => esem(*e, env) && lall(*r, env) }
}
/// the written expression is one the parser accepts: leaves are decodable leaf words, every
/// operator has at least one operand, nesting at most d
spec fn ewf(e: Expr, d: int) -> bool
    decreases e,
{
    match e {
        Expr::L1(w) => word_ok(w.0, None) && !is_two_word(w.0) && !is_boolop_word(w.0),
        Expr::L2(a, _) => is_two_word(a.0),
        Expr::Op(_, l) => d > 0 && !(*l is Nil) && lwf(*l, d - 1),
    }
}
spec fn lwf(l: EList, d: int) -> bool
    decreases l,
{
    match l { EList::Nil => true, EList::Cons(e, r) => ewf(*e, d) && lwf(*r, d) }
}

proof fn lemma_sizes(e: Expr, b: int)
    ensures esize(e) >= 1, enc(e, b).len() == esize(e),
    decreases e,
{
    match e {
        Expr::Op(_, l) => { lemma_lsizes(*l, b + 1); }
        _ => {}
    }
}
proof fn lemma_lsizes(l: EList, b: int)
    ensures lenc(l, b).len() == lsize(l),
    decreases l,
{
    match l {
        EList::Cons(e, r) => { lemma_sizes(*e, b); lemma_lsizes(*r, b + esize(*e)); }
        _ => {}
    }
}

/// `ops` contains the encoding of list l at offset base
spec fn embeds(ops: Seq<OpCode>, base: int, l: EList) -> bool {
    0 <= base && base + lsize(l) <= ops.len() && ops.subrange(base, base + lsize(l)) == lenc(l, base)
}
spec fn embeds_e(ops: Seq<OpCode>, base: int, e: Expr) -> bool {
    0 <= base && base + esize(e) <= ops.len() && ops.subrange(base, base + esize(e)) == enc(e, base)
}

proof fn lemma_embed_split(ops: Seq<OpCode>, base: int, e: Expr, r: EList)
    requires embeds(ops, base, EList::Cons(Box::new(e), Box::new(r))),
    ensures embeds_e(ops, base, e), embeds(ops, base + esize(e), r),
{
    let l = EList::Cons(Box::new(e), Box::new(r));
    lemma_sizes(e, base);
    lemma_lsizes(r, base + esize(e));
    let whole = ops.subrange(base, base + lsize(l));
    assert(whole == enc(e, base) + lenc(r, base + esize(e)));
    assert(ops.subrange(base, base + esize(e)) =~= whole.subrange(0, esize(e) as int));
    assert(whole.subrange(0, esize(e) as int) =~= enc(e, base));
    assert(ops.subrange(base + esize(e), base + esize(e) + lsize(r)) =~= whole.subrange(esize(e) as int, lsize(l) as int));
    assert(whole.subrange(esize(e) as int, lsize(l) as int) =~= lenc(r, base + esize(e)));
}
proof fn lemma_embed_op(ops: Seq<OpCode>, base: int, op: BooleanOperator, l: EList)
    requires embeds_e(ops, base, Expr::Op(op, Box::new(l))),
    ensures ops[base] == bool_word(op, base + 1 + lsize(l)), embeds(ops, base + 1, l),
{
    let e = Expr::Op(op, Box::new(l));
    lemma_lsizes(l, base + 1);
    let whole = ops.subrange(base, base + esize(e));
    assert(whole == seq![bool_word(op, base + 1 + lsize(l))] + lenc(l, base + 1));
    assert(whole[0] == bool_word(op, base + 1 + lsize(l)));
    assert(whole[0] == ops[base]);
    assert(ops.subrange(base + 1, base + 1 + lsize(l)) =~= whole.subrange(1, esize(e) as int));
    assert(whole.subrange(1, esize(e) as int) =~= lenc(l, base + 1));
}

proof fn lemma_decode_one_word(wd: u16, n1: Option<OpCode>, n2: Option<OpCode>)
    requires !is_two_word(wd), word_ok(wd, n1),
    ensures spec_decode(wd, n1) == spec_decode(wd, n2), word_ok(wd, n2),
{
}

/// one written expression e, encoded at offset base inside ops
proof fn lemma_tree_expr(ops: Seq<OpCode>, env: Env, base: int, e: Expr, d: int)
    requires embeds_e(ops, base, e), ewf(e, d), ops.len() < 0x1000,
    ensures
        step(ops, base) == base + esize(e),
        base < base + esize(e) <= ops.len(),
        word_ok(w(ops, base), nxt(ops, base)),
        is_op(ops, base) == (e is Op),
        !(e is Op) ==> leaf_width(ops, base) == esize(e),
        e is Op ==> d > 0 && base + 1 < op_end(ops, base) && wf_list(ops, base + 1, op_end(ops, base), d - 1),
        opval(ops, env, base) == esem(e, env),
    decreases e,
{
    lemma_sizes(e, base);
    let whole = ops.subrange(base, base + esize(e));
    assert(whole == enc(e, base));
    assert(whole[0] == ops[base]);
    match e {
        Expr::L1(wd) => {
            assert(ops[base] == wd);
            lemma_decode_one_word(wd.0, None, nxt(ops, base));
            lemma_decode_one_word(wd.0, None, nxt(seq![wd], 0));
            lemma_opval_leaf(ops, env, base);
            assert(leaf_val(ops, env, base) == leaf_val(seq![wd], env, 0));
        }
        Expr::L2(a, b) => {
            assert(whole[1] == ops[base + 1]);
            assert(ops[base] == a && ops[base + 1] == b);
            lemma_bits_classes(a.0);
            assert(nxt(ops, base) == Some(b));
            assert(nxt(seq![a, b], 0) == Some(b));
            assert(!is_op(ops, base));
            lemma_opval_leaf(ops, env, base);
            assert(leaf_val(ops, env, base) == leaf_val(seq![a, b], env, 0));
        }
        Expr::Op(op, l) => {
            lemma_embed_op(ops, base, op, *l);
            lemma_lsizes(*l, base + 1);
            let end = base + 1 + lsize(*l);
            assert(end <= ops.len());
            lemma_bits_bool(end as u16);
            let wd = bool_word(op, end).0;
            assert(w(ops, base) == wd);
            lemma_bits_classes(wd);
            assert(is_boolop_word(wd));
            assert(op_end(ops, base) == end);
            assert(op_kind(ops, base) == op);
            assert(lsize(*l) >= 1) by {
                match *l { EList::Cons(e0, _) => { lemma_sizes(*e0, 0); } EList::Nil => {} }
            }
            lemma_tree_list(ops, env, base + 1, *l, d - 1);
            lemma_opval_op(ops, env, base);
        }
    }
}

/// a written operand list l, encoded at offset base inside ops
proof fn lemma_tree_list(ops: Seq<OpCode>, env: Env, base: int, l: EList, d: int)
    requires embeds(ops, base, l), lwf(l, d), ops.len() < 0x1000,
    ensures
        wf_list(ops, base, base + lsize(l), d),
        ev(ops, env, 0, base, base + lsize(l)) == lany(l, env),
        ev(ops, env, 1, base, base + lsize(l)) == lall(l, env),
    decreases l,
{
    match l {
        EList::Nil => {
            reveal_with_fuel(ev, 1);
        }
        EList::Cons(e, r) => {
            lemma_embed_split(ops, base, *e, *r);
            lemma_sizes(*e, base);
            lemma_tree_expr(ops, env, base, *e, d);
            let q = base + esize(*e);
            let end = base + lsize(l);
            lemma_tree_list(ops, env, q, *r, d);
            assert(q + lsize(*r) == end);
            // one unfolding of wf_list and of ev at base
            assert(wf_list(ops, base, end, d));
            lemma_and_single(ops, env, base);
            assert(reach(ops, base, q)) by { reveal_with_fuel(reach, 2); }
            lemma_wf_reach(ops, q, end, d);
            lemma_split(ops, env, 0, base, q, end);
            lemma_split(ops, env, 1, base, q, end);
        }
    }
}

/// A5, the statement: for every accepted written condition (a list of expressions with an implicit
/// `or`), the opcode stream the compiler is expected to emit satisfies the evaluator's precondition,
/// and the array-level meaning used in A3 is the meaning of the written condition.
proof fn theorem_written_condition(l: EList, env: Env)
    requires lwf(l, 8), lsize(l) < 0x1000,
    ensures ({
        let ops = lenc(l, 0);
        &&& wf_list(ops, 0, ops.len() as int, 8)
        &&& sem_top(ops, env) == (l is Nil || lany(l, env))
    }),
{
    let ops = lenc(l, 0);
    lemma_lsizes(l, 0);
    assert(ops.subrange(0, ops.len() as int) =~= ops);
    lemma_tree_list(ops, env, 0, l, 8);
}

// =========================================================================================
// A6: the COMPILER (parser/src/cfg/switch.rs::parse_switch_case_bool), as far as it can be cut:
// the prologue (size / depth checks) and the operator arm (placeholder, recursion over the
// operands, back-patching of the absolute end index) are FRAGMENTS of the real function, each
// wrapped in a synthetic signature; the leaf arms (string matching, closures, error macros) and
// the keyword dispatch closure stay outside.  The recursive call is a stub carrying the contract
// `compiles(..)` below - the induction hypothesis - and the operator arm is proved to satisfy that
// same contract: the induction step of "parse_switch_case_bool emits enc(tree(e), base)".
// =========================================================================================
//@ raw
// the parser's s-expression and state: opaque here
#[verifier::external_body]
pub struct SExpr { verif_opaque: u8 }
#[verifier::external_body]
pub struct ParserState { verif_opaque: u8 }
#[verifier::external_body]
pub struct VerifError { verif_opaque: u8 }
type Result<T> = core::result::Result<T, VerifError>;
// R13: bail_expr!(expr, "...") -> return Err(verif_bail()); the formatted message is dropped
#[verifier::external_body]
fn verif_bail() -> VerifError { unimplemented!() }
// R14: `l.iter().skip(n)` -> `verif_skip(l, n).iter()`; ASSUMED: skip(n) yields the elements from n on
#[verifier::external_body]
fn verif_skip<T>(l: &[T], n: usize) -> (r: &[T])
    ensures r@ == (if n <= l@.len() { l@.subrange(n as int, l@.len() as int) } else { Seq::<T>::empty() }),
{ unimplemented!() }

/// the WRITTEN condition denoted by an s-expression.  Definitional: an atom / a leaf form denotes
/// its leaf; a list (kw x1 .. xn) with kw in {or, and, not} denotes Op(kw, [tree(x1), .., tree(xn)]).
uninterp spec fn tree(e: SExpr) -> Expr;
spec fn trees(l: Seq<SExpr>) -> EList
    decreases l.len(),
{
    if l.len() == 0 { EList::Nil } else { EList::Cons(Box::new(tree(l[0])), Box::new(trees(l.drop_first()))) }
}
/// ewf without "every operator has an operand": what the compiler guarantees by itself
/// (the parser accepts `(or)`; the property excludes it)
spec fn pwf(e: Expr, d: int) -> bool
    decreases e,
{
    match e {
        Expr::L1(w) => word_ok(w.0, None) && !is_two_word(w.0) && !is_boolop_word(w.0),
        Expr::L2(a, _) => is_two_word(a.0),
        Expr::Op(_, l) => d > 0 && plwf(*l, d - 1),
    }
}
spec fn plwf(l: EList, d: int) -> bool
    decreases l,
{
    match l { EList::Nil => true, EList::Cons(e, r) => pwf(*e, d) && plwf(*r, d) }
}
spec fn has_operands(e: Expr) -> bool
    decreases e,
{
    match e { Expr::Op(_, l) => !(*l is Nil) && l_has_operands(*l), _ => true }
}
spec fn l_has_operands(l: EList) -> bool
    decreases l,
{
    match l { EList::Nil => true, EList::Cons(e, r) => has_operands(*e) && l_has_operands(*r) }
}
proof fn lemma_pwf_ewf(e: Expr, d: int)
    requires pwf(e, d), has_operands(e),
    ensures ewf(e, d),
    decreases e,
{
    match e { Expr::Op(_, l) => { lemma_plwf_lwf(*l, d - 1); } _ => {} }
}
proof fn lemma_plwf_lwf(l: EList, d: int)
    requires plwf(l, d), l_has_operands(l),
    ensures lwf(l, d),
    decreases l,
{
    match l { EList::Cons(e, r) => { lemma_pwf_ewf(*e, d); lemma_plwf_lwf(*r, d); } _ => {} }
}

/// THE CONTRACT of parse_switch_case_bool: on success exactly the encoding of the written
/// expression is appended, with absolute end indices, and its nesting stays within the
/// evaluator's stack (top-level expressions are compiled at depth 1)
spec fn compiles(e: SExpr, depth: u8, before: Seq<OpCode>, after: Seq<OpCode>) -> bool {
    &&& after == before + enc(tree(e), before.len() as int)
    &&& pwf(tree(e), 9 - depth as int)
}
// the recursive call: INDUCTION HYPOTHESIS (also: what the leaf arms are ASSUMED to satisfy)
#[verifier::external_body]
fn parse_switch_case_bool(depth: u8, op_expr: &SExpr, ops: &mut Vec<OpCode>, s: &ParserState) -> (r: Result<()>)
    ensures r is Ok ==> compiles(*op_expr, depth, old(ops)@, final(ops)@),
{ unimplemented!() }

proof fn lemma_lenc_snoc(l: Seq<SExpr>, b: int)
    requires l.len() >= 1,
    ensures lenc(trees(l), b) == lenc(trees(l.drop_last()), b) + enc(tree(l.last()), b + lsize(trees(l.drop_last()))),
            lsize(trees(l)) == lsize(trees(l.drop_last())) + esize(tree(l.last())),
    decreases l.len(),
{
    let e0 = tree(l[0]);
    let t = l.drop_first();
    assert(trees(l) == EList::Cons(Box::new(e0), Box::new(trees(t))));
    assert(lenc(trees(l), b) == enc(e0, b) + lenc(trees(t), b + esize(e0)));
    assert(lsize(trees(l)) == esize(e0) + lsize(trees(t)));
    if l.len() == 1 {
        assert(l.drop_last() =~= Seq::<SExpr>::empty());
        assert(t =~= Seq::<SExpr>::empty());
        assert(trees(t) == EList::Nil);
        assert(trees(l.drop_last()) == EList::Nil);
        assert(lenc(EList::Nil, b + esize(e0)) =~= Seq::<OpCode>::empty());
        assert(lenc(EList::Nil, b) =~= Seq::<OpCode>::empty());
        assert(lenc(trees(l), b) =~= enc(e0, b));
        assert(lenc(trees(l), b) =~= lenc(trees(l.drop_last()), b) + enc(tree(l.last()), b + lsize(trees(l.drop_last()))));
    } else {
        lemma_lenc_snoc(t, b + esize(e0));
        let dl = l.drop_last();
        assert(t.drop_last() =~= dl.drop_first());
        assert(dl[0] == l[0]);
        assert(t.last() == l.last());
        assert(trees(dl) == EList::Cons(Box::new(e0), Box::new(trees(dl.drop_first()))));
        assert(lenc(trees(dl), b) == enc(e0, b) + lenc(trees(dl.drop_first()), b + esize(e0)));
        assert(lsize(trees(dl)) == esize(e0) + lsize(trees(dl.drop_first())));
        assert(lenc(trees(l), b) =~= lenc(trees(dl), b) + enc(tree(l.last()), b + lsize(trees(dl))));
    }
}
proof fn lemma_plwf_snoc(l: Seq<SExpr>, d: int)
    requires l.len() >= 1, plwf(trees(l.drop_last()), d), pwf(tree(l.last()), d),
    ensures plwf(trees(l), d),
    decreases l.len(),
{
    let t = l.drop_first();
    let dl = l.drop_last();
    assert(trees(l) == EList::Cons(Box::new(tree(l[0])), Box::new(trees(t))));
    if l.len() == 1 {
        assert(t =~= Seq::<SExpr>::empty());
        assert(trees(t) == EList::Nil);
    } else {
        assert(trees(dl) == EList::Cons(Box::new(tree(dl[0])), Box::new(trees(dl.drop_first()))));
        assert(dl[0] == l[0]);
        assert(t.drop_last() =~= dl.drop_first());
        assert(t.last() == l.last());
        lemma_plwf_snoc(t, d);
    }
}

//@ item parser/src/cfg/switch.rs enum AllowedListOps
//@ raw
/// the operator a keyword variant stands for
spec fn opk(op: AllowedListOps) -> BooleanOperator {
    match op { AllowedListOps::Or => Or, AllowedListOps::And => And, _ => Not }
}

//@ fragment parser/src/cfg/switch.rs fn parse_switch_case_bool head-until `if let Some(a) = op_expr.atom(s.vars()) {` as compile_prologue
//@@ header
fn compile_prologue(depth: u8, op_expr: &SExpr, ops: &mut Vec<OpCode>, s: &ParserState) -> Result<()>
//@@ tail
    Ok(())
//@@ macro-stmt R13 bail_expr => `return Err(verif_bail());`
//@@ ret r
//@@ spec
    ensures
        final(ops)@ == old(ops)@,
        // only expressions that start inside the 12-bit index space and within the evaluator's
        // stack depth get compiled at all
        r is Ok ==> old(ops)@.len() <= 0x0FFF && depth <= 8,

//@ fragment parser/src/cfg/switch.rs fn parse_switch_case_bool block-after `AllowedListOps::Or | AllowedListOps::And | AllowedListOps::Not => {` as compile_operator_arm
//@@ header
fn compile_operator_arm(depth: u8, op_expr: &SExpr, ops: &mut Vec<OpCode>, s: &ParserState, l: &[SExpr], op: AllowedListOps) -> Result<()>
//@@ macro-stmt R13 bail_expr => `return Err(verif_bail());`
//@@ resub R14 1 /for op in l\.iter\(\)\.skip\((\d+)\)/ => `for op in it: verif_skip(l, \1).iter()`
//@@ resub R15 1 /ops\[([^\]]*)\] = (OpCode::new_bool\([^;]*\));/ => `ops.set(\1, \2);`
//@@ ret r
//@@ spec
    requires
        // established by the prologue fragment
        old(ops)@.len() <= 0x0FFF, depth <= 8,
        // established by the dispatch: a non-empty list whose head is one of the three keywords
        l@.len() >= 1,
        op is Or || op is And || op is Not,
        // definition of the written condition of such a list
        tree(*op_expr) == Expr::Op(opk(op), Box::new(trees(l@.subrange(1, l@.len() as int)))),
    ensures
        r is Ok ==> compiles(*op_expr, depth, old(ops)@, final(ops)@),
        r is Ok ==> final(ops)@.len() <= 0x0FFF,
//@@ after-re 1 /ops\.push\(OpCode::new_bool\([^;]*\)\);/
    let ghost base = ops@.len() - 1;   // the index just pushed (no reference to the local's name)
    let ghost ops0 = old(ops)@;
    let ghost rest = l@.subrange(1, l@.len() as int);
//@@ loop 1
        invariant
            it.seq().len() == rest.len(),
            forall|k: int| 0 <= k < rest.len() ==> *it.seq()[k] == rest[k],
            ops@.len() == base + 1 + lsize(trees(rest.subrange(0, it.index@ as int))),
            ops@.subrange(0, base) == ops0,
            ops@.subrange(base + 1, ops@.len() as int) == lenc(trees(rest.subrange(0, it.index@ as int)), base + 1),
            plwf(trees(rest.subrange(0, it.index@ as int)), 8 - depth as int),
            depth <= 8, base == ops0.len(), base <= 0x0FFF,
//@@ before-re 1 /parse_switch_case_bool\([^;]*\)\?;/
    let ghost before = ops@;
//@@ after-re 1 /parse_switch_case_bool\([^;]*\)\?;/
    proof {
        let pre = rest.subrange(0, it.index@ as int + 1);
        lemma_lenc_snoc(pre, base + 1);
        assert(pre.drop_last() =~= rest.subrange(0, it.index@ as int));
        assert(pre.last() == rest[it.index@ as int]);
        lemma_plwf_snoc(pre, 8 - depth as int);
        lemma_sizes(tree(*op), before.len() as int);
        assert(ops@.subrange(0, base) =~= ops0);
        assert(ops@.subrange(base + 1, ops@.len() as int) =~= lenc(trees(pre), base + 1));
    }
//@@ before 1 `Ok(())`
    proof {
        assert(rest.subrange(0, rest.len() as int) =~= rest);
        let e = Expr::Op(op, Box::new(trees(rest)));
        assert(ops@ =~= ops0 + enc(e, base));
    }

// =========================================================================================
// A7: the LEAF ARMS of the compiler that encode an input / input-history / key-timing test
// (FRAGMENTS of parse_switch_case_bool, one per match arm).  What stays outside: reading a word of
// the configuration (atom lookup, number parsing, key-name and virtual-key-name lookup: stubs that
// return "what the word denotes", uninterpreted) and the error messages.  Proved: the words pushed
// DECODE (spec_decode, the evaluator's own decoder, A2) to the test the configuration wrote.
// =========================================================================================
//@ item parser/src/cfg/switch.rs enum InputType
//@@ no-derives
//@ raw
impl Copy for InputType {}
impl Clone for InputType { fn clone(&self) -> Self { *self } }
//@ item parser/src/custom_action.rs struct Coord
//@@ keep-vis
//@@ no-derives
//@ raw
/// rows of the key matrix (docs: real keys are row 0, virtual keys row 1)
spec fn row_of(t: InputType) -> u8 { match t { InputType::Real => 0, InputType::Virtual => 1 } }
//@ item parser/src/cfg/switch.rs fn to_row in `InputType`
//@@ wrap impl InputType
//@@ ret r
//@@ spec
    ensures r == row_of(self),
//@ raw
/// synthetic enum for the comparison word of key-timing (R40: the string patterns
/// `"less-than" | "lt"` / `"greater-than" | "gt"` / `_` become its three variants, 1:1)
enum VerifCmpWord { LessThan, GreaterThan, Other }
// what the words of a leaf form denote: uninterpreted (the lookups are outside)
uninterp spec fn key_type_of(e: SExpr, s: ParserState) -> InputType;
uninterp spec fn real_code_of(e: SExpr, s: ParserState) -> u16;
uninterp spec fn vkey_coord_of(e: SExpr, s: ParserState) -> Coord;
uninterp spec fn u8_of(e: SExpr, s: ParserState) -> u8;
uninterp spec fn u16_of(e: SExpr, s: ParserState) -> u16;
uninterp spec fn cmp_of(e: SExpr, s: ParserState) -> VerifCmpWord;
impl ParserState {
    /// the largest key-timing threshold seen so far (a Cell in the real struct; decides how long
    /// the run time keeps key ages)
    uninterp spec fn max_timing(&self) -> u16;
    // R41: `s.switch_max_key_timing.get()` / `.set(v)` -> these accessors (Cell field of the opaque state)
    #[verifier::external_body]
    fn verif_get_max_timing(&self) -> (r: u16) ensures r == self.max_timing() { unimplemented!() }
    #[verifier::external_body]
    fn verif_set_max_timing(&mut self, v: u16)
        ensures final(self).max_timing() == v,
            forall|e: SExpr| key_type_of(e, *final(self)) == key_type_of(e, *old(self)),
    { unimplemented!() }
}
/// R38: `match l[1].atom(s.vars()).ok_or_else(..)? { "real" => InputType::Real, "fake" | "virtual"
/// => InputType::Virtual, _ => bail }` -> this call; the table of the three names is obligation
/// a7_key_type_names below (read from the arms)
#[verifier::external_body]
fn verif_key_type(e: &SExpr, s: &ParserState) -> (r: Result<InputType>)
    ensures r matches Ok(t) ==> t == key_type_of(*e, *s),
{ unimplemented!() }
/// R39: the Real arm `{ let key = l[2].atom(..).ok_or_else(..)?; u16::from(str_to_oscode(key).ok_or_else(..)?) }`
/// -> this call.  ASSUMED: an OS key code is at most 767 (decided for every code by C11's harnesses)
#[verifier::external_body]
fn verif_real_key(e: &SExpr, s: &ParserState) -> (r: Result<u16>)
    ensures r matches Ok(c) ==> c == real_code_of(*e, *s) && c <= 767,
{ unimplemented!() }
/// ASSUMED contract of parse_vkey_coord (parser/src/cfg/fake_key.rs): the coordinate of the named
/// virtual key; at most 768 virtual keys can be defined (checked where they are parsed)
#[verifier::external_body]
fn parse_vkey_coord(param: &SExpr, s: &ParserState) -> (r: Result<Coord>)
    ensures r matches Ok(c) ==> c == vkey_coord_of(*param, *s) && c.y < 768,
{ unimplemented!() }
/// ASSUMED contracts of the number readers (parser/src/cfg/mod.rs: str::parse + range test)
#[verifier::external_body]
fn parse_u8_with_range(expr: &SExpr, s: &ParserState, label: &str, min: u8, max: u8) -> (r: Result<u8>)
    ensures r matches Ok(v) ==> v == u8_of(*expr, *s) && min <= v <= max,
{ unimplemented!() }
#[verifier::external_body]
fn parse_u16(expr: &SExpr, s: &ParserState, label: &str) -> (r: Result<u16>)
    ensures r matches Ok(v) ==> v == u16_of(*expr, *s),
{ unimplemented!() }
#[verifier::external_body]
fn verif_cmp_word(e: &SExpr, s: &ParserState) -> (r: Result<VerifCmpWord>)
    ensures r matches Ok(c) ==> c == cmp_of(*e, *s),
{ unimplemented!() }
/// R19: `ops.extend(&[op1, op2])` -> this helper (ASSUMED Vec::extend contract)
#[verifier::external_body]
fn verif_extend2(ops: &mut Vec<OpCode>, a: OpCode, b: OpCode)
    ensures final(ops)@ == old(ops)@.push(a).push(b),
{ unimplemented!() }
// ASSUMED: core::cmp::max on u16 is the larger of the two
pub uninterp spec fn max_spec<T>(a: T, b: T) -> T;
#[verifier::allow(undeclared_external_trait)]
pub assume_specification<T> [core::cmp::max] (a: T, b: T) -> (r: T)
    where T: core::cmp::Ord + core::marker::Destruct,
    ensures r == max_spec(a, b);
#[verifier::external_body]
broadcast proof fn axiom_max_u16(a: u16, b: u16)
    ensures #[trigger] max_spec::<u16>(a, b) == (if a >= b { a } else { b }),
{ unimplemented!() }

/// the coordinate an `(input <type> <key>)` / `(input-history <type> <key> n)` form names
spec fn input_coord(l: Seq<SExpr>, s: ParserState) -> KCoord {
    let t = key_type_of(l[1], s);
    (row_of(t), match t { InputType::Real => real_code_of(l[2], s), InputType::Virtual => vkey_coord_of(l[2], s).y })
}

//@ fragment parser/src/cfg/switch.rs fn parse_switch_case_bool block-after `AllowedListOps::Input => {` as compile_input_arm
//@@ header
fn compile_input_arm(op_expr: &SExpr, ops: &mut Vec<OpCode>, s: &ParserState, l: &[SExpr]) -> Result<()>
//@@ macro-stmt R13 bail_expr => `return Err(verif_bail());`
//@@ resub R38 1 /let input_type = match l\[1\]\s*\.atom\(s\.vars\(\)\)\s*\.ok_or_else\(\|\| anyhow_expr!\([^;]*?\)\)\?\s*\{[^}]*\};/ => `let input_type = verif_key_type(&l[1], s)?;`
//@@ resub R39 1 /InputType::Real => \{\s*let key = l\[2\]\.atom\(s\.vars\(\)\)\.ok_or_else\(\|\| \{\s*anyhow_expr!\([^;]*?\)\s*\}\)\?;\s*u16::from\(\s*str_to_oscode\(key\)\s*\.ok_or_else\(\|\| anyhow_expr!\([^;]*?\)\)\?,\s*\)\s*\}/ => `InputType::Real => verif_real_key(&l[2], s)?,`
//@@ resub R19 1 /ops\.extend\(&\[op1, op2\]\);/ => `verif_extend2(ops, op1, op2);`
//@@ ret r
//@@ spec
    ensures
        r is Err ==> final(ops)@ == old(ops)@,
        r is Ok ==> l@.len() == 3 && final(ops)@.len() == old(ops)@.len() + 2
            && final(ops)@.subrange(0, old(ops)@.len() as int) == old(ops)@
            // the two words are an "input is active" test of the coordinate that was written
            && spec_decode(final(ops)@[old(ops)@.len() as int].0, Some(final(ops)@[old(ops)@.len() as int + 1]))
                == OpCodeType::Input(input_coord(l@, *s)),

//@ fragment parser/src/cfg/switch.rs fn parse_switch_case_bool block-after `AllowedListOps::InputHistory => {` as compile_input_history_arm
//@@ header
fn compile_input_history_arm(op_expr: &SExpr, ops: &mut Vec<OpCode>, s: &ParserState, l: &[SExpr]) -> Result<()>
//@@ macro-stmt R13 bail_expr => `return Err(verif_bail());`
//@@ resub R38 1 /let input_type = match l\[1\]\s*\.atom\(s\.vars\(\)\)\s*\.ok_or_else\(\|\| anyhow_expr!\([^;]*?\)\)\?\s*\{[^}]*\};/ => `let input_type = verif_key_type(&l[1], s)?;`
//@@ resub R39 1 /InputType::Real => \{\s*let key = l\[2\]\.atom\(s\.vars\(\)\)\.ok_or_else\(\|\| \{\s*anyhow_expr!\([^;]*?\)\s*\}\)\?;\s*u16::from\(\s*str_to_oscode\(key\)\s*\.ok_or_else\(\|\| anyhow_expr!\([^;]*?\)\)\?,\s*\)\s*\}/ => `InputType::Real => verif_real_key(&l[2], s)?,`
//@@ resub R19 1 /ops\.extend\(&\[op1, op2\]\);/ => `verif_extend2(ops, op1, op2);`
//@@ ret r
//@@ spec
    ensures
        r is Err ==> final(ops)@ == old(ops)@,
        r is Ok ==> l@.len() == 4 && final(ops)@.len() == old(ops)@.len() + 2
            && final(ops)@.subrange(0, old(ops)@.len() as int) == old(ops)@
            // .. an "n-th most recent input was" test of that coordinate; the configuration counts from 1
            && 1 <= u8_of(l@[3], *s) <= 8
            && spec_decode(final(ops)@[old(ops)@.len() as int].0, Some(final(ops)@[old(ops)@.len() as int + 1]))
                == OpCodeType::HistoricalInput(HistoricalInput { input: input_coord(l@, *s), how_far_back: (u8_of(l@[3], *s) - 1) as u8 }),

//@ fragment parser/src/cfg/switch.rs fn parse_switch_case_bool block-after `AllowedListOps::KeyTiming => {` as compile_key_timing_arm
//@@ header
fn compile_key_timing_arm(op_expr: &SExpr, ops: &mut Vec<OpCode>, s: &mut ParserState, l: &[SExpr]) -> Result<()>
//@@ macro-stmt R13 bail_expr => `return Err(verif_bail());`
//@@ resub R40 1 /match l\[2\]\.atom\(s\.vars\(\)\)\.ok_or_else\(\|\| \{\s*anyhow_expr!\([^;]*?\)\s*\}\)\? \{/ => `match verif_cmp_word(&l[2], s)? {`
//@@ resub R40 1 /"less-than" \| "lt" =>/ => `VerifCmpWord::LessThan =>`
//@@ resub R40 1 /"greater-than" \| "gt" =>/ => `VerifCmpWord::GreaterThan =>`
//@@ resub R40 1 /_ => \{/ => `VerifCmpWord::Other => {`
//@@ resub R41 * /s\s*\.switch_max_key_timing\s*\.set\(/ => `s.verif_set_max_timing(`
//@@ resub R41 * /s\s*\.switch_max_key_timing\s*\.get\(\)/ => `s.verif_get_max_timing()`
//@@ resub R41 * /std::cmp::max\(/ => `core::cmp::max(`
//@@ before-re 1 /if l\.len\(\)/
    broadcast use axiom_max_u16;
//@@ ret r
//@@ spec
    ensures
        r is Err ==> final(ops)@ == old(ops)@,
        r is Ok ==> l@.len() == 4 && final(ops)@.len() == old(ops)@.len() + 1
            && final(ops)@.subrange(0, old(ops)@.len() as int) == old(ops)@
            && 1 <= u8_of(l@[1], *old(s)) <= 8
            && !(cmp_of(l@[2], *old(s)) is Other),
            // the word is a "ticks since the n-th most recent key" test, in the direction written,
            // with the written threshold in its compressed form
        r is Ok ==> spec_decode(final(ops)@[old(ops)@.len() as int].0, None) == (
                if cmp_of(l@[2], *old(s)) is LessThan {
                    OpCodeType::TicksSinceLessThan(TicksSinceNthKey { nth_key: (u8_of(l@[1], *old(s)) - 1) as u8, ticks_since: spec_decompress(spec_compress(u16_of(l@[3], *old(s)) as int)) as u16 })
                } else {
                    OpCodeType::TicksSinceGreaterThan(TicksSinceNthKey { nth_key: (u8_of(l@[1], *old(s)) - 1) as u8, ticks_since: spec_decompress(spec_compress(u16_of(l@[3], *old(s)) as int)) as u16 })
                }),
        // and the run time is told to keep key ages at least this long
        r is Ok ==> final(s).max_timing() >= u16_of(l@[3], *old(s))
            && final(s).max_timing() >= old(s).max_timing()
            && (final(s).max_timing() == old(s).max_timing() || final(s).max_timing() == u16_of(l@[3], *old(s))),

//@ raw
/// an OS key code as the parser's name table returns it: opaque; `.into()` gives the KeyCode of the
/// same number (ASSUMED here; the conversion is C11's subject)
#[verifier::external_body]
pub struct OsCode { verif_opaque: u8 }
impl OsCode { pub uninterp spec fn kc(&self) -> KeyCode; }
impl vstd::std_specs::convert::FromSpecImpl<OsCode> for KeyCode {
    open spec fn obeys_from_spec() -> bool { true }
    open spec fn from_spec(o: OsCode) -> Self { o.kc() }
}
impl From<OsCode> for KeyCode {
    #[verifier::external_body]
    fn from(o: OsCode) -> (r: KeyCode) ensures r == o.kc() { unimplemented!() }
}
uninterp spec fn key_of(e: SExpr, s: ParserState) -> OsCode;
uninterp spec fn key_of_name(a: &str) -> OsCode;
uninterp spec fn layer_of(e: SExpr, s: ParserState) -> u16;
/// R39: `l[1].atom(s.vars()).and_then(str_to_oscode).ok_or_else(..)?` -> this call (name lookup outside)
#[verifier::external_body]
fn verif_key(e: &SExpr, s: &ParserState) -> (r: Result<OsCode>)
    ensures r matches Ok(o) ==> o == key_of(*e, *s),
{ unimplemented!() }
/// R39: `str_to_oscode(a).ok_or_else(..)?` -> this call
#[verifier::external_body]
fn verif_key_of_name(a: &str) -> (r: Result<OsCode>)
    ensures r matches Ok(o) ==> o == key_of_name(a),
{ unimplemented!() }
/// R39: `l[1].atom(s.vars()).and_then(|atom| s.layer_idxs.get(atom)).map(|idx| { assert!(*idx <
/// MAX_LAYERS); *idx as u16 }).ok_or_else(..)?` -> this call.  ASSUMED: a layer index is below
/// MAX_LAYERS (the `assert!` inside the closure is NOT decided here)
#[verifier::external_body]
fn verif_layer_idx(e: &SExpr, s: &ParserState) -> (r: Result<u16>)
    ensures r matches Ok(v) ==> v == layer_of(*e, *s) && (v as usize) < crate::layout::MAX_LAYERS,
{ unimplemented!() }

//@ fragment parser/src/cfg/switch.rs fn parse_switch_case_bool block-after `if let Some(a) = op_expr.atom(s.vars()) {` as compile_key_atom
//@@ header
fn compile_key_atom(op_expr: &SExpr, ops: &mut Vec<OpCode>, s: &ParserState, a: &str) -> Result<()>
//@@ resub R39 1 /str_to_oscode\(a\)\.ok_or_else\(\|\| anyhow_expr!\([^;]*?\)\)\?/ => `verif_key_of_name(a)?`
//@@ ret r
//@@ spec
    ensures
        r is Err ==> final(ops)@ == old(ops)@,
        r is Ok ==> final(ops)@.len() == old(ops)@.len() + 1
            && final(ops)@.subrange(0, old(ops)@.len() as int) == old(ops)@
            // a bare key name is an "this key is active" test of that key
            && spec_decode(final(ops)@[old(ops)@.len() as int].0, None) == OpCodeType::KeyCode(key_of_name(a).kc() as u16),

//@ fragment parser/src/cfg/switch.rs fn parse_switch_case_bool block-after `AllowedListOps::KeyHistory => {` as compile_key_history_arm
//@@ header
fn compile_key_history_arm(op_expr: &SExpr, ops: &mut Vec<OpCode>, s: &ParserState, l: &[SExpr]) -> Result<()>
//@@ macro-stmt R13 bail_expr => `return Err(verif_bail());`
//@@ resub R39 1 /l\[1\]\s*\.atom\(s\.vars\(\)\)\s*\.and_then\(str_to_oscode\)\s*\.ok_or_else\(\|\| anyhow_expr!\([^;]*?\)\)\?/ => `verif_key(&l[1], s)?`
//@@ ret r
//@@ spec
    ensures
        r is Err ==> final(ops)@ == old(ops)@,
        r is Ok ==> l@.len() == 3 && final(ops)@.len() == old(ops)@.len() + 1
            && final(ops)@.subrange(0, old(ops)@.len() as int) == old(ops)@
            && 1 <= u8_of(l@[2], *s) <= 8
            // "the n-th most recent key was", counting from 1 in the configuration
            && spec_decode(final(ops)@[old(ops)@.len() as int].0, None)
                == OpCodeType::HistoricalKeyCode(HistoricalKeyCode { key_code: key_of(l@[1], *s).kc() as u16, how_far_back: (u8_of(l@[2], *s) - 1) as u8 }),
//@@ before 1 `Ok(())`
    proof { lemma_bits_classes(ops@[ops@.len() - 1].0); }

//@ fragment parser/src/cfg/switch.rs fn parse_switch_case_bool block-after `AllowedListOps::Layer | AllowedListOps::BaseLayer => {` as compile_layer_arm
//@@ header
fn compile_layer_arm(op_expr: &SExpr, ops: &mut Vec<OpCode>, s: &ParserState, l: &[SExpr], op: AllowedListOps) -> Result<()>
//@@ macro-stmt R13 bail_expr => `return Err(verif_bail());`
//@@ resub R39 1 /l\[1\]\s*\.atom\(s\.vars\(\)\)\s*\.and_then\(\|atom\| s\.layer_idxs\.get\(atom\)\)\s*\.map\(\|idx\| \{\s*assert!\(\*idx < MAX_LAYERS\);\s*\*idx as u16\s*\}\)\s*\.ok_or_else\(\|\| anyhow_expr!\([^;]*?\)\)\?/ => `verif_layer_idx(&l[1], s)?`
//@@ resub R19 1 /ops\.extend\(&\[op1, op2\]\);/ => `verif_extend2(ops, op1, op2);`
//@@ ret r
//@@ spec
    requires op is Layer || op is BaseLayer,
    ensures
        r is Err ==> final(ops)@ == old(ops)@,
        r is Ok ==> l@.len() == 2 && final(ops)@.len() == old(ops)@.len() + 2
            && final(ops)@.subrange(0, old(ops)@.len() as int) == old(ops)@
            // `layer` tests the topmost active layer, `base-layer` the default layer
            && spec_decode(final(ops)@[old(ops)@.len() as int].0, Some(final(ops)@[old(ops)@.len() as int + 1]))
                == (if op is Layer { OpCodeType::Layer(layer_of(l@[1], *s)) } else { OpCodeType::BaseLayer(layer_of(l@[1], *s)) }),

// the six leaf keywords of the dispatch closure: each name selects its own arm
//@ strtable-variants parser/src/cfg/switch.rs parse_switch_case_bool parser/src/cfg/switch.rs AllowedListOps key-history|key-timing|input|input-history|layer|base-layer leaf_kw_table
//@ raw
proof fn a8_leaf_names_select_their_arm()
    ensures
        // names sorted: base-layer, input, input-history, key-history, key-timing, layer
        leaf_kw_table().len() == 6,
        leaf_kw_table()[0] is BaseLayer, leaf_kw_table()[1] is Input, leaf_kw_table()[2] is InputHistory,
        leaf_kw_table()[3] is KeyHistory, leaf_kw_table()[4] is KeyTiming, leaf_kw_table()[5] is Layer,
{
}

// the key-type names (a string match outside Verus): the table is READ from the arms of both
// leaf forms, sorted by (name, variant); `fake` is the legacy name of `virtual`
//@ strtable-variants parser/src/cfg/switch.rs parse_switch_case_bool parser/src/cfg/switch.rs InputType real|fake|virtual keytype_table
//@ raw
proof fn a7_key_type_names()
    ensures
        keytype_table().len() == 6,
        keytype_table()[0] is Virtual && keytype_table()[1] is Virtual,   // fake, fake
        keytype_table()[2] is Real && keytype_table()[3] is Real,         // real, real
        keytype_table()[4] is Virtual && keytype_table()[5] is Virtual,   // virtual, virtual
{
}

// the keyword dispatch (a closure over string literals, outside Verus): its table is READ from
// the match arms `"or" => Some(AllowedListOps::Or)` .. and the obligation is that each of the three
// operator names denotes its own operator
//@ strtable-variants parser/src/cfg/switch.rs parse_switch_case_bool parser/src/cfg/switch.rs AllowedListOps or|and|not kw_table
//@ raw
proof fn a6_operator_names_denote_their_operator()
    ensures
        // names sorted: and, not, or
        kw_table().len() == 3,
        opk(kw_table()[0]) == And && kw_table()[0] is And,
        opk(kw_table()[1]) == Not && kw_table()[1] is Not,
        opk(kw_table()[2]) == Or && kw_table()[2] is Or,
{
}

// =========================================================================================
// A9: the TOP LEVEL of the compiler, parse_switch (parser/src/cfg/switch.rs), up to (not including)
// its final allocation `Ok(s.a.sref(Action::Switch(..)))` (FRAGMENT, head-until): the parameters are
// taken three at a time, in order; each triple becomes ONE case, in the written order, whose
// opcodes are the concatenation of what parse_switch_case_bool emits for the elements of the
// <key match> list (its contract `compiles` is the stub's - A6/A7 prove the arms against it), whose
// action is what parse_action returns for the second element and whose break/fallthrough is what
// the third element says.
// =========================================================================================
//@ raw
/// R32: `ac_params.iter()` (an explicit iterator driven by `.next()`) -> this stub: yields the
/// elements front to back (ASSUMED contract of slice::Iter::next)
#[verifier::external_body]
pub struct VerifParams<'a> { p: core::marker::PhantomData<&'a SExpr> }
impl<'a> VerifParams<'a> {
    pub uninterp spec fn rest(&self) -> Seq<SExpr>;
    #[verifier::external_body]
    pub fn next(&mut self) -> (r: Option<&'a SExpr>)
        ensures
            old(self).rest().len() == 0 ==> r is None && final(self).rest() == old(self).rest(),
            old(self).rest().len() > 0 ==> r == Some(&old(self).rest()[0]) && final(self).rest() == old(self).rest().drop_first(),
    { unimplemented!() }
}
#[verifier::external_body]
fn verif_params<'a>(l: &'a [SExpr]) -> (r: VerifParams<'a>) ensures r.rest() == l@ { unimplemented!() }
/// the action type: opaque here
#[verifier::external_body]
pub struct KanataAction { verif_opaque: u8 }
uninterp spec fn list_of(e: SExpr, s: ParserState) -> Option<Seq<SExpr>>;
uninterp spec fn action_of(e: SExpr, s: ParserState) -> &'static KanataAction;
uninterp spec fn bof_word(e: SExpr, s: ParserState) -> Option<VerifBofWord>;
/// synthetic enum for the third element of a triple (R40: the string patterns `"break"` /
/// `"fallthrough"` / `_` become its variants, 1:1)
enum VerifBofWord { Break, Fallthrough, Other }
/// R39: `key_match.list(s.vars())` -> this call (reading the configuration is outside)
#[verifier::external_body]
fn verif_list<'a>(e: &'a SExpr, s: &ParserState) -> (r: Option<&'a [SExpr]>)
    ensures r is Some <==> list_of(*e, *s) is Some, r matches Some(l) ==> l@ == list_of(*e, *s)->0,
{ unimplemented!() }
/// R39: `break_or_fallthrough_expr.atom(s.vars())` followed by the string match -> this call
#[verifier::external_body]
fn verif_bof_word(e: &SExpr, s: &ParserState) -> (r: Option<VerifBofWord>)
    ensures r == bof_word(*e, *s),
{ unimplemented!() }
/// ASSUMED contract of parse_action (the whole action parser): some action, a function of the text
#[verifier::external_body]
fn parse_action(e: &SExpr, s: &ParserState) -> (r: Result<&'static KanataAction>)
    ensures r matches Ok(a) ==> a == action_of(*e, *s),
{ unimplemented!() }
/// R3: `s.a.sref_vec(ops)` (bump allocation of the finished opcode list) -> this helper: same words
#[verifier::external_body]
fn verif_sref_vec(ops: Vec<OpCode>) -> (r: &'static [OpCode]) ensures r@ == ops@ { unimplemented!() }
/// the recursive compiler as the top level sees it: the contract `compiles` (A6)
#[verifier::external_body]
fn parse_switch_case_bool_top(depth: u8, op_expr: &SExpr, ops: &mut Vec<OpCode>, s: &ParserState) -> (r: Result<()>)
    ensures r is Ok ==> compiles(*op_expr, depth, old(ops)@, final(ops)@) && final(ops)@.len() <= 0x0FFF,
{ unimplemented!() }

/// what one written triple must become
spec fn triple_ok(c: (&'static [OpCode], &'static KanataAction, BreakOrFallthrough), km: SExpr, ac: SExpr, bf: SExpr, s: ParserState) -> bool {
    &&& list_of(km, s) is Some
    &&& c.0@ == lenc(trees(list_of(km, s)->0), 0)
    // nesting stays within what the evaluator's operator stack takes (it is entered at depth 1)
    &&& plwf(trees(list_of(km, s)->0), 8)
    &&& c.1 == action_of(ac, s)
    &&& bof_word(bf, s) == Some(VerifBofWord::Break) ==> c.2 is Break
    &&& bof_word(bf, s) == Some(VerifBofWord::Fallthrough) ==> c.2 is Fallthrough
    &&& bof_word(bf, s) == Some(VerifBofWord::Break) || bof_word(bf, s) == Some(VerifBofWord::Fallthrough)
}

//@ fragment parser/src/cfg/switch.rs fn parse_switch head-until `Ok(s.a.sref(Action::Switch(` as parse_switch_cases
//@@ header
#[verifier::loop_isolation(false)]
#[verifier::allow_complex_invariants]
fn parse_switch_cases(ac_params: &[SExpr], s: &ParserState) -> Result<Vec<(&'static [OpCode], &'static KanataAction, BreakOrFallthrough)>>
//@@ tail
    Ok(cases)
//@@ macro-stmt R13 bail_expr => `return Err(verif_bail());`
//@@ macro-stmt R13 bail => `return Err(verif_bail());`
//@@ resub R32 1 /ac_params\.iter\(\)/ => `verif_params(ac_params)`
//@@ resub R39 1 /key_match\.list\(s\.vars\(\)\)/ => `verif_list(key_match, s)`
//@@ resub R10 1 /for op in key_match\.iter\(\)/ => `for op in it: key_match.iter()`
//@@ resub R11 1 /parse_switch_case_bool\(/ => `parse_switch_case_bool_top(`
//@@ resub R39 1 /let Some\(break_or_fallthrough\) = break_or_fallthrough_expr\.atom\(s\.vars\(\)\) else \{/ => `let Some(break_or_fallthrough) = verif_bof_word(break_or_fallthrough_expr, s) else {`
//@@ resub R40 1 /"break" =>/ => `VerifBofWord::Break =>`
//@@ resub R40 1 /"fallthrough" =>/ => `VerifBofWord::Fallthrough =>`
//@@ resub R40 1 /_ => return Err\(verif_bail\(\)\);?,?/ => `VerifBofWord::Other => { return Err(verif_bail()); }`
//@@ resub R3 1 /s\.a\.sref_vec\(ops\)/ => `verif_sref_vec(ops)`
//@@ resub R4 1 /const ERR_STR: &str =\s*"[^"]*";/ => ``
//@@ ret r
//@@ spec
    ensures
        r matches Ok(cases) ==> {
            // triples, nothing left over; one case per triple, in the written order
            &&& ac_params@.len() == 3 * cases@.len()
            &&& forall|k: int| 0 <= k < cases@.len() ==> triple_ok(#[trigger] cases@[k], ac_params@[3 * k], ac_params@[3 * k + 1], ac_params@[3 * k + 2], *s)
        },
//@@ loop 1
        invariant
            params.rest() == ac_params@.subrange(3 * cases@.len() as int, ac_params@.len() as int),
            3 * cases@.len() <= ac_params@.len(),
            forall|k: int| 0 <= k < cases@.len() ==> triple_ok(#[trigger] cases@[k], ac_params@[3 * k], ac_params@[3 * k + 1], ac_params@[3 * k + 2], *s),
        ensures
            ac_params@.len() == 3 * cases@.len(),
            forall|k: int| 0 <= k < cases@.len() ==> triple_ok(#[trigger] cases@[k], ac_params@[3 * k], ac_params@[3 * k + 1], ac_params@[3 * k + 2], *s),
        decreases params.rest().len(),
//@@ before-re 1 /let Some\(key_match\) = verif_list\(/
    let ghost k = cases@.len() as int;
    proof {
        let n = ac_params@.len() as int;
        assert(ac_params@.subrange(3 * k, n).drop_first() =~= ac_params@.subrange(3 * k + 1, n));
        assert(ac_params@.subrange(3 * k + 1, n).drop_first() =~= ac_params@.subrange(3 * k + 2, n));
        assert(ac_params@.subrange(3 * k + 2, n).drop_first() =~= ac_params@.subrange(3 * k + 3, n));
        assert(*key_match == ac_params@[3 * k] && *action == ac_params@[3 * k + 1] && *break_or_fallthrough_expr == ac_params@[3 * k + 2]);
    }
//@@ before-re 1 /for op in it: key_match\.iter\(\)/
    let ghost km = key_match@;
//@@ loop 2
        invariant
            it.seq().len() == km.len(),
            forall|j: int| 0 <= j < km.len() ==> *it.seq()[j] == km[j],
            ops@ == lenc(trees(km.subrange(0, it.index@ as int)), 0),
            ops@.len() == lsize(trees(km.subrange(0, it.index@ as int))),
            plwf(trees(km.subrange(0, it.index@ as int)), 8),
//@@ before-re 1 /parse_switch_case_bool_top\(/
    let ghost before = ops@;
//@@ after-re 1 /parse_switch_case_bool_top\([^;]*\)\?;/
    proof {
        let pre = km.subrange(0, it.index@ as int + 1);
        lemma_lenc_snoc(pre, 0);
        assert(pre.drop_last() =~= km.subrange(0, it.index@ as int));
        assert(pre.last() == km[it.index@ as int]);
        lemma_sizes(tree(*op), before.len() as int);
        lemma_plwf_snoc(pre, 8);
    }
//@@ before-re 1 /let action = parse_action\(/
    proof { assert(km.subrange(0, km.len() as int) =~= km); }
//@@ after-re 1 /cases\.push\(\([^;]*\)\);/
    proof {
        let n = ac_params@.len() as int;
        assert(cases@.len() == k + 1);
        assert(params.rest() =~= ac_params@.subrange(3 * (k + 1), n));
    }
