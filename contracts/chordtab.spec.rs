//@ unit chordtab
// Side-car contracts for the v1 chord table lookups ChordsGroup::{get_keys, get_chord}
// (keyberon/src/action.rs), property C09: "that chord's action is performed ... for exactly the
// pressed key set".  Unbounded counterparts of the bounded Kani harnesses c09_b_get_keys /
// c09_b_get_chord (tables of <= 3 entries).  Cut whole; `.iter()` on the two table slices is
// redirected to a stub iterator (ASSUMED: yields the entries front to back; find / map have their
// std meaning for pure closures); the closures are annotated from their own text (R12).

//@ raw
#[verifier::external_body]
#[verifier::reject_recursive_types(T)]
pub struct Action<'a, T> { p: core::marker::PhantomData<&'a T> }
//@ item keyberon/src/action.rs type ChordKeys
//@ item keyberon/src/action.rs struct ChordsGroup
//@@ keep-vis
//@@ no-derives
//@@ attr #[verifier::reject_recursive_types(T)]

//@ raw
/// R32: `xs.iter()` on a table slice -> this stub iterator
#[verifier::external_body]
#[verifier::reject_recursive_types(E)]
pub struct TIter<'t, E> { p: core::marker::PhantomData<&'t E> }
#[verifier::external_body]
fn verif_iter<'t, E>(xs: &'t [E]) -> (r: TIter<'t, E>)
    ensures r.rest() == xs@,
{ unimplemented!() }
impl<'t, E> TIter<'t, E> {
    pub uninterp spec fn rest(&self) -> Seq<E>;
    /// Iterator::find with a PURE predicate: d[i] is its answer for the i-th entry; the result is the
    /// first entry for which it is true
    #[verifier::external_body]
    pub fn find<F: Fn(&&E) -> bool>(self, f: F) -> (r: Option<&'t E>)
        requires forall|x: &&E| f.requires((x,)),
        ensures exists|d: Seq<bool>| #![trigger d.len()] d.len() == self.rest().len()
            && (forall|i: int| #![trigger d[i]] #![trigger self.rest()[i]] 0 <= i < d.len() ==> f.ensures((&&self.rest()[i],), d[i]))
            && (r matches Some(e) ==> exists|i: int| 0 <= i < d.len() && #[trigger] d[i] && *e == self.rest()[i] && forall|k: int| 0 <= k < i ==> !#[trigger] d[k])
            && (r.is_none() ==> forall|k: int| 0 <= k < d.len() ==> !#[trigger] d[k]),
    { unimplemented!() }
}

/// index of the first table entry whose key satisfies the lookup, or -1
spec fn first_coord(t: Seq<((u8, u16), ChordKeys)>, c: (u8, u16), n: int) -> int
    decreases n,
{
    if n <= 0 { -1 } else if first_coord(t, c, n - 1) >= 0 { first_coord(t, c, n - 1) } else if t[n - 1].0 == c { n - 1 } else { -1 }
}
spec fn first_chord<'a, T>(t: Seq<(ChordKeys, &'a Action<'a, T>)>, k: ChordKeys, n: int) -> int
    decreases n,
{
    if n <= 0 { -1 } else if first_chord(t, k, n - 1) >= 0 { first_chord(t, k, n - 1) } else if t[n - 1].0 == k { n - 1 } else { -1 }
}
proof fn lemma_first_coord(t: Seq<((u8, u16), ChordKeys)>, c: (u8, u16), n: int)
    requires 0 <= n <= t.len(),
    ensures ({
        let k = first_coord(t, c, n);
        &&& -1 <= k < n
        &&& k >= 0 ==> t[k].0 == c && forall|j: int| 0 <= j < k ==> (#[trigger] t[j]).0 != c
        &&& k < 0 ==> forall|j: int| 0 <= j < n ==> (#[trigger] t[j]).0 != c
    }),
    decreases n,
{ if n > 0 { lemma_first_coord(t, c, n - 1); } }
proof fn lemma_first_chord<'a, T>(t: Seq<(ChordKeys, &'a Action<'a, T>)>, k: ChordKeys, n: int)
    requires 0 <= n <= t.len(),
    ensures ({
        let i = first_chord(t, k, n);
        &&& -1 <= i < n
        &&& i >= 0 ==> t[i].0 == k && forall|j: int| 0 <= j < i ==> (#[trigger] t[j]).0 != k
        &&& i < 0 ==> forall|j: int| 0 <= j < n ==> (#[trigger] t[j]).0 != k
    }),
    decreases n,
{ if n > 0 { lemma_first_chord(t, k, n - 1); } }

//@ item keyberon/src/action.rs fn get_keys in `ChordsGroup<'a, T>`
//@@ wrap impl<'a, T> ChordsGroup<'a, T>
//@@ resub R32 1 /self\.coords\s*\.iter\(\)/ => `verif_iter(self.coords)`
//@@ resub R12 1 /\.find\(\|c\| ([^{};]*?)\)\.map/ => `.find(|c: &&((u8, u16), ChordKeys)| -> (b: bool) ensures b == (\1) { \1 }).map`
//@@ resub R12 1 /\.map\(\|c\| ([^{};]*?)\)\s*\}/ => `.map(|c: &((u8, u16), ChordKeys)| -> (v: ChordKeys) ensures v == (\1) { \1 }) }`
//@@ ret r
//@@ spec
    ensures
        // the chord-key bit(s) of the FIRST table entry for this coordinate; None iff the coordinate
        // does not take part in the group
        r == (if first_coord(self.coords@, coord, self.coords@.len() as int) >= 0 { Some(self.coords@[first_coord(self.coords@, coord, self.coords@.len() as int)].1) } else { None }),
//@@ before 1 `verif_iter(self.coords)`
    proof { lemma_first_coord(self.coords@, coord, self.coords@.len() as int); }

//@ item keyberon/src/action.rs fn get_chord in `ChordsGroup<'a, T>`
//@@ wrap impl<'a, T> ChordsGroup<'a, T>
//@@ resub R32 1 /self\.chords\s*\.iter\(\)/ => `verif_iter(self.chords)`
//@@ resub R12 1 /\.find\(\|\(chord_keys, _\)\| ([^{};]*?)\)\s*\.map/ => `.find(|e: &&(ChordKeys, &'a Action<'a, T>)| -> (b: bool) ensures b == ({ let (chord_keys, _) = *e; \1 }) { let (chord_keys, _) = *e; \1 }).map`
//@@ resub R12 1 /\.map\(\|\(_, action\)\| ([^{};]*?)\)\s*\}/ => `.map(|e: &(ChordKeys, &'a Action<'a, T>)| -> (v: &'a Action<'a, T>) ensures v == ({ let (_, action) = e; \1 }) { let (_, action) = e; \1 }) }`
//@@ ret r
//@@ spec
    ensures
        // EXACT-SET match: the action of the first chord whose key set equals the pressed set; None
        // iff no chord is defined for exactly this set
        r == (if first_chord(self.chords@, keys, self.chords@.len() as int) >= 0 { Some(self.chords@[first_chord(self.chords@, keys, self.chords@.len() as int)].1) } else { None }),
//@@ before 1 `verif_iter(self.chords)`
    proof { lemma_first_chord(self.chords@, keys, self.chords@.len() as int); }

// ---------------------------------------------------------------------------------------
// get_chord_if_unambiguous: the early trigger - the chord for exactly the pressed set, but only if
// no defined chord strictly contains the pressed set (no further key could still change the outcome)
// ---------------------------------------------------------------------------------------
//@ raw
/// Iterator::try_fold with a PURE step function: the accumulator after the first n entries, or the
/// early exit.  acc[i] is the accumulator before entry i.
impl<'t, E> TIter<'t, E> {
    #[verifier::external_body]
    pub fn try_fold<A, X, F: Fn(A, &E) -> Result<A, X>>(self, init: A, f: F) -> (r: Result<A, X>)
        requires forall|a: A, x: &E| f.requires((a, x)),
        ensures exists|acc: Seq<A>| #![trigger acc.len()] acc.len() >= 1 && acc.len() <= self.rest().len() + 1 && acc[0] == init
            // every step before the last visited entry continued with Ok(next accumulator)
            && (forall|i: int| #![trigger acc[i]] 0 <= i < acc.len() - 1 ==> f.ensures((acc[i], &self.rest()[i]), Result::<A, X>::Ok(acc[i + 1])))
            // either every entry was folded ..
            && (r matches Ok(a) ==> acc.len() == self.rest().len() + 1 && a == acc.last())
            // .. or the step at the first unfolded entry said Err
            && (r matches Err(x) ==> acc.len() <= self.rest().len() && f.ensures((acc.last(), &self.rest()[acc.len() - 1]), Result::<A, X>::Err(x))),
    { unimplemented!() }
}
/// Result::unwrap_or_default and Option's Default (None): ASSUMED std contracts
pub uninterp spec fn dflt<V>() -> V;
pub assume_specification<V: core::default::Default, X> [core::result::Result::<V, X>::unwrap_or_default] (r: core::result::Result<V, X>) -> (v: V)
    ensures match r { Ok(x) => v == x, Err(_) => v == dflt::<V>() };
#[verifier::external_body]
proof fn axiom_option_default<V>()
    ensures dflt::<Option<V>>() == None::<V>,
{ unimplemented!() }
/// a defined chord strictly contains the pressed set: it has every pressed key and is not the set itself
spec fn ambiguous_before<'a, T>(t: Seq<(ChordKeys, &'a Action<'a, T>)>, k: ChordKeys, n: int) -> bool {
    exists|i: int| 0 <= i < n && (#[trigger] t[i]).0 != k && (t[i].0 | k) == t[i].0
}
/// the action of the LAST chord among the first n whose key set equals the pressed set
spec fn last_exact<'a, T>(t: Seq<(ChordKeys, &'a Action<'a, T>)>, k: ChordKeys, n: int) -> Option<&'a Action<'a, T>>
    decreases n,
{
    if n <= 0 { None } else if t[n - 1].0 == k { Some(t[n - 1].1) } else { last_exact(t, k, n - 1) }
}

/// one step of the scan, from the statement: an exact match is remembered; a strictly larger chord
/// stops the scan; anything else is skipped
spec fn scan_step<'a, T>(res: Option<&'a Action<'a, T>>, e: (ChordKeys, &'a Action<'a, T>), k: ChordKeys) -> Result<Option<&'a Action<'a, T>>, ()> {
    if e.0 == k { Ok(Some(e.1)) } else if (e.0 | k) == e.0 { Err(()) } else { Ok(res) }
}
proof fn lemma_scan<'a, T>(t: Seq<(ChordKeys, &'a Action<'a, T>)>, k: ChordKeys, acc: Seq<Option<&'a Action<'a, T>>>, n: int)
    requires 0 <= n < acc.len(), n <= t.len(), acc[0] == None::<&'a Action<'a, T>>,
        forall|i: int| 0 <= i < n ==> scan_step(#[trigger] acc[i], t[i], k) == Result::<Option<&'a Action<'a, T>>, ()>::Ok(acc[i + 1]),
    ensures acc[n] == last_exact(t, k, n), !ambiguous_before(t, k, n),
    decreases n,
{
    if n > 0 {
        lemma_scan(t, k, acc, n - 1);
        assert(scan_step(acc[n - 1], t[n - 1], k) == Result::<Option<&'a Action<'a, T>>, ()>::Ok(acc[n]));
    }
}
proof fn lemma_all_scans<'a, T>(t: Seq<(ChordKeys, &'a Action<'a, T>)>, k: ChordKeys)
    ensures forall|acc: Seq<Option<&'a Action<'a, T>>>| #![trigger acc.len()] (acc.len() >= 1 && acc.len() <= t.len() + 1 && acc[0] == None::<&'a Action<'a, T>>
            && (forall|i: int| 0 <= i < acc.len() - 1 ==> scan_step(#[trigger] acc[i], t[i], k) == Result::<Option<&'a Action<'a, T>>, ()>::Ok(acc[i + 1])))
        ==> acc.last() == last_exact(t, k, acc.len() - 1) && !ambiguous_before(t, k, acc.len() - 1),
{
    assert forall|acc: Seq<Option<&'a Action<'a, T>>>| #![trigger acc.len()] (acc.len() >= 1 && acc.len() <= t.len() + 1 && acc[0] == None::<&'a Action<'a, T>>
            && (forall|i: int| 0 <= i < acc.len() - 1 ==> scan_step(#[trigger] acc[i], t[i], k) == Result::<Option<&'a Action<'a, T>>, ()>::Ok(acc[i + 1])))
        implies acc.last() == last_exact(t, k, acc.len() - 1) && !ambiguous_before(t, k, acc.len() - 1) by {
        lemma_scan(t, k, acc, acc.len() - 1);
    }
}

//@ item keyberon/src/action.rs fn get_chord_if_unambiguous in `ChordsGroup<'a, T>`
//@@ wrap impl<'a, T> ChordsGroup<'a, T>
//@@ resub R32 1 /self\.chords\s*\.iter\(\)/ => `verif_iter(self.chords)`
//@@ resub R12 1 /\.try_fold\(None, \|res, &\(chord_keys, action\)\| (\{.*?\})\)\s*\.unwrap_or_default\(\)/ => `.try_fold(None, |res: Option<&'a Action<'a, T>>, e: &(ChordKeys, &'a Action<'a, T>)| -> (o: Result<Option<&'a Action<'a, T>>, ()>) ensures o == ({ let (chord_keys, action) = *e; \1 }) { let (chord_keys, action) = *e; \1 }).unwrap_or_default()`
//@@ ret r
//@@ spec
    ensures
        // ambiguous (a strictly larger chord is defined): nothing yet
        ambiguous_before(self.chords@, keys, self.chords@.len() as int) ==> r.is_none(),
        // unambiguous: the chord for exactly this set, if one is defined
        !ambiguous_before(self.chords@, keys, self.chords@.len() as int) ==> r == last_exact(self.chords@, keys, self.chords@.len() as int),
//@@ before 1 `verif_iter(self.chords)`
    proof {
        lemma_all_scans(self.chords@, keys);
        axiom_option_default::<&'a Action<'a, T>>();
    }

// ---------------------------------------------------------------------------------------
// chords v2: what an activated chord starts out as (get_active_chord, keyberon/src/chord.rs, cut
// whole) - the unbounded counterpart of the bounded harness c09_b_get_active_chord.  "it is released
// per the configured release rule": with release-on-first-release a chord whose release was already
// seen while it was still being collected starts out as already released; with
// release-on-last-release every participant has to be released.
// ---------------------------------------------------------------------------------------
//@ item keyberon/src/chord.rs enum ReleaseBehaviour
//@@ keep-vis
//@ item keyberon/src/chord.rs struct ChordV2
//@@ keep-vis
//@@ no-derives
//@@ attr #[verifier::reject_recursive_types(T)]
//@ item keyberon/src/chord.rs const SMOL_Q_LEN
//@ item keyberon/src/key_code.rs const KEY_MAX
//@ raw
/// heapless::Vec<u16, N>: a stub with the ASSUMED contract of new() and of extend() from a copied
/// slice (R19); extend PANICS past the capacity - that is the precondition
#[verifier::external_body]
#[verifier::reject_recursive_types(T)]
pub struct HVec<T, const N: usize> { v: std::vec::Vec<T> }
impl<T, const N: usize> HVec<T, N> {
    pub uninterp spec fn view(&self) -> Seq<T>;
    #[verifier::external_body]
    pub fn new() -> (r: Self) ensures r@.len() == 0 { unimplemented!() }
}
#[verifier::external_body]
fn verif_extend_copied<T: Copy, const N: usize>(v: &mut HVec<T, N>, s: &[T])
    requires old(v)@.len() + s@.len() <= N,
    ensures final(v)@ == old(v)@ + s@,
{ unimplemented!() }
//@ item keyberon/src/chord.rs struct ActiveChord
//@@ no-derives
//@@ attr #[verifier::reject_recursive_types(T)]
//@ item keyberon/src/chord.rs enum ActiveChordStatus
//@ item keyberon/src/chord.rs fn get_active_chord
//@@ resub R19 1 /remaining_keys_to_release\.extend\(cch\.participating_keys\.iter\(\)\.copied\(\)\);/ => `verif_extend_copied(&mut remaining_keys_to_release, cch.participating_keys);`
//@@ ret r
//@@ spec
    requires
        // OBSERVATION: heapless extend panics for a chord with more than 16 participants; the
        // parser's limit on chord size is not under contract
        cch.participating_keys@.len() <= 16,
    ensures
        r.coordinate == coord, r.delay == since, r.action == cch.action, r.participating_keys@ == cch.participating_keys@,
        // release-on-last-release: every participant has to be released; otherwise nothing to wait for
        r.remaining_keys_to_release@ == (if cch.release_behaviour == ReleaseBehaviour::OnLastRelease { cch.participating_keys@ } else { Seq::<u16>::empty() }),
        // already released while being collected, under release-on-first-release: starts out released
        r.status == (if release_found && cch.release_behaviour == ReleaseBehaviour::OnFirstRelease { ActiveChordStatus::UnreadReleased } else { ActiveChordStatus::Unread }),

// ---------------------------------------------------------------------------------------
// chords v2, three closure BODIES (late): cut as fragments of ChordsV2::drain_releases /
// process_presses and wrapped in synthetic signatures with their captures as parameters.  The
// iteration around them (ArrayDeque::retain, iter_mut().for_each, filter().find()) is std and stays
// assumed; what one call of each closure does is proved.
// ---------------------------------------------------------------------------------------
//@ raw
use ActiveChordStatus::*;
// slices of structural-equality types: `contains` is membership (ASSUMED std contract)
pub assume_specification<T: PartialEq> [<[T]>::contains] (s: &[T], x: &T) -> (r: bool)
    ensures r == s@.contains(*x);
/// the elements retain() keeps, given the decisions its predicate returned one by one
pub open spec fn pick<T>(s: Seq<T>, d: Seq<bool>) -> Seq<T>
    decreases s.len(),
{
    if s.len() == 0 || d.len() != s.len() { Seq::empty() }
    else if d.last() { pick(s.drop_last(), d.drop_last()).push(s.last()) }
    else { pick(s.drop_last(), d.drop_last()) }
}
impl<T, const N: usize> HVec<T, N> {
    /// heapless retain (ASSUMED): the predicate is called once on each element, front to back, and
    /// the elements it answered true for are kept
    #[verifier::external_body]
    pub fn retain<F: FnMut(&T) -> bool>(&mut self, f: F)
        requires forall|x: &T| f.requires((x,)),
        ensures exists|d: Seq<bool>| #![trigger d.len()] d.len() == old(self)@.len()
            && (forall|i: int| #![trigger d[i]] 0 <= i < d.len() ==> f.ensures((&old(self)@[i],), d[i]))
            && final(self)@ == pick(old(self)@, d),
    { unimplemented!() }
    #[verifier::external_body]
    pub fn is_empty(&self) -> (r: bool) ensures r == (self@.len() == 0) { unimplemented!() }
}
proof fn lemma_pick_ne(s: Seq<u16>, d: Seq<bool>, x: u16)
    requires d.len() == s.len(), forall|i: int| 0 <= i < s.len() ==> d[i] == (s[i] != x),
    ensures pick(s, d) == s.filter(|k: u16| k != x),
    decreases s.len(),
{
    reveal(Seq::filter);
    if s.len() > 0 { lemma_pick_ne(s.drop_last(), d.drop_last(), x); }
}
/// the status of a chord once its release rule is satisfied
spec fn released_form(s: ActiveChordStatus) -> ActiveChordStatus {
    match s { ActiveChordStatus::Unread | ActiveChordStatus::UnreadReleased => ActiveChordStatus::UnreadReleased, _ => ActiveChordStatus::Released }
}

// (1) one active chord sees the release of key j (the for_each closure in drain_releases): a key
// that does not take part changes nothing; a participant is struck off the keys still to be
// released, and the chord counts as released exactly when none is left - "no later than the release
// of all participants" (for release-on-first-release the list starts empty: get_active_chord above)
//@ fragment keyberon/src/chord.rs fn drain_releases in `ChordsV2<'a, T>` block-after `achs.iter_mut().for_each(|ach| {` as release_in_active_chord
//@@ header
fn release_in_active_chord<'a, T>(ach: &mut ActiveChord<'a, T>, j: u16)
//@@ resub R12 1 /\.retain\(\|pk\| (\*pk != j)\)/ => `.retain(|pk: &u16| -> (b: bool) ensures b == (\1) { \1 })`
//@@ spec
    ensures
        final(ach).coordinate == old(ach).coordinate, final(ach).participating_keys@ == old(ach).participating_keys@,
        final(ach).action == old(ach).action, final(ach).delay == old(ach).delay,
        !old(ach).participating_keys@.contains(j) ==> final(ach).remaining_keys_to_release@ == old(ach).remaining_keys_to_release@ && final(ach).status == old(ach).status,
        old(ach).participating_keys@.contains(j) ==> {
            let rest = old(ach).remaining_keys_to_release@.filter(|k: u16| k != j);
            &&& final(ach).remaining_keys_to_release@ == rest
            &&& final(ach).status == (if rest.len() == 0 { released_form(old(ach).status) } else { old(ach).status })
        },
//@@ after-re 1 /\.retain\(\|pk: &u16\|[^;]*\);/
    proof {
        let s = old(ach).remaining_keys_to_release@;
        let d = choose|d: Seq<bool>| #![trigger d.len()] d.len() == s.len()
            && (forall|i: int| #![trigger d[i]] 0 <= i < d.len() ==> d[i] == (s[i] != j))
            && ach.remaining_keys_to_release@ == pick(s, d);
        lemma_pick_ne(s, d, j);
    }

// (2) "that chord's action is performed ... for exactly the pressed key set": the predicate handed
// to find() when backtracking in process_presses accepts a chord iff its participants and the
// accumulated presses are the SAME set (both inclusions)
//@ raw
/// R48: `xs.iter().all(|v| ys.contains(v))` -> these helpers (ASSUMED std meaning: every element of
/// xs is an element of ys)
#[verifier::external_body]
fn verif_hv_in_slice<const N: usize>(xs: &HVec<u16, N>, ys: &[u16]) -> (r: bool)
    ensures r == (forall|i: int| 0 <= i < xs@.len() ==> ys@.contains(#[trigger] xs@[i])),
{ unimplemented!() }
#[verifier::external_body]
fn verif_slice_in_hv<const N: usize>(xs: &[u16], ys: &HVec<u16, N>) -> (r: bool)
    ensures r == (forall|i: int| 0 <= i < xs@.len() ==> ys@.contains(#[trigger] xs@[i])),
{ unimplemented!() }
//@ fragment keyberon/src/chord.rs fn process_presses in `ChordsV2<'a, T>` block-after `re:let completed_chord = possible_chords[\s\S]*?\.find\([\s\S]*?\|pch\|\s*\{` as chord_is_exactly_the_pressed_set
//@@ header
fn chord_is_exactly_the_pressed_set<'a, T>(pch: &&ChordV2<'a, T>, accumulated_presses: &HVec<u16, SMOL_Q_LEN>) -> bool
//@@ resub R48 * /accumulated_presses\s*\.iter\(\)\s*\.all\(\|acp\| pch\.participating_keys\.contains\(acp\)\)/ => `verif_hv_in_slice(accumulated_presses, pch.participating_keys)`
//@@ resub R48 * /pch\s*\.participating_keys\s*\.iter\(\)\s*\.all\(\|pk\| accumulated_presses\.contains\(pk\)\)/ => `verif_slice_in_hv(pch.participating_keys, accumulated_presses)`
//@@ ret r
//@@ spec
    ensures
        r == ((forall|i: int| 0 <= i < accumulated_presses@.len() ==> pch.participating_keys@.contains(#[trigger] accumulated_presses@[i]))
            && (forall|i: int| 0 <= i < pch.participating_keys@.len() ==> accumulated_presses@.contains(#[trigger] pch.participating_keys@[i]))),
//@ fragment keyberon/src/chord.rs fn process_presses in `ChordsV2<'a, T>` block-after `re:chord_candidates\.is_full\(\) \{[\s\S]*?\.find\([\s\S]*?\|pch\|\s*\{` as chord_is_exactly_the_pressed_set_2
//@@ header
fn chord_is_exactly_the_pressed_set_2<'a, T>(pch: &&ChordV2<'a, T>, accumulated_presses: &HVec<u16, SMOL_Q_LEN>) -> bool
//@@ resub R48 * /accumulated_presses\s*\.iter\(\)\s*\.all\(\|acp\| pch\.participating_keys\.contains\(acp\)\)/ => `verif_hv_in_slice(accumulated_presses, pch.participating_keys)`
//@@ resub R48 * /pch\s*\.participating_keys\s*\.iter\(\)\s*\.all\(\|pk\| accumulated_presses\.contains\(pk\)\)/ => `verif_slice_in_hv(pch.participating_keys, accumulated_presses)`
//@@ ret r
//@@ spec
    ensures
        r == ((forall|i: int| 0 <= i < accumulated_presses@.len() ==> pch.participating_keys@.contains(#[trigger] accumulated_presses@[i]))
            && (forall|i: int| 0 <= i < pch.participating_keys@.len() ==> accumulated_presses@.contains(#[trigger] pch.participating_keys@[i]))),
//@ fragment keyberon/src/chord.rs fn process_presses in `ChordsV2<'a, T>` block-after `re:\} else \{\s*chord_candidates\s*\.iter\(\)[\s\S]*?\.find\([\s\S]*?\|pch\|\s*\{` as chord_is_exactly_the_pressed_set_3
//@@ header
fn chord_is_exactly_the_pressed_set_3<'a, T>(pch: &&ChordV2<'a, T>, accumulated_presses: &HVec<u16, SMOL_Q_LEN>) -> bool
//@@ resub R48 * /accumulated_presses\s*\.iter\(\)\s*\.all\(\|acp\| pch\.participating_keys\.contains\(acp\)\)/ => `verif_hv_in_slice(accumulated_presses, pch.participating_keys)`
//@@ resub R48 * /pch\s*\.participating_keys\s*\.iter\(\)\s*\.all\(\|pk\| accumulated_presses\.contains\(pk\)\)/ => `verif_slice_in_hv(pch.participating_keys, accumulated_presses)`
//@@ ret r
//@@ spec
    ensures
        r == ((forall|i: int| 0 <= i < accumulated_presses@.len() ==> pch.participating_keys@.contains(#[trigger] accumulated_presses@[i]))
            && (forall|i: int| 0 <= i < pch.participating_keys@.len() ==> accumulated_presses@.contains(#[trigger] pch.participating_keys@[i]))),

// (3) "none of the participating keys' individual actions are [performed]" / "keys that do not
// complete a chord are not swallowed": after a chord fired, exactly the queued PRESSES of the keys
// that went into it are removed from the input queue; every other queued event stays, in order
// (the last statement of process_presses, a FRAGMENT, stmt-at)
//@ item keyberon/src/layout.rs enum Event
//@@ keep-vis
//@ item keyberon/src/layout.rs struct Queued
//@@ keep-vis
//@@ no-derives
//@ raw
/// the chords-v2 input queue (an ArrayDeque): stub with the ASSUMED contract of retain
#[verifier::external_body]
pub struct VQueue { verif_opaque: u8 }
impl VQueue {
    pub uninterp spec fn view(&self) -> Seq<Queued>;
    #[verifier::external_body]
    pub fn retain<F: FnMut(&Queued) -> bool>(&mut self, f: F)
        requires forall|x: &Queued| f.requires((x,)),
        ensures exists|d: Seq<bool>| #![trigger d.len()] d.len() == old(self)@.len()
            && (forall|i: int| #![trigger d[i]] 0 <= i < d.len() ==> f.ensures((&old(self)@[i],), d[i]))
            && final(self)@ == pick(old(self)@, d),
    { unimplemented!() }
}
impl<const N: usize> HVec<u16, N> {
    #[verifier::external_body]
    pub fn contains(&self, x: &u16) -> (r: bool) ensures r == self@.contains(*x) { unimplemented!() }
}
/// a queued event stays unless it is the press of a key the chord consumed
spec fn stays(q: Queued, consumed: Seq<u16>) -> bool {
    match q.event { Event::Press(_, j) => !consumed.contains(j), _ => true }
}
proof fn lemma_pick_stays(s: Seq<Queued>, d: Seq<bool>, consumed: Seq<u16>)
    requires d.len() == s.len(), forall|i: int| 0 <= i < s.len() ==> d[i] == stays(s[i], consumed),
    ensures pick(s, d) == s.filter(|q: Queued| stays(q, consumed)),
    decreases s.len(),
{
    reveal(Seq::filter);
    if s.len() > 0 { lemma_pick_stays(s.drop_last(), d.drop_last(), consumed); }
}
//@ fragment keyberon/src/chord.rs fn process_presses in `ChordsV2<'a, T>` stmt-at `re:self\.queue\.retain\(\|qd\| match qd\.event \{\s*Event::Press\(_, j\) => !` as drop_consumed_presses
//@@ header
fn drop_consumed_presses(queue: &mut VQueue, accumulated_presses: &HVec<u16, SMOL_Q_LEN>, presses: &HVec<u16, SMOL_Q_LEN>)
//@@ resub R35 1 /self\.queue\.retain\(\|qd\| (match qd\.event \{[\s\S]*?\})\);/ => `queue.retain(|qd: &Queued| -> (b: bool) ensures b == stays(*qd, accumulated_presses@) { \1 });`
//@@ spec
    ensures final(queue)@ == old(queue)@.filter(|q: Queued| stays(q, accumulated_presses@)),
//@@ after-re 1 /queue\.retain\([\s\S]*?\}\);/
    proof {
        let s = old(queue)@;
        let d = choose|d: Seq<bool>| #![trigger d.len()] d.len() == s.len()
            && (forall|i: int| #![trigger d[i]] 0 <= i < d.len() ==> d[i] == stays(s[i], accumulated_presses@))
            && queue@ == pick(s, d);
        lemma_pick_stays(s, d, accumulated_presses@);
    }

// (4) "keys that do not complete a chord are not swallowed: they are delivered ... in their original
// order".  While chords are being ignored (after a key left the queue without completing a chord)
// drain_inputs forwards the whole input queue to the small drain queue (capacity 16).  The first
// statement of drain_inputs (FRAGMENT, stmt-at).  The contract of `extend` below is what arraydeque
// 0.5.1 DOES for a Wrapping deque (lib.rs:486: `iter.into_iter().take(capacity - len)`; cross-checked
// on the real crate by the Kani harness c02_k_arraydeque_wrapping_contract): it takes only what fits
// and drops the rest of the iterator.  Obligation: nothing is lost - the forwarded events followed
// by what is still queued are the old drain queue followed by the old input queue.
//@ raw
#[verifier::external_body]
pub struct VSmolQueue { verif_opaque: u8 }
#[verifier::external_body]
pub struct VDrain { verif_opaque: u8 }
impl VDrain { pub uninterp spec fn items(&self) -> Seq<Queued>; }
impl VSmolQueue {
    pub uninterp spec fn view(&self) -> Seq<Queued>;
    /// ArrayDeque<_, 16, Wrapping>: never more than 16 elements
    #[verifier::external_body]
    pub proof fn axiom_capacity(&self) ensures self@.len() <= 16 { unimplemented!() }
    #[verifier::external_body]
    pub fn capacity(&self) -> (r: usize) ensures r == 16 { unimplemented!() }
    #[verifier::external_body]
    pub fn len(&self) -> (r: usize) ensures r == self@.len() { unimplemented!() }
    /// Extend for a Wrapping ArrayDeque: only `capacity - len` elements are taken from the iterator
    #[verifier::external_body]
    pub fn extend(&mut self, it: VDrain)
        ensures final(self)@ == old(self)@ + (if it.items().len() <= 16 - old(self)@.len() { it.items() } else { it.items().take(16 - old(self)@.len()) }),
    { unimplemented!() }
}
impl VQueue {
    #[verifier::external_body]
    pub fn len(&self) -> (r: usize) ensures r == self@.len() { unimplemented!() }
    /// R49: `.drain(0..)` -> everything, front to back; the queue is left empty
    #[verifier::external_body]
    pub fn verif_drain_all(&mut self) -> (r: VDrain)
        ensures r.items() == old(self)@, final(self)@.len() == 0,
    { unimplemented!() }
    /// R49: `.drain(0..n)` -> the first n elements, front to back; the rest stays (panics if n > len)
    #[verifier::external_body]
    pub fn verif_drain_front(&mut self, n: usize) -> (r: VDrain)
        requires n <= old(self)@.len(),
        ensures r.items() == old(self)@.take(n as int), final(self)@ == old(self)@.skip(n as int),
    { unimplemented!() }
}
// std::cmp::min on usize (ASSUMED std contract)
pub uninterp spec fn min_spec_of<V>(a: V, b: V) -> V;
#[verifier::allow(undeclared_external_trait)]
pub assume_specification<V> [core::cmp::min] (a: V, b: V) -> (r: V)
    where V: core::cmp::Ord + core::marker::Destruct,
    ensures r == min_spec_of(a, b);
#[verifier::external_body]
broadcast proof fn axiom_min_usize(a: usize, b: usize)
    ensures #[trigger] min_spec_of::<usize>(a, b) == (if a <= b { a } else { b }),
{ unimplemented!() }
//@ fragment keyberon/src/chord.rs fn drain_inputs in `ChordsV2<'a, T>` stmt-at `if self.ticks_to_ignore_chord > 0 {` as forward_while_ignoring_chords
//@@ header
fn forward_while_ignoring_chords(queue: &mut VQueue, ticks_to_ignore_chord: u16, drainq: &mut VSmolQueue)
//@@ resub Rself * /self\.ticks_to_ignore_chord/ => `ticks_to_ignore_chord`
//@@ resub Rself * /self\.queue/ => `queue`
//@@ resub Rpath * /std::cmp::min\(/ => `core::cmp::min(`
//@@ resub R49 * /\.drain\(0\.\.\)/ => `.verif_drain_all()`
//@@ resub R49 * /\.drain\(0\.\.([^)]+)\)/ => `.verif_drain_front(\1)`
//@@ spec
    ensures
        ticks_to_ignore_chord > 0 ==> final(drainq)@ + final(queue)@ =~= old(drainq)@ + old(queue)@,
        ticks_to_ignore_chord == 0 ==> final(drainq)@ == old(drainq)@ && final(queue)@ == old(queue)@,
//@@ after-re 1 /if ticks_to_ignore_chord > 0 \{/
    proof { drainq.axiom_capacity(); }
    broadcast use axiom_min_usize;
