//@ unit keyout
// Side-car contracts for parser/src/cfg/key_outputs.rs (property C14, table-completeness half):
// `add_key_output_from_action_to_key_pos` records, for a physical key position, every OS key
// that the position's action can put down - for EVERY action tree (structural induction).

//@ raw
// ---- opaque environment types (R7): only references to them are passed around -------------
#[verifier::external_body]
pub struct HoldTapConfig<'a> { p: core::marker::PhantomData<&'a u8> }
#[verifier::external_body]
pub struct UnmodMods { p: u8 }
#[verifier::external_body]
pub struct Overrides { p: u8 }
impl Overrides {
    /// the output keys of the overrides whose input (non-modifier) key is `osc`, in table order
    pub uninterp spec fn outs_for(&self, osc: OsCode) -> Seq<OsCode>;
    /// ASSUMED contract (FxHashMap lookup + iterator map in parser/src/cfg/key_override.rs)
    #[verifier::external_body]
    pub fn output_non_mods_for_input_non_mod(&self, in_osc: OsCode) -> (r: Vec<OsCode>)
        ensures r@ == self.outs_for(in_osc),
    { unimplemented!() }
}
/// the per-layer table `HashMap<OsCode, Vec<OsCode>>`: abstractly, for each position the LIST of
/// output keys recorded for it (empty when the position has no entry)
#[verifier::external_body]
#[verifier::reject_recursive_types(K)]
#[verifier::reject_recursive_types(V)]
pub struct HashMap<K, V> { p: core::marker::PhantomData<(K, V)> }
impl HashMap<OsCode, Vec<OsCode>> {
    pub uninterp spec fn lst(&self, slot: OsCode) -> Seq<OsCode>;
    pub open spec fn has(&self, slot: OsCode, out: OsCode) -> bool { self.lst(slot).contains(out) }
}
spec fn grows(a: HashMap<OsCode, Vec<OsCode>>, b: HashMap<OsCode, Vec<OsCode>>) -> bool {
    forall|s: OsCode, o: OsCode| #[trigger] a.has(s, o) ==> b.has(s, o)
}
/// R37: the idiom `match m.entry(k) { Entry::Occupied(o) => o.into_mut(), Entry::Vacant(v) =>
/// v.insert(vec![]) }` -> this helper: a mutable borrow of the list stored for `k`, an empty list
/// being inserted first if there is none (ASSUMED contract of the std hash-map entry API); whatever
/// is done through the borrow is what the table holds for `k` afterwards, other positions untouched
#[verifier::external_body]
fn verif_entry_or_empty<'a>(m: &'a mut HashMap<OsCode, Vec<OsCode>>, k: OsCode) -> (r: &'a mut Vec<OsCode>)
    ensures r@ == old(m).lst(k),
        final(m).lst(k) == final(r)@,
        forall|j: OsCode| j != k ==> final(m).lst(j) == old(m).lst(j),
{ unimplemented!() }
// slices of structural-equality types: `contains` is membership (ASSUMED std contract)
pub assume_specification<T: PartialEq> [<[T]>::contains] (s: &[T], x: &T) -> (r: bool)
    ensures r == s@.contains(*x);

//@ item keyberon/src/key_code.rs enum KeyCode
//@@ keep-vis
//@ item parser/src/keys/mod.rs enum OsCode
//@@ keep-vis
//@ item keyberon/src/action/switch.rs struct OpCode
//@@ keep-vis
//@@ no-derives
//@ item keyberon/src/action/switch.rs enum BreakOrFallthrough
//@@ keep-vis
//@ item keyberon/src/action/switch.rs type Case
//@@ keep-vis
//@ item keyberon/src/action/switch.rs struct Switch
//@@ keep-vis
//@@ no-derives
//@ item keyberon/src/action.rs enum SequenceEvent
//@@ keep-vis
//@@ no-derives
//@ item keyberon/src/action.rs enum ReleasableState
//@@ keep-vis
//@@ no-derives
//@ item keyberon/src/action.rs struct HoldTapAction
//@@ keep-vis
//@@ no-derives
//@ item keyberon/src/action.rs enum OneShotEndConfig
//@@ keep-vis
//@@ no-derives
//@ item keyberon/src/action.rs struct OneShot
//@@ keep-vis
//@@ no-derives
//@ item keyberon/src/action.rs enum TapDanceConfig
//@@ keep-vis
//@@ no-derives
//@ item keyberon/src/action.rs struct TapDance
//@@ keep-vis
//@@ no-derives
//@ item keyberon/src/action.rs type ChordKeys
//@@ keep-vis
//@ item keyberon/src/action.rs struct ChordsGroup
//@@ keep-vis
//@@ no-derives
//@ item keyberon/src/action.rs struct ForkConfig
//@@ keep-vis
//@@ no-derives
//@ item keyberon/src/action.rs enum Action
//@@ keep-vis
//@@ no-derives
//@ item parser/src/custom_action.rs enum CustomAction
//@@ keep-vis
//@@ no-derives
//@@ keep-variants Unmodded Unshifted
//@ item parser/src/cfg/mod.rs type KanataCustom
//@@ keep-vis
//@ item parser/src/cfg/mod.rs type KanataAction
//@@ keep-vis

//@ raw
// KeyCode -> OsCode is a transmute in the repository (parser/src/keys/mappings.rs).  ASSUMED here:
// it preserves the number; that is what the Kani harnesses c11_k_transmute_valid / c11_k_codes prove
// on the real code for every code.
impl vstd::std_specs::convert::FromSpecImpl<KeyCode> for OsCode {
    open spec fn obeys_from_spec() -> bool { true }
    uninterp spec fn from_spec(item: KeyCode) -> Self;
}
impl From<KeyCode> for OsCode {
    #[verifier::external_body]
    fn from(item: KeyCode) -> Self { unimplemented!() }
}
impl vstd::std_specs::convert::FromSpecImpl<&KeyCode> for OsCode {
    open spec fn obeys_from_spec() -> bool { true }
    open spec fn from_spec(item: &KeyCode) -> Self { <OsCode as vstd::std_specs::convert::FromSpec<KeyCode>>::from_spec(*item) }
}
//@ item parser/src/keys/mod.rs fn from in `From<&KeyCode> for OsCode`
//@@ wrap impl From<&KeyCode> for OsCode

//@ raw
spec fn osc_of(kc: KeyCode) -> OsCode { <OsCode as vstd::std_specs::convert::FromSpec<KeyCode>>::from_spec(kc) }

/// membership after `push` (the verifier does not find the witnesses of `contains` by itself)
pub broadcast proof fn lemma_push_contains(s: Seq<OsCode>, x: OsCode)
    ensures
        #![trigger s.push(x)]
        s.push(x).contains(x),
        forall|o: OsCode| #[trigger] s.contains(o) ==> s.push(x).contains(o),
        forall|o: OsCode| #[trigger] s.push(x).contains(o) ==> s.contains(o) || o == x,
        s.is_prefix_of(s.push(x)),
{
    assert(s.push(x)[s.len() as int] == x);
    assert forall|o: OsCode| s.contains(o) implies s.push(x).contains(o) by {
        let i = choose|i: int| 0 <= i < s.len() && s[i] == o;
        assert(s.push(x)[i] == o);
    }
    assert forall|o: OsCode| s.push(x).contains(o) implies s.contains(o) || o == x by {
        let i = choose|i: int| 0 <= i < s.push(x).len() && s.push(x)[i] == o;
        if i < s.len() { assert(s[i] == o); }
    }
}

/// what the table must hold for a key `k` the position can put down: `k` itself and the output key
/// of every override whose input key is `k` (with the override active kanata has THAT key down)
spec fn rec(t: HashMap<OsCode, Vec<OsCode>>, slot: OsCode, k: OsCode, ov: Overrides) -> bool {
    t.has(slot, k) && forall|i: int| 0 <= i < ov.outs_for(k).len() ==> t.has(slot, #[trigger] ov.outs_for(k)[i])
}
// ---- which OS keys an action can put down: written from the property statement's list of
// key-producing forms (plain key, output chord, multi, tap-hold, tap-dance, one-shot, fork, switch,
// chord, unmod / unshift, use-defsrc) ----------------------------------------------------------
spec fn custom_out(c: CustomAction, k: OsCode) -> bool {
    match c {
        CustomAction::Unmodded { keys, .. } => exists|i: int| 0 <= i < keys@.len() && osc_of(keys@[i]) == k,
        CustomAction::Unshifted { keys } => exists|i: int| 0 <= i < keys@.len() && osc_of(keys@[i]) == k,
        _ => false,
    }
}
spec fn can_output(a: KanataAction, slot: OsCode, k: OsCode) -> bool
    decreases a,
{
    match a {
        Action::KeyCode(kc) => osc_of(kc) == k,
        Action::MultipleKeyCodes(kcs) => exists|i: int| 0 <= i < kcs@.len() && osc_of(kcs@[i]) == k,
        Action::MultipleActions(acs) => exists|i: int| 0 <= i < acs@.len() && can_output(acs@[i], slot, k),
        Action::HoldTap(ht) => can_output(ht.tap, slot, k) || can_output(ht.hold, slot, k) || can_output(ht.timeout_action, slot, k),
        Action::OneShot(os) => can_output(*os.action, slot, k),
        Action::TapDance(td) => exists|i: int| 0 <= i < td.actions@.len() && can_output(*td.actions@[i], slot, k),
        Action::Chords(cg) => exists|i: int| 0 <= i < cg.chords@.len() && can_output(*cg.chords@[i].1, slot, k),
        Action::Fork(f) => can_output(f.left, slot, k) || can_output(f.right, slot, k),
        Action::Switch(sw) => exists|i: int| 0 <= i < sw.cases@.len() && can_output(*sw.cases@[i].1, slot, k),
        Action::Custom(cacs) => exists|i: int| 0 <= i < cacs@.len() && custom_out(*cacs@[i], k),
        Action::Src => k == slot,
        _ => false,
    }
}

//@ item parser/src/cfg/key_outputs.rs fn add_kc_output
//@@ keep-vis
//@@ attr #[verifier::loop_isolation(false)]
//@@ spec
    ensures
        // the key itself and every override output of it are recorded for the position
        final(outs).has(osc_slot, osc),
        forall|i: int| 0 <= i < overrides.outs_for(osc).len() ==> final(outs).has(osc_slot, #[trigger] overrides.outs_for(osc)[i]),
        // nothing recorded earlier is removed or reordered: the old list is a prefix of the new one
        old(outs).lst(osc_slot).is_prefix_of(final(outs).lst(osc_slot)),
        // nothing else is added
        forall|o: OsCode| #[trigger] final(outs).has(osc_slot, o) ==> old(outs).has(osc_slot, o) || o == osc || overrides.outs_for(osc).contains(o),
        // every other position is untouched
        forall|s: OsCode| s != osc_slot ==> final(outs).lst(s) == old(outs).lst(s),
        grows(*old(outs), *final(outs)),
//@@ resub R37 1 /match outs\.entry\(osc_slot\) \{\s*Entry::Occupied\(o\) => o\.into_mut\(\),\s*Entry::Vacant\(v\) => v\.insert\(vec!\[\]\),\s*\}/ => `verif_entry_or_empty(outs, osc_slot)`
//@@ resub R17 1 /for ov_osc in overrides\s*\.output_non_mods_for_input_non_mod\((\w+)\)\s*\.iter\(\)\s*\.copied\(\)/ => `for ov_osc in it: overrides.output_non_mods_for_input_non_mod(\1)`
//@@ after-re 1 /let outputs = verif_entry_or_empty\(outs, osc_slot\);/
    let ghost l0 = outputs@;
    let ghost xs = overrides.outs_for(osc);
    broadcast use lemma_push_contains;
//@@ loop 1
        invariant
            it.seq() == xs, 0 <= it.index@ <= xs.len(),
            l0.is_prefix_of(outputs@),
            outputs@.contains(osc),
            forall|i: int| 0 <= i < it.index@ ==> outputs@.contains(#[trigger] xs[i]),
            forall|o: OsCode| #[trigger] outputs@.contains(o) ==> l0.contains(o) || o == osc || xs.contains(o),
//@@ after-re 1 /for ov_osc in it: overrides\.output_non_mods_for_input_non_mod\(\w+\)\s*\{/
        proof { assert(ov_osc == xs[it.index@ as int]); assert(xs.contains(ov_osc)); }
//@ item parser/src/cfg/key_outputs.rs fn add_key_output_from_action_to_key_pos
//@@ spec
    ensures
        // completeness: every key the action can put down is in the table for this position
        forall|k: OsCode| #[trigger] can_output(*action, osc_slot, k) ==> rec(*final(outputs), osc_slot, k, *overrides),
        grows(*old(outputs), *final(outputs)),
    decreases action,
//@@ sub R10 1 `for kc in kcs.iter()` => `for kc in it: kcs.iter()`
//@@ sub R10 2 `for ac in actions.iter()` => `for ac in it: actions.iter()`
//@@ sub R10 1 `for (_, ac) in chords.iter()` => `for (_, ac) in it: chords.iter()`
//@@ sub R10 1 `for case in cases.iter()` => `for case in it: cases.iter()`
//@@ sub R10 1 `for ac in cacs.iter()` => `for ac in ito: cacs.iter()`
//@@ sub R10 1 `for k in keys.iter()` => `for k in iti: keys.iter()`
//@@ loop-at `Action::MultipleKeyCodes(kcs) =>`
                invariant
                    grows(*old(outputs), *outputs),
                    *action matches Action::MultipleKeyCodes(a0) && a0@ == kcs@,
                    it.seq().len() == kcs@.len(),
                    forall|i: int| 0 <= i < kcs@.len() ==> *(#[trigger] it.seq()[i]) == kcs@[i],
                    forall|j: int| 0 <= j < it.index@ ==> rec(*outputs, osc_slot, osc_of(#[trigger] kcs@[j]), *overrides),
//@@ loop-at `Action::MultipleActions(actions) =>`
                invariant
                    grows(*old(outputs), *outputs),
                    *action matches Action::MultipleActions(a0) && a0@ == actions@,
                    it.seq().len() == actions@.len(),
                    forall|i: int| 0 <= i < actions@.len() ==> *(#[trigger] it.seq()[i]) == actions@[i],
                    forall|j: int, k: OsCode| 0 <= j < it.index@ && #[trigger] can_output(actions@[j], osc_slot, k) ==> rec(*outputs, osc_slot, k, *overrides),
//@@ loop-at `Action::TapDance(TapDance { actions, .. }) =>`
                invariant
                    grows(*old(outputs), *outputs),
                    *action matches Action::TapDance(t0) && t0.actions@ == actions@,
                    it.seq().len() == actions@.len(),
                    forall|i: int| 0 <= i < actions@.len() ==> *(#[trigger] it.seq()[i]) == actions@[i],
                    forall|j: int, k: OsCode| 0 <= j < it.index@ && #[trigger] can_output(*actions@[j], osc_slot, k) ==> rec(*outputs, osc_slot, k, *overrides),
//@@ loop-at `Action::Chords(ChordsGroup { chords, .. }) =>`
                invariant
                    grows(*old(outputs), *outputs),
                    *action matches Action::Chords(c0) && c0.chords@ == chords@,
                    it.seq().len() == chords@.len(),
                    forall|i: int| 0 <= i < chords@.len() ==> *(#[trigger] it.seq()[i]) == chords@[i],
                    forall|j: int, k: OsCode| 0 <= j < it.index@ && #[trigger] can_output(*chords@[j].1, osc_slot, k) ==> rec(*outputs, osc_slot, k, *overrides),
//@@ loop-at `Action::Switch(Switch { cases }) =>`
                invariant
                    grows(*old(outputs), *outputs),
                    *action matches Action::Switch(s0) && s0.cases@ == cases@,
                    it.seq().len() == cases@.len(),
                    forall|i: int| 0 <= i < cases@.len() ==> *(#[trigger] it.seq()[i]) == cases@[i],
                    forall|j: int, k: OsCode| 0 <= j < it.index@ && #[trigger] can_output(*cases@[j].1, osc_slot, k) ==> rec(*outputs, osc_slot, k, *overrides),
//@@ loop-at `Action::Custom(cacs) =>`
                invariant
                    grows(*old(outputs), *outputs),
                    *action matches Action::Custom(c0) && c0@ == cacs@,
                    ito.seq().len() == cacs@.len(),
                    forall|i: int| 0 <= i < cacs@.len() ==> *(#[trigger] ito.seq()[i]) == cacs@[i],
                    forall|j: int, k: OsCode| 0 <= j < ito.index@ && #[trigger] custom_out(*cacs@[j], k) ==> rec(*outputs, osc_slot, k, *overrides),
//@@ loop-at `for k in iti: keys.iter()`
                            invariant
                                grows(*old(outputs), *outputs),
                                iti.seq().len() == keys@.len(),
                                forall|i: int| 0 <= i < keys@.len() ==> *(#[trigger] iti.seq()[i]) == keys@[i],
                                forall|j: int| 0 <= j < iti.index@ ==> rec(*outputs, osc_slot, osc_of(#[trigger] keys@[j]), *overrides),
                                // what the enclosing loop has established so far
                                forall|j: int, k: OsCode| 0 <= j < ito.index@ && #[trigger] custom_out(*cacs@[j], k) ==> rec(*outputs, osc_slot, k, *overrides),
//@@ after 1 `| Action::ReleaseState(_) => {} };`
    proof {
        // one case analysis at the end: unfold `can_output` for the form of the action and pick the
        // witness of the existential for the list-shaped forms (the loops' invariants at exit give
        // the fact for every element)
        assert forall|k: OsCode| #[trigger] can_output(*action, osc_slot, k) implies rec(*outputs, osc_slot, k, *overrides) by {
            match *action {
                Action::MultipleKeyCodes(kcs) => {
                    let i = choose|i: int| 0 <= i < kcs@.len() && osc_of(kcs@[i]) == k;
                    assert(outputs.has(osc_slot, osc_of(kcs@[i])));
                }
                Action::MultipleActions(acs) => {
                    let i = choose|i: int| 0 <= i < acs@.len() && can_output(acs@[i], osc_slot, k);
                }
                Action::TapDance(td) => {
                    let i = choose|i: int| 0 <= i < td.actions@.len() && can_output(*td.actions@[i], osc_slot, k);
                }
                Action::Chords(cg) => {
                    let i = choose|i: int| 0 <= i < cg.chords@.len() && can_output(*cg.chords@[i].1, osc_slot, k);
                }
                Action::Switch(sw) => {
                    let i = choose|i: int| 0 <= i < sw.cases@.len() && can_output(*sw.cases@[i].1, osc_slot, k);
                }
                Action::Custom(cacs) => {
                    let i = choose|i: int| 0 <= i < cacs@.len() && custom_out(*cacs@[i], k);
                }
                Action::HoldTap(h) => {
                    assert(can_output(h.tap, osc_slot, k) || can_output(h.hold, osc_slot, k) || can_output(h.timeout_action, osc_slot, k));
                }
                Action::OneShot(o) => { assert(can_output(*o.action, osc_slot, k)); }
                Action::Fork(f) => { assert(can_output(f.left, osc_slot, k) || can_output(f.right, osc_slot, k)); }
                _ => {}
            }
        }
    }

// ---- chords v2: a key that takes part in a chord can put down what the chord's action puts down --
//@ item keyberon/src/chord.rs struct ChordV2
//@@ keep-vis
//@@ no-derives
//@@ attr #[verifier::reject_recursive_types(T)]
//@@ keep-fields action disabled_layers
//@ item keyberon/src/chord.rs struct ChordsForKey
//@@ keep-vis
//@@ no-derives
//@@ attr #[verifier::reject_recursive_types(T)]
//@ item keyberon/src/chord.rs struct ChordsForKeys
//@@ keep-vis
//@@ no-derives
//@@ attr #[verifier::reject_recursive_types(T)]
//@@ resub R3 1 /FxHashMap</ => `HashMap<`
//@ raw
impl<'a, T> HashMap<u16, ChordsForKey<'a, T>> {
    pub uninterp spec fn view(&self) -> Map<u16, ChordsForKey<'a, T>>;
    /// ASSUMED contract of FxHashMap::get
    #[verifier::external_body]
    pub fn get(&self, k: &u16) -> (r: Option<&ChordsForKey<'a, T>>)
        ensures
            self.view().contains_key(*k) ==> r == Some(&self.view()[*k]),
            !self.view().contains_key(*k) ==> r.is_none(),
    { unimplemented!() }
}
/// the chords-v2 state: opaque except for its chord table
#[verifier::external_body]
#[verifier::reject_recursive_types(T)]
pub struct ChordsV2<'a, T> { p: core::marker::PhantomData<&'a T> }
impl<'a, T> ChordsV2<'a, T> {
    pub uninterp spec fn chords_spec(&self) -> ChordsForKeys<'a, T>;
    #[verifier::external_body]
    pub fn chords(&self) -> (r: &ChordsForKeys<'a, T>) ensures *r == self.chords_spec() { unimplemented!() }
}
// OsCode -> u16 (the number of the code): uninterpreted here
pub uninterp spec fn osc_u16(o: OsCode) -> u16;
impl vstd::std_specs::convert::FromSpecImpl<OsCode> for u16 {
    open spec fn obeys_from_spec() -> bool { true }
    open spec fn from_spec(o: OsCode) -> Self { osc_u16(o) }
}
impl From<OsCode> for u16 {
    #[verifier::external_body]
    fn from(o: OsCode) -> (r: u16) ensures r == osc_u16(o) { unimplemented!() }
}

//@ item parser/src/cfg/key_outputs.rs fn add_chordsv2_output_for_key_pos
//@@ keep-vis
//@@ spec
    requires
        // the `assert!` at the top of the function (a panic otherwise); the caller passes an index of `layers`
        layer_idx <= 0xFFFF,
    ensures
        grows(*old(outputs), *final(outputs)),
        // every chord this key takes part in that is not disabled on this layer contributes what
        // its action can put down (and the override outputs of those keys)
        chords_v2 is Some && chords_v2->0.chords_spec().mapping.view().contains_key(osc_u16(osc_slot)) ==> {
            let cfk = chords_v2->0.chords_spec().mapping.view()[osc_u16(osc_slot)];
            forall|i: int, k: OsCode| 0 <= i < cfk.chords@.len() && !cfk.chords@[i].disabled_layers@.contains(layer_idx as u16)
                && #[trigger] can_output(*cfk.chords@[i].action, osc_slot, k) ==> rec(*final(outputs), osc_slot, k, *overrides)
        },
//@@ sub R10 1 `for chord in chords_for_key.chords.iter()` => `for chord in it: chords_for_key.chords.iter()`
//@@ loop 1
        invariant
            grows(*old(outputs), *outputs),
            it.seq().len() == chords_for_key.chords@.len(),
            forall|i: int| 0 <= i < chords_for_key.chords@.len() ==> *(#[trigger] it.seq()[i]) == chords_for_key.chords@[i],
            forall|j: int, k: OsCode| 0 <= j < it.index@ && !chords_for_key.chords@[j].disabled_layers@.contains(layer_idx as u16)
                && #[trigger] can_output(*chords_for_key.chords@[j].action, osc_slot, k) ==> rec(*outputs, osc_slot, k, *overrides),
