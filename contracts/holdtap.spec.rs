//@ unit holdtap
// Side-car contract for the tap-hold DECISION, WaitingState::handle_hold_tap (keyberon/src/layout.rs),
// property C05 - the unbounded counterpart of the bounded Kani harnesses c05_b_handle_hold_tap /
// c05_b_tick_wt_hold_tap (queues of <= 4 events).  The function is cut whole.  The event queue and
// its iterator are stubs (ASSUMED: iter() yields the queued events front to back; next / clone / any /
// find have their std meaning); the four closures are annotated mechanically (R12: each closure's
// `ensures` is generated from its own body text); a Custom closure from the configuration is an
// opaque function of the queue.

//@ raw
#[verifier::reject_recursive_types(T)]
#[verifier::external_body]
pub struct Action<'a, T> { p: core::marker::PhantomData<&'a T> }
#[verifier::external_body]
pub struct LayerStack { verif_opaque: u8 }
#[verifier::reject_recursive_types(T)]
#[verifier::external_body]
pub struct ChordsGroup<'a, T> { p: core::marker::PhantomData<&'a T> }
/// the closure of a custom tap-hold variant (tap-hold-release-keys, ..): opaque
#[derive(Clone, Copy)]
#[verifier::external_body]
pub struct VerifCustom<'a> { p: core::marker::PhantomData<&'a u8> }

//@ item keyberon/src/layout.rs type KCoord
//@ item keyberon/src/layout.rs type QueueLen
//@ item keyberon/src/layout.rs enum Event
//@@ keep-vis
//@ item keyberon/src/layout.rs struct Queued
//@@ keep-vis
//@@ no-derives
//@ item keyberon/src/layout.rs enum WaitingAction
//@@ keep-vis
//@ item keyberon/src/action.rs enum HoldTapConfig
//@@ keep-vis
//@@ no-derives
//@@ resub Rdyn 1 /&'a \(dyn Fn\(QueuedIter\) -> \(Option<WaitingAction>, bool\) \+ Send \+ Sync\)/ => `VerifCustom<'a>`
//@ item keyberon/src/layout.rs struct TapDanceState
//@@ keep-vis
//@@ no-derives
//@@ attr #[verifier::reject_recursive_types(T)]
//@ raw
impl<'a, T> Copy for TapDanceState<'a, T> {}
impl<'a, T> Clone for TapDanceState<'a, T> {
    #[verifier::external_body]
    fn clone(&self) -> (r: Self) ensures r == *self { *self }
}
//@ item keyberon/src/layout.rs enum WaitingConfig
//@@ no-derives
//@@ keep-vis
//@@ attr #[verifier::reject_recursive_types(T)]
//@@ resub Rbound 1 /T: 'a \+ std::fmt::Debug/ => `T: 'a`
//@ item keyberon/src/layout.rs struct WaitingState
//@@ no-derives
//@@ keep-vis
//@@ attr #[verifier::reject_recursive_types(T)]
//@@ resub Rbound 1 /T: 'a \+ std::fmt::Debug/ => `T: 'a`

//@ raw
impl<'a> Copy for HoldTapConfig<'a> {}
impl<'a> Clone for HoldTapConfig<'a> {
    #[verifier::external_body]
    fn clone(&self) -> (r: Self) ensures r == *self { *self }
}
impl Copy for Queued {}
impl Clone for Queued {
    #[verifier::external_body]
    fn clone(&self) -> (r: Self) ensures r == *self { *self }
}

/// the event queue (arraydeque::ArrayDeque<Queued, 32, Wrapping>) and its iterator: stubs
#[verifier::external_body]
pub struct Queue { verif_opaque: u8 }
#[verifier::external_body]
pub struct QIter<'q> { p: core::marker::PhantomData<&'q u8> }
impl Queue {
    pub uninterp spec fn view(&self) -> Seq<Queued>;
    #[verifier::external_body]
    pub fn len(&self) -> (r: usize) ensures r == self.view().len() { unimplemented!() }
    #[verifier::external_body]
    pub fn iter<'q>(&'q self) -> (r: QIter<'q>) ensures r.rest() == self.view() { unimplemented!() }
}
impl<'q> QIter<'q> {
    /// what is still to come, front to back
    pub uninterp spec fn rest(&self) -> Seq<Queued>;
    #[verifier::external_body]
    pub fn next(&mut self) -> (r: Option<&'q Queued>)
        ensures
            old(self).rest().len() == 0 ==> r.is_none() && final(self).rest() == old(self).rest(),
            old(self).rest().len() > 0 ==> r == Some(&old(self).rest()[0]) && final(self).rest() == old(self).rest().drop_first(),
    { unimplemented!() }
    #[verifier::external_body]
    pub fn clone(&self) -> (r: QIter<'q>) ensures r.rest() == self.rest() { unimplemented!() }
    /// (any / find take the iterator BY VALUE here: both uses in the function are on temporaries -
    /// `queued.iter().any(..)`, `queued.clone().any(..)`; a `&mut self` stub on a temporary is unsound
    /// in this Verus, which treats the temporary as unchanged)
    /// Iterator::any / find with a PURE predicate (ASSUMED total and side-effect free, as the four
    /// closures here are): d[i] is the predicate's answer for the i-th remaining element
    #[verifier::external_body]
    pub fn any<F: Fn(&Queued) -> bool>(self, f: F) -> (r: bool)
        requires forall|x: &Queued| f.requires((x,)),
        ensures exists|d: Seq<bool>| #![trigger d.len()] d.len() == self.rest().len()
            && (forall|i: int| #![trigger d[i]] #![trigger self.rest()[i]] 0 <= i < d.len() ==> f.ensures((&self.rest()[i],), d[i]))
            && r == (exists|i: int| 0 <= i < d.len() && #[trigger] d[i]),
    { unimplemented!() }
    #[verifier::external_body]
    pub fn find<F: Fn(&&Queued) -> bool>(self, f: F) -> (r: Option<&'q Queued>)
        requires forall|x: &&Queued| f.requires((x,)),
        ensures exists|d: Seq<bool>| #![trigger d.len()] d.len() == self.rest().len()
            && (forall|i: int| #![trigger d[i]] #![trigger self.rest()[i]] 0 <= i < d.len() ==> f.ensures((&&self.rest()[i],), d[i]))
            && (r matches Some(q) ==> exists|i: int| 0 <= i < d.len() && #[trigger] d[i] && *q == self.rest()[i] && forall|k: int| 0 <= k < i ==> !#[trigger] d[k])
            && (r.is_none() ==> forall|k: int| 0 <= k < d.len() ==> !#[trigger] d[k]),
    { unimplemented!() }
}
/// a custom variant's closure applied to the queue: SOME function of the queue
pub uninterp spec fn custom_of(f: VerifCustom<'_>, q: Seq<Queued>) -> (Option<WaitingAction>, bool);
#[verifier::external_body]
fn verif_call_custom(f: VerifCustom<'_>, it: QIter<'_>) -> (r: (Option<WaitingAction>, bool))
    ensures r == custom_of(f, it.rest()),
{ unimplemented!() }

//@ item keyberon/src/layout.rs fn coord in `Event`
//@@ wrap impl Event
//@@ keep-vis
//@@ pre
    pub open spec fn coord_spec(self) -> KCoord { match self { Event::Press(i, j) => (i, j), Event::Release(i, j) => (i, j) } }
    pub open spec fn is_press_spec(self) -> bool { self is Press }
//@@ attr #[verifier::when_used_as_spec(coord_spec)]
//@@ ret r
//@@ spec
    ensures r == self.coord_spec(),
//@ item keyberon/src/layout.rs fn is_press in `Event`
//@@ wrap impl Event
//@@ keep-vis
//@@ attr #[verifier::when_used_as_spec(is_press_spec)]
//@@ ret r
//@@ spec
    ensures r == self.is_press_spec(),

//@ item keyberon/src/layout.rs fn is_release in `Event`
//@@ wrap impl Event
//@@ keep-vis
//@@ pre
    pub open spec fn is_release_spec(self) -> bool { self is Release }
//@@ attr #[verifier::when_used_as_spec(is_release_spec)]
//@@ ret r
//@@ spec
    ensures r == self.is_release_spec(),

//@ item keyberon/src/layout.rs fn is_corresponding_release in `WaitingState<'a, T>`
//@@ wrap impl<'a, T> WaitingState<'a, T>
//@@ pre
    spec fn icr_spec(&self, event: &Event) -> bool { *event == Event::Release(self.coord.0, self.coord.1) }
//@@ attr #[verifier::when_used_as_spec(icr_spec)]
//@@ ret r
//@@ spec
    ensures r == self.icr_spec(event),

//@ raw
spec fn sat_sub(a: u16, b: u16) -> u16 { if a >= b { (a - b) as u16 } else { 0u16 } }
/// "another key pressed" (hold-on-other-key-press)
spec fn some_press(q: Seq<Queued>) -> bool { exists|i: int| 0 <= i < q.len() && (#[trigger] q[i]).event is Press }
/// "another key pressed and released" (permissive hold): a press followed, later in the queue, by the
/// release of the same coordinate
spec fn press_then_release(q: Seq<Queued>) -> bool {
    exists|i: int, j: int| 0 <= i < j < q.len() && (#[trigger] q[i]).event is Press
        && (#[trigger] q[j]).event == Event::Release(q[i].event.coord_spec().0, q[i].event.coord_spec().1)
}
/// index of the first queued release of the waiting key itself, or -1
spec fn own_release(q: Seq<Queued>, c: KCoord, n: int) -> int
    decreases n,
{
    if n <= 0 { -1 }
    else if own_release(q, c, n - 1) >= 0 { own_release(q, c, n - 1) }
    else if q[n - 1].event == Event::Release(c.0, c.1) { n - 1 }
    else { -1 }
}
/// THE DECISION TABLE of the property statement
spec fn decision<'a, T>(w: WaitingState<'a, T>, cfg: HoldTapConfig<'a>, q: Seq<Queued>) -> Option<WaitingAction> {
    let early: Option<WaitingAction> = match cfg {
        HoldTapConfig::Default => None,
        HoldTapConfig::HoldOnOtherKeyPress => if some_press(q) { Some(WaitingAction::Hold) } else { None },
        HoldTapConfig::PermissiveHold => if press_then_release(q) { Some(WaitingAction::Hold) } else { None },
        HoldTapConfig::Custom(f) => custom_of(f, q).0,
    };
    let skip_timeout = match cfg { HoldTapConfig::Custom(f) => custom_of(f, q).1, _ => false };
    if early is Some { early }
    else {
        let k = own_release(q, w.coord, q.len() as int);
        if k >= 0 {
            // released: a tap iff the release came before the hold timeout had elapsed
            if w.timeout > sat_sub(w.delay, q[k].since) { Some(WaitingAction::Tap) } else { Some(WaitingAction::Timeout) }
        } else if w.timeout == 0 && !skip_timeout { Some(WaitingAction::Timeout) }
        else { None }
    }
}

//@ raw
proof fn lemma_own_release(q: Seq<Queued>, c: KCoord, n: int)
    requires 0 <= n <= q.len(),
    ensures ({
        let k = own_release(q, c, n);
        &&& -1 <= k < n
        &&& k >= 0 ==> q[k].event == Event::Release(c.0, c.1) && forall|j: int| 0 <= j < k ==> (#[trigger] q[j]).event != Event::Release(c.0, c.1)
        &&& k < 0 ==> forall|j: int| 0 <= j < n ==> (#[trigger] q[j]).event != Event::Release(c.0, c.1)
    }),
    decreases n,
{
    if n > 0 { lemma_own_release(q, c, n - 1); }
}

//@ item keyberon/src/layout.rs fn handle_hold_tap in `WaitingState<'a, T>`
//@@ wrap impl<'a, T> WaitingState<'a, T>
//@@ attr #[verifier::loop_isolation(false)]
//@@ resub R12 1 /queued\.iter\(\)\.any\(\|s\| ([^{};]*)\) \{/ => `queued.iter().any(|s: &Queued| -> (b: bool) ensures b == (\1) { \1 }) {`
//@@ resub R12 1 /queued((?:\.clone\(\))?)\.any\(\|q\| ([^{};]*)\) \{/ => `queued\1.any(|q: &Queued| -> (b: bool) ensures b == (\2) { \2 }) {`
//@@ resub R31 1 /if let Some\(&Queued \{ since, \.\. \}\) = / => `if let Some(verif_q) = `
//@@ resub R12 1 /\.find\(\|s\| ([^{};]*)\)\s*\{/ => `.find(|s: &&Queued| -> (b: bool) ensures b == (\1) { \1 }) { let since = verif_q.since;`
//@@ resub R30 1 /\(func\)\(QueuedIter\(queued\.iter\(\)\)\)/ => `verif_call_custom(func, queued.iter())`
//@@ ret r
//@@ spec
    requires
        // the queue is an ArrayDeque of capacity 32 (QUEUE_SIZE): its length fits the u8 memo
        queued@.len() <= 32,
    ensures
        // nothing but the queue-length memo is ever written
        final(self).coord == old(self).coord, final(self).timeout == old(self).timeout, final(self).delay == old(self).delay,
        final(self).ticks == old(self).ticks, final(self).hold == old(self).hold, final(self).tap == old(self).tap,
        final(self).timeout_action == old(self).timeout_action, final(self).config == old(self).config, final(self).layer_stack == old(self).layer_stack,
        // nothing new in the queue and the timeout still running: no decision (fast path)
        (queued@.len() as u8 == old(self).prev_queue_len && old(self).timeout > 0) ==> r.is_none() && final(self).prev_queue_len == old(self).prev_queue_len,
        // otherwise: the decision table
        !(queued@.len() as u8 == old(self).prev_queue_len && old(self).timeout > 0) ==>
            r == decision(*old(self), cfg, queued@) && final(self).prev_queue_len == queued@.len() as u8,
//@@ before 1 `match cfg {`
    let ghost q0 = queued@;
//@@ after-re 1 /if queued\.iter\(\)\.any\([^;]*?\}\) \{/
    proof {
        assert(some_press(q0));
    }
//@@ after-re 1 /return Some\(WaitingAction::Hold\);\s*\}/
    proof {
        assert(forall|i: int| 0 <= i < q0.len() ==> !((#[trigger] q0[i]).event is Press));
        assert(!some_press(q0));
    }
//@@ before-re 1 /if q\.event\.is_press\(\) \{/
    let ghost p = q0.len() - queued.rest().len() - 1;
    proof { assert(q0[p] == *q); }
//@@ before-re 2 /return Some\(WaitingAction::Hold\);/
    proof {
        let rest = queued.rest();
        assert(exists|idx: int| 0 <= idx < rest.len() && (#[trigger] rest[idx]).event == target);
        let idx = choose|idx: int| 0 <= idx < rest.len() && (#[trigger] rest[idx]).event == target;
        assert(q0[p + 1 + idx] == rest[idx]);
        assert(q0[p].event is Press && q0[p + 1 + idx].event == Event::Release(q0[p].event.coord_spec().0, q0[p].event.coord_spec().1));
        assert(press_then_release(q0));
    }
//@@ after-re 1 /if queued(?:\.clone\(\))?\.any\([^;]*?\}\) \{\s*return Some\(WaitingAction::Hold\);\s*\}/
    proof {
        let rest = queued.rest();
        assert(forall|jj: int| p < jj < q0.len() ==> (#[trigger] q0[jj]) == rest[jj - p - 1]);
        assert(forall|jj: int| p < jj < q0.len() ==> (#[trigger] q0[jj]).event != target);
    }
//@@ before-re 1 /if let Some\(verif_q\) = queued/
    proof {
        lemma_own_release(q0, self.coord, q0.len() as int);
        if cfg is PermissiveHold { assert(!press_then_release(q0)); }
    }
//@@ loop 1
                    invariant
                        queued.rest().len() <= q0.len(),
                        queued.rest() == q0.subrange(q0.len() - queued.rest().len(), q0.len() as int),
                        forall|i: int, j: int| 0 <= i < q0.len() - queued.rest().len() && i < j < q0.len() && (#[trigger] q0[i]).event is Press
                            ==> (#[trigger] q0[j]).event != Event::Release(q0[i].event.coord_spec().0, q0[i].event.coord_spec().1),
                    decreases queued.rest().len(),


// ---------------------------------------------------------------------------------------
// C17, the choice of the action: the TapDance arm of WaitingState::tick_wt (a FRAGMENT).  The count
// itself (handle_tap_dance: closures with a captured counter) stays a stub - a deterministic function
// of the state and the queue, decided by the bounded Kani harness c17_b_handle_tap_dance.  Proved
// here: "performs exactly the N-th listed action (the last one if N reaches the list length)", and
// every further tap restarts the timeout.
// ---------------------------------------------------------------------------------------
//@ raw
pub uninterp spec fn td_decide<'a, T>(w: WaitingState<'a, T>, num_taps: u16, max_taps: usize, q: Seq<Queued>) -> (Option<WaitingAction>, u16);
pub uninterp spec fn td_queue<'a, T>(w: WaitingState<'a, T>, num_taps: u16, max_taps: usize, q: Seq<Queued>) -> Seq<Queued>;
impl<'a, T> WaitingState<'a, T> {
    #[verifier::external_body]
    fn handle_tap_dance(&self, num_taps: u16, max_taps: usize, queued: &mut Queue) -> (r: (Option<WaitingAction>, u16))
        ensures r == td_decide(*self, num_taps, max_taps, old(queued)@), final(queued)@ == td_queue(*self, num_taps, max_taps, old(queued)@),
    { unimplemented!() }
}
pub uninterp spec fn min_spec_of<V>(a: V, b: V) -> V;
#[verifier::allow(undeclared_external_trait)]
pub assume_specification<V> [core::cmp::min] (a: V, b: V) -> (r: V)
    where V: core::cmp::Ord + core::marker::Destruct,
    ensures r == min_spec_of(a, b);
#[verifier::external_body]
proof fn axiom_min_usize(a: usize, b: usize)
    ensures #[trigger] min_spec_of::<usize>(a, b) == (if a <= b { a } else { b }),
{ unimplemented!() }

// ---------------------------------------------------------------------------------------
// WaitingState::tick_wt, cut WHOLE: one millisecond passes for the pending decision.  Its callee
// handle_hold_tap is the function under contract above (the caller is checked against that
// contract, not its body); handle_tap_dance and handle_chord are stubs.  This is the unbounded
// counterpart of the bounded harnesses c05_b_tick_wt_hold_tap / c05_b_timeout_on_time: "hold (or the
// timeout action) exactly when the timeout elapses" - the decision table is consulted with the
// timeout ALREADY decremented, so the tick on which the last millisecond elapses is the tick that
// reports Timeout.
// ---------------------------------------------------------------------------------------
//@ raw
#[verifier::external_body]
pub struct PressedQueue { verif_opaque: u8 }
#[verifier::reject_recursive_types(T)]
#[verifier::external_body]
pub struct ActionQueue<'a, T> { p: core::marker::PhantomData<&'a T> }
pub uninterp spec fn chord_res<'a, T>(w: WaitingState<'a, T>, config: &'a ChordsGroup<'a, T>, q: Seq<Queued>) -> Option<(WaitingAction, &'a Action<'a, T>, PressedQueue)>;
pub uninterp spec fn chord_self<'a, T>(w: WaitingState<'a, T>, config: &'a ChordsGroup<'a, T>, q: Seq<Queued>) -> WaitingState<'a, T>;
impl<'a, T> WaitingState<'a, T> {
    /// handle_chord (try_fold with closures that mutate captured state): NOT under contract here; some
    /// function of the state, the chord table and the queue (C09's bounded harnesses look inside)
    #[verifier::external_body]
    fn handle_chord(&mut self, config: &'a ChordsGroup<'a, T>, queued: &mut Queue, action_queue: &mut ActionQueue<'a, T>) -> (r: Option<(WaitingAction, &'a Action<'a, T>, PressedQueue)>)
        ensures r == chord_res(*old(self), config, old(queued)@), *final(self) == chord_self(*old(self), config, old(queued)@),
    { unimplemented!() }
}
// ASSUMED std contracts (not used by the current text of tick_wt; they let a changed arm that
// combines options be read instead of rejected)
pub assume_specification<V> [Option::<V>::or] (a: Option<V>, b: Option<V>) -> (r: Option<V>)
    ensures r == (if a is Some { a } else { b });
pub assume_specification<V> [bool::then_some::<V>] (b: bool, t: V) -> (r: Option<V>)
    ensures r == (if b { Some(t) } else { None::<V> });
spec fn sat_add(a: u16, b: u16) -> u16 { if a + b <= 0xFFFF { (a + b) as u16 } else { 0xFFFFu16 } }
/// the pending decision after one more millisecond
spec fn aged<'a, T>(w: WaitingState<'a, T>) -> WaitingState<'a, T> {
    WaitingState { timeout: sat_sub(w.timeout, 1), ticks: sat_add(w.ticks, 1), ..w }
}

//@ raw
/// a tap-hold key, one millisecond later: the decision table, consulted AFTER the countdown
spec fn ht_result<'a, T>(w: WaitingState<'a, T>, cfg: HoldTapConfig<'a>, q: Seq<Queued>) -> Option<WaitingAction> {
    let w1 = aged(w);
    if q.len() as u8 == w1.prev_queue_len && w1.timeout > 0 { None } else { decision(w1, cfg, q) }
}
//@ item keyberon/src/layout.rs fn tick_wt in `WaitingState<'a, T>`
//@@ wrap impl<'a, T> WaitingState<'a, T>
//@@ resub R31 1 /WaitingConfig::TapDance\(ref tds\) => \{/ => `WaitingConfig::TapDance(verif_tds) => { let tds = &verif_tds;`
//@@ resub R12 1 /ret\.map\(\|v\| \(v, pq\)\)/ => `ret.map(|v: WaitingAction| -> (m: (WaitingAction, Option<PressedQueue>)) ensures m == (v, pq) { (v, pq) })`
//@@ ret r
//@@ spec
    requires
        old(queued)@.len() <= 32,
        old(self).config matches WaitingConfig::TapDance(t) ==> t.actions@.len() >= 1,
    ensures
        // one millisecond: the timeout counts down, the age counts up (both saturating)
        !(old(self).config is Chord) ==> final(self).ticks == sat_add(old(self).ticks, 1),
        // a tap-hold key: the decision table, consulted AFTER the countdown; nothing else changes
        old(self).config matches WaitingConfig::HoldTap(cfg) ==> ht_result(*old(self), cfg, old(queued)@) is None ==> r is None,
        old(self).config matches WaitingConfig::HoldTap(cfg) ==> (ht_result(*old(self), cfg, old(queued)@) matches Some(a) ==> r matches Some(p) && p.0 == a && p.1 is None),
        old(self).config matches WaitingConfig::HoldTap(cfg) ==> final(self).timeout == sat_sub(old(self).timeout, 1),
        old(self).config matches WaitingConfig::HoldTap(cfg) ==> final(self).config == old(self).config,
        old(self).config matches WaitingConfig::HoldTap(cfg) ==> final(self).coord == old(self).coord && final(self).delay == old(self).delay
            && final(self).hold == old(self).hold && final(self).tap == old(self).tap && final(self).timeout_action == old(self).timeout_action,
        old(self).config matches WaitingConfig::HoldTap(cfg) ==> final(queued)@ == old(queued)@,
        // a tap-dance key: the count goes on with what handle_tap_dance reports (details: the
        // fragment tick_wt_tap_dance below)
        old(self).config matches WaitingConfig::TapDance(t) ==> {
            let d = td_decide(aged(*old(self)), t.num_taps, t.actions@.len() as usize, old(queued)@);
            &&& (d.0 is None ==> r is None)
            &&& (d.0 matches Some(a) ==> r matches Some(p) && p.0 == a && p.1 is None)
            &&& final(self).config matches WaitingConfig::TapDance(t2) && t2.num_taps == d.1 && t2.actions@ == t.actions@ && t2.timeout == t.timeout
        },
//@@ before-re 1 /let mut pq = None;/
    proof { assert(*self == aged(*old(self))); }
//@@ before-re 1 /let idx =/
    proof { axiom_min_usize(num_taps as usize, tds.actions@.len() as usize); }

//@ fragment keyberon/src/layout.rs fn tick_wt in `WaitingState<'a, T>` block-after `WaitingConfig::TapDance(ref tds) => {` as tick_wt_tap_dance
//@@ wrap impl<'a, T> WaitingState<'a, T>
//@@ header
fn tick_wt_tap_dance(&mut self, tds: &TapDanceState<'a, T>, queued: &mut Queue) -> (Option<WaitingAction>, Option<WaitingConfig<'a, T>>)
//@@ ret r
//@@ spec
    requires
        old(queued)@.len() <= 32,
        // parser guarantee: a tap-dance lists at least one action
        tds.actions@.len() >= 1,
    ensures ({
        let d = td_decide(*old(self), tds.num_taps, tds.actions@.len() as usize, old(queued)@);
        // the count as handle_tap_dance reports it
        &&& r.0 == d.0
        // decided: the action performed is the N-th listed one for N taps, the LAST one if N reaches
        // (or exceeds) the list length - never an index outside the list
        &&& d.0 is Some ==> final(self).tap == tds.actions@[(if (d.1 as int) >= tds.actions@.len() { tds.actions@.len() - 1 } else if d.1 == 0 { 0 } else { d.1 as int - 1 })]
        &&& d.0 is None ==> final(self).tap == old(self).tap
        // a further tap restarts the timeout; otherwise it keeps running
        &&& final(self).timeout == (if d.1 > tds.num_taps { tds.timeout } else { old(self).timeout })
        // the new count is what the dance continues with
        &&& r.1 matches Some(WaitingConfig::TapDance(t2)) && t2.num_taps == d.1 && t2.actions@ == tds.actions@ && t2.timeout == tds.timeout
        &&& final(self).coord == old(self).coord && final(self).hold == old(self).hold && final(self).timeout_action == old(self).timeout_action
    }),
//@@ before-re 1 /let idx =/
    proof { axiom_min_usize(num_taps as usize, tds.actions@.len() as usize); }
