//@ unit waiting
// Side-car contracts for Layout::{waiting_into_hold, waiting_into_tap, waiting_into_timeout,
// drop_waiting} (keyberon/src/layout.rs): the EXECUTION of a tap-hold / tap-dance / chord decision.
// Properties C05 ("exactly one of its tap, hold or timeout actions and never more than one";
// "waiting_into_hold / _tap / _timeout consume the waiting state exactly once") and C09
// ("action repeated on every participating coordinate so it lasts until the last release").
//
// What is cut: the four methods, verbatim, and the types they touch.  Layout is sliced (R7) to the
// four fields these methods read or write plus one ghost field, the log of do_action calls;
// do_action itself (400 lines, the whole action interpreter) is a stub that appends to that log and
// may change every other field arbitrarily.

//@ raw
// R3: arraydeque / heapless, ASSUMED contracts
pub mod arraydeque {
    use vstd::prelude::*;
    pub mod behavior {
        pub struct Wrapping;
        pub struct Saturating;
    }
    #[verifier::external_body]
    #[verifier::reject_recursive_types(T)]
    #[verifier::reject_recursive_types(B)]
    pub struct ArrayDeque<T, const N: usize, B = behavior::Saturating> {
        v: Vec<T>,
        b: core::marker::PhantomData<B>,
    }
    impl<T, const N: usize, B> ArrayDeque<T, N, B> {
        pub uninterp spec fn view(&self) -> Seq<T>;
        // get(i): the i-th element from the front, None beyond the end
        #[verifier::external_body]
        pub fn get(&self, i: usize) -> (r: Option<&T>)
            ensures
                i < self.view().len() ==> r == Some(&self.view()[i as int]),
                i >= self.view().len() ==> r.is_none(),
        { unimplemented!() }
        #[verifier::external_body]
        pub fn is_empty(&self) -> (r: bool)
            ensures r == (self.view().len() == 0),
        { unimplemented!() }
        #[verifier::external_body]
        pub fn pop_front(&mut self) -> (r: Option<T>)
            ensures
                old(self).view().len() == 0 ==> r.is_none() && final(self).view() == old(self).view(),
                old(self).view().len() > 0 ==> r == Some(old(self).view()[0]) && final(self).view() == old(self).view().drop_first(),
        { unimplemented!() }
        // push_back (Wrapping semantics are only relevant when full; extra_waiting has capacity N)
        #[verifier::external_body]
        pub fn push_back(&mut self, x: T) -> (r: Option<T>)
            ensures
                old(self).view().len() < N ==> r.is_none() && final(self).view() == old(self).view().push(x),
                old(self).view().len() >= N ==> r == Some(old(self).view()[0]) && final(self).view() == old(self).view().drop_first().push(x),
        { unimplemented!() }
        // remove(i): removes and returns the i-th element, shifting the later ones forward
        #[verifier::external_body]
        pub fn remove(&mut self, i: usize) -> (r: Option<T>)
            ensures
                i < old(self).view().len() ==> r == Some(old(self).view()[i as int]) && final(self).view() == old(self).view().remove(i as int),
                i >= old(self).view().len() ==> r.is_none() && final(self).view() == old(self).view(),
        { unimplemented!() }
    }
}
pub mod heapless {
    use vstd::prelude::*;
    #[verifier::external_body]
    #[verifier::reject_recursive_types(T)]
    pub struct Vec<T, const N: usize> { v: std::vec::Vec<T> }
    impl<T, const N: usize> Vec<T, N> {
        pub uninterp spec fn view(&self) -> Seq<T>;
        #[verifier::external_body]
        pub fn iter<'v>(&'v self) -> (r: VIter<'v, T>) ensures r.rest() == self.view() { unimplemented!() }
    }
    #[verifier::external_body]
    #[verifier::reject_recursive_types(T)]
    pub struct VIter<'v, T> { p: core::marker::PhantomData<&'v T> }
    impl<'v, T> VIter<'v, T> {
        pub uninterp spec fn rest(&self) -> Seq<T>;
        /// Iterator::any with a PURE predicate: d[i] is its answer for the i-th element
        #[verifier::external_body]
        pub fn any<F: Fn(&T) -> bool>(self, f: F) -> (r: bool)
            requires forall|x: &T| f.requires((x,)),
            ensures exists|d: Seq<bool>| #![trigger d.len()] d.len() == self.rest().len()
                && (forall|i: int| #![trigger d[i]] #![trigger self.rest()[i]] 0 <= i < d.len() ==> f.ensures((&self.rest()[i],), d[i]))
                && r == (exists|i: int| 0 <= i < d.len() && #[trigger] d[i]),
        { unimplemented!() }
    }
    impl<T: Copy, const N: usize> Clone for Vec<T, N> {
        #[verifier::external_body]
        fn clone(&self) -> (r: Self)
            ensures r.view() == self.view(),
        { unimplemented!() }
    }
}
use arraydeque::ArrayDeque;
use heapless::Vec;

// opaque payload types (only passed around)
#[derive(Clone, Copy)]
#[verifier::external_body]
pub struct HoldTapConfig<'a> { p: core::marker::PhantomData<&'a u8> }
#[verifier::reject_recursive_types(T)]
#[verifier::external_body]
pub struct ChordsGroup<'a, T> { p: core::marker::PhantomData<&'a T> }
#[verifier::external_body]
pub struct KeyCode { p: u16 }

//@ item keyberon/src/layout.rs type KCoord
//@ item keyberon/src/layout.rs const QUEUE_SIZE
//@ item keyberon/src/layout.rs type QueueLen
//@ item keyberon/src/layout.rs type PressedQueue
//@ item keyberon/src/layout.rs struct Queued
//@@ keep-vis
//@@ no-derives
//@ item keyberon/src/layout.rs type Queue
//@ item keyberon/src/layout.rs const ACTION_QUEUE_LEN
//@ item keyberon/src/layout.rs type Delay
//@ item keyberon/src/layout.rs type QueuedAction
//@ item keyberon/src/layout.rs type ActionQueue
//@ item keyberon/src/layout.rs enum WaitingAction
//@@ keep-vis
//@ item keyberon/src/layout.rs const EXTRA_WAITING_LEN
//@ item keyberon/src/layout.rs const MAX_ACTIVE_LAYERS
//@ item keyberon/src/layout.rs type LayerStack
//@ item keyberon/src/action.rs const ONE_SHOT_MAX_ACTIVE
//@ item keyberon/src/action.rs enum OneShotEndConfig
//@@ keep-vis
//@ item keyberon/src/action.rs struct OneShot
//@@ no-derives
//@@ keep-vis
//@@ attr #[verifier::reject_recursive_types(T)]
//@ item keyberon/src/action.rs struct ForkConfig
//@@ no-derives
//@@ keep-vis
//@@ attr #[verifier::reject_recursive_types(T)]
//@ item keyberon/src/action.rs enum Action
//@@ no-derives
//@@ keep-vis
//@@ attr #[verifier::reject_recursive_types(T)]
//@@ keep-variants NoOp Trans KeyCode MultipleKeyCodes OneShot Layer MultipleActions Fork Custom
//@ raw
#[verifier::external_body]
pub struct NormalKeyFlags { p: u8 }
#[verifier::external_body]
#[verifier::reject_recursive_types(T)]
pub struct SequenceEvent<'a, T> { p: core::marker::PhantomData<&'a T> }
//@ item keyberon/src/layout.rs enum State
//@@ keep-vis
//@@ no-derives
//@@ attr #[verifier::reject_recursive_types(T)]
//@ item keyberon/src/layout.rs enum CustomEvent
//@@ no-derives
//@@ keep-vis
//@@ resub Rattr 1 /#\[default\]\s*/ => ``
//@ item keyberon/src/action.rs enum TapDanceConfig
//@@ keep-vis
//@ item keyberon/src/action.rs struct TapDance
//@@ no-derives
//@@ keep-vis
//@@ attr #[verifier::reject_recursive_types(T)]
//@ item keyberon/src/layout.rs struct TapDanceState
//@@ keep-vis
//@@ attr #[verifier::reject_recursive_types(T)]
//@@ no-derives
//@ item keyberon/src/layout.rs struct TapDanceEagerState
//@@ keep-vis
//@@ attr #[verifier::reject_recursive_types(T)]
//@@ no-derives
//@ raw
// R9: `#[derive(Copy, Clone)]` of the two structs, written out (Verus has no built-in Clone for the
// tuple field)
impl<'a, T> Copy for TapDanceState<'a, T> {}
impl<'a, T> Clone for TapDanceState<'a, T> {
    #[verifier::external_body]
    fn clone(&self) -> (r: Self) ensures r == *self { *self }
}
impl<'a, T> Copy for TapDanceEagerState<'a, T> {}
impl<'a, T> Clone for TapDanceEagerState<'a, T> {
    #[verifier::external_body]
    fn clone(&self) -> (r: Self) ensures r == *self { *self }
}
//@ item keyberon/src/layout.rs enum WaitingConfig
//@@ no-derives
//@@ keep-vis
//@@ attr #[verifier::reject_recursive_types(T)]
//@@ resub Rbound 1 /T: 'a \+ std::fmt::Debug/ => `T: 'a`
//@ item keyberon/src/layout.rs struct WaitingState
//@@ no-derives
//@@ keep-vis
//@@ attr #[verifier::reject_recursive_types(T)]
//@@ resub Rbound 1 /T: 'a \+ std::fmt::Debug/ => `T: 'a`
//@ item keyberon/src/layout.rs struct LastPressTracker
//@@ no-derives
//@@ keep-vis
//@ item keyberon/src/layout.rs struct OneShotState
//@@ no-derives
//@@ keep-vis
//@@ add-field pub verif_presses: Ghost<Seq<OneShotHandlePressKey>>
//@ item keyberon/src/layout.rs enum OneShotHandlePressKey
//@@ keep-vis
//@ item keyberon/src/layout.rs type OneShotCoords
//@ item keyberon/src/layout.rs enum Event
//@@ keep-vis
//@ raw
impl OneShotState {
    /// handle_press(OneShotKey(c)): PROVED in unit `oneshot` (contracts/oneshot.spec.rs); here only
    /// the part of that contract the one-shot arm of do_action relies on, as an assumed stub
    #[verifier::external_body]
    fn handle_press(&mut self, key: OneShotHandlePressKey) -> (r: OneShotCoords)
        ensures
            // ghost: that it was told, and what
            final(self).verif_presses@ == old(self).verif_presses@.push(key),
            final(self).keys@ == old(self).keys@,
            final(self).end_config == old(self).end_config,
            final(self).pause_input_processing_delay == old(self).pause_input_processing_delay,
            final(self).ticks_to_ignore_events == old(self).ticks_to_ignore_events,
            key is OneShotKey ==> final(self).timeout == old(self).timeout
                && final(self).other_pressed_keys@ == old(self).other_pressed_keys@,
    { unimplemented!() }
}

//@ raw
/// one call of do_action, with the part of the state that says whether the waiting key had been
/// consumed when it ran
#[verifier::reject_recursive_types(T)]
pub ghost struct DoCall<'a, T> {
    pub action: &'a Action<'a, T>,
    pub coord: KCoord,
    pub delay: u16,
    pub is_oneshot: bool,
    pub waiting_is_none: bool,
    pub extra: Seq<WaitingState<'a, T>>,
}

//@ raw
/// History<KCoord> (recent inputs, for switch conditions): a ghost log of what was pushed
pub struct History<X> { pub verif_pushed: Ghost<Seq<X>> }
impl<X> History<X> {
    #[verifier::external_body]
    fn push_front(&mut self, event: X)
        ensures final(self).verif_pushed@ == old(self).verif_pushed@.push(event),
    { unimplemented!() }
}
/// chords v2: when configured, incoming events go to ITS queue first (same capacity, same wrap)
#[verifier::reject_recursive_types(T)]
pub struct ChordsV2<'a, T> { pub verif_queue: Queue, pub p: core::marker::PhantomData<&'a T> }
impl<'a, T> ChordsV2<'a, T> {
    fn push_back_chv2(&mut self, item: Queued) -> (r: Option<Queued>)
        ensures
            old(self).verif_queue@.len() < 32 ==> r.is_none() && final(self).verif_queue@ == old(self).verif_queue@.push(item),
            old(self).verif_queue@.len() >= 32 ==> r == Some(old(self).verif_queue@[0]) && final(self).verif_queue@ == old(self).verif_queue@.drop_first().push(item),
    { self.verif_queue.push_back(item) }
    /// what one tick of chords v2 lets through to the layout (NOT under contract here: unit chordtab)
    pub uninterp spec fn spec_tick_out(&self, active_layer: u16) -> Seq<Queued>;
    #[verifier::external_body]
    pub fn tick_chv2(&mut self, active_layer: u16) -> (r: SmolQueue)
        ensures r@ == old(self).spec_tick_out(active_layer), r@.len() <= 16,
    { unimplemented!() }
    #[verifier::external_body]
    pub fn get_action_chv2(&mut self) -> (r: QueuedAction<'a, T>) { unimplemented!() }
}
/// keyberon/src/chord.rs: `SmolQueue = ArrayDeque<Queued, SMOL_Q_LEN (16), Wrapping>`
pub type SmolQueue = arraydeque::ArrayDeque<Queued, 16, arraydeque::behavior::Wrapping>;
//@ item keyberon/src/layout.rs struct Layout
//@@ no-derives
//@@ keep-vis
//@@ attr #[verifier::reject_recursive_types(T)]
//@@ resub Rbound 1 /T: 'a \+ std::fmt::Debug,/ => `T: 'a,`
//@@ keep-fields states waiting extra_waiting tap_dance_eager queue oneshot last_press_tracker historical_inputs chords_v2 action_queue rpt_action quick_tap_hold_timeout
//@@ add-field pub verif_calls: Ghost<Seq<DoCall<'a, T>>>
//@@ add-field pub verif_events: Ghost<Seq<Event>>
//@@ add-field pub verif_dequeued: Ghost<Seq<Queued>>
//@@ add-field pub verif_post_oneshot: Ghost<OneShotState>

//@ raw
/// R5: the layer-stack iterator handed to do_action (used there to resolve transparent keys) is
/// abstracted: `&mut layer_stack.into_iter()` / `&mut layer_stack.clone().into_iter()` become this
/// opaque argument.  ASSUMED irrelevant to which action runs where.
#[verifier::external_body]
pub struct VerifLayerIter { p: u8 }
#[verifier::external_body]
fn verif_ls_iter(ls: &LayerStack) -> VerifLayerIter { unimplemented!() }
impl VerifLayerIter {
    pub uninterp spec fn layers(&self) -> Seq<u16>;
    /// `layer_stack.collect()`: the layer order captured for the pending key (ASSUMED)
    #[verifier::external_body]
    fn collect(self) -> (r: LayerStack)
        ensures r@ == self.layers(),
    { unimplemented!() }
}
/// R16: `pq.iter().copied()[.skip(n)]` -> the coordinates of the pressed queue, front to back, from
/// the n-th on (n = 0 when there is no skip; ASSUMED meaning of iter / copied / skip)
#[verifier::external_body]
fn verif_coords(pq: &PressedQueue, n: usize) -> (r: std::vec::Vec<KCoord>)
    ensures r@ == (if n <= pq@.len() { pq@.subrange(n as int, pq@.len() as int) } else { Seq::<KCoord>::empty() }),
{ unimplemented!() }

impl<'a, const C: usize, const R: usize, T: 'a + Copy> Layout<'a, C, R, T> {
    /// do_action: NOT under contract.  It is recorded that it ran, with which action, where and
    /// with which delay; it may change every field (a hold action may itself be a tap-hold).
    #[verifier::external_body]
    fn do_action(&mut self, action: &'a Action<'a, T>, coord: KCoord, delay: u16, is_oneshot: bool, layer_stack: VerifLayerIter) -> (r: CustomEvent<'a, T>)
        ensures
            final(self).verif_calls@ == old(self).verif_calls@.push(DoCall {
                action, coord, delay, is_oneshot,
                waiting_is_none: old(self).waiting is None,
                extra: old(self).extra_waiting@,
            }),
            // ghost: the one-shot table it leaves behind (whatever that is)
            final(self).verif_post_oneshot@ == final(self).oneshot,
            final(self).verif_events@ == old(self).verif_events@,
            final(self).verif_dequeued@ == old(self).verif_dequeued@,
            // ASSUMED from reading do_action and its callees: none of them names `self.queue` (the
            // event queue is written by `event` and `tick` only)
            final(self).queue@ == old(self).queue@,
            // ASSUMPTION (u16 arithmetic, the same one waiting_into_* state as a precondition): the
            // press-to-decision delay of whatever is left waiting fits
            delays_fit(final(self).waiting, final(self).extra_waiting@),
            // ASSUMED from reading do_action: the only assignments to tap_dance_eager in it store
            // Some(fresh counter with num_taps 1); an existing counter is never cleared
            old(self).tap_dance_eager is Some ==> final(self).tap_dance_eager is Some
                && (final(self).tap_dance_eager == old(self).tap_dance_eager || final(self).tap_dance_eager.unwrap().num_taps == 1),
    { unimplemented!() }
    /// Layout::event: NOT under contract (on a full queue it forces pending keys into hold); recorded
    #[verifier::external_body]
    fn event(&mut self, event: Event)
        ensures
            final(self).verif_events@ == old(self).verif_events@.push(event),
            // the ghost logs record what the EXTRACTED text calls; what a stub does inside is not logged
            final(self).verif_calls@ == old(self).verif_calls@,
            final(self).verif_post_oneshot@ == old(self).verif_post_oneshot@,
    { unimplemented!() }
}
/// R5: `&mut std::iter::empty()` (no layer order: the inner action of a one-shot is not transparent)
#[verifier::external_body]
fn verif_ls_empty() -> VerifLayerIter { unimplemented!() }

/// the undecided key an index denotes: -1 the primary one, 0.. the extra (concurrent) ones
spec fn waiting_at<'a, T>(w: Option<WaitingState<'a, T>>, extra: Seq<WaitingState<'a, T>>, idx: i8) -> Option<WaitingState<'a, T>> {
    if idx < 0 { w } else if (idx as int) < extra.len() { Some(extra[idx as int]) } else { None }
}
/// the press-to-decision delay reported to the action
spec fn decided_delay<'a, T>(w: WaitingState<'a, T>) -> int {
    match w.config {
        WaitingConfig::TapDance(_) => 0,
        _ => w.delay + w.ticks,
    }
}

//@ raw
/// every undecided key's press-to-decision delay fits u16 (ASSUMPTION, machine arithmetic)
spec fn delays_fit<'a, T>(w: Option<WaitingState<'a, T>>, extra: Seq<WaitingState<'a, T>>) -> bool {
    forall|idx: i8| #![trigger waiting_at(w, extra, idx)] (waiting_at(w, extra, idx) matches Some(ws) ==> decided_delay(ws) <= u16::MAX)
}
/// THE call a decision makes: the chosen action, at the key's coordinate, with the delay accumulated
/// since the press, not as a one-shot, in a state from which the waiting key has been removed
spec fn decision_call<'a, T>(w: WaitingState<'a, T>, chosen: &'a Action<'a, T>, w0: Option<WaitingState<'a, T>>, extra0: Seq<WaitingState<'a, T>>, idx: i8) -> DoCall<'a, T> {
    DoCall {
        action: chosen, coord: w.coord, delay: decided_delay(w) as u16, is_oneshot: false,
        waiting_is_none: idx < 0 || w0 is None,
        extra: if idx < 0 { extra0 } else { extra0.remove(idx as int) },
    }
}

//@ item keyberon/src/layout.rs fn waiting_into_hold in `Layout<'a, C, R, T>`
//@@ wrap impl<'a, const C: usize, const R: usize, T: 'a + Copy> Layout<'a, C, R, T>
//@@ resub R5 1 /&mut layer_stack(?:\.clone\(\))?\.into_iter\(\)/ => `verif_ls_iter(&layer_stack)`
//@@ ret r
//@@ spec
    requires
        // ASSUMPTION (u16 arithmetic): the press-to-decision delay fits
        waiting_at(old(self).waiting, old(self).extra_waiting@, idx) matches Some(w) ==> decided_delay(w) <= u16::MAX,
    ensures
        final(self).verif_dequeued@ == old(self).verif_dequeued@,
        // the event queue is not touched (frame; through the assumed frame of do_action)
        final(self).queue@ == old(self).queue@,
        // the u16 assumption is passed on (through the one on do_action)
        delays_fit(old(self).waiting, old(self).extra_waiting@) ==> delays_fit(final(self).waiting, final(self).extra_waiting@),
        // nothing is waiting at idx: nothing happens
        waiting_at(old(self).waiting, old(self).extra_waiting@, idx) is None ==>
            r is NoEvent && final(self).verif_calls@ == old(self).verif_calls@
            && final(self).waiting == old(self).waiting && final(self).extra_waiting@ == old(self).extra_waiting@,
        // otherwise EXACTLY ONE action runs, it is the HOLD action of that key, at the key's
        // coordinate, with the delay accumulated since the press, and it runs in a state from which
        // the waiting key has been removed
        waiting_at(old(self).waiting, old(self).extra_waiting@, idx) matches Some(w) ==>
            final(self).verif_calls@ == old(self).verif_calls@.push(decision_call(w, w.hold, old(self).waiting, old(self).extra_waiting@, idx)),

//@ item keyberon/src/layout.rs fn waiting_into_timeout in `Layout<'a, C, R, T>`
//@@ wrap impl<'a, const C: usize, const R: usize, T: 'a + Copy> Layout<'a, C, R, T>
//@@ resub R5 1 /&mut layer_stack(?:\.clone\(\))?\.into_iter\(\)/ => `verif_ls_iter(&layer_stack)`
//@@ ret r
//@@ spec
    requires
        waiting_at(old(self).waiting, old(self).extra_waiting@, idx) matches Some(w) ==> decided_delay(w) <= u16::MAX,
    ensures
        final(self).verif_dequeued@ == old(self).verif_dequeued@,
        waiting_at(old(self).waiting, old(self).extra_waiting@, idx) is None ==>
            r is NoEvent && final(self).verif_calls@ == old(self).verif_calls@
            && final(self).waiting == old(self).waiting && final(self).extra_waiting@ == old(self).extra_waiting@,
        // EXACTLY ONE action: the TIMEOUT action of that key
        waiting_at(old(self).waiting, old(self).extra_waiting@, idx) matches Some(w) ==>
            final(self).verif_calls@ == old(self).verif_calls@.push(decision_call(w, w.timeout_action, old(self).waiting, old(self).extra_waiting@, idx)),

//@ item keyberon/src/layout.rs fn drop_waiting in `Layout<'a, C, R, T>`
//@@ wrap impl<'a, const C: usize, const R: usize, T: 'a + Copy> Layout<'a, C, R, T>
//@@ ret r
//@@ spec
    ensures
        final(self).verif_dequeued@ == old(self).verif_dequeued@,
        // NoOp: the press is dropped without any action
        r is NoEvent, final(self).waiting is None, final(self).verif_calls@ == old(self).verif_calls@,
        final(self).extra_waiting@ == old(self).extra_waiting@,

//@ raw
/// what of a do_action call is determined by a decision (the rest of the record is the state the
/// earlier calls left behind, which is arbitrary)
#[verifier::reject_recursive_types(T)]
pub ghost struct Sig<'a, T> { pub action: Action<'a, T>, pub coord: KCoord, pub delay: u16, pub is_oneshot: bool }
spec fn sig<'a, T>(c: DoCall<'a, T>) -> Sig<'a, T> { Sig { action: *c.action, coord: c.coord, delay: c.delay, is_oneshot: c.is_oneshot } }
spec fn sigs<'a, T>(cs: Seq<DoCall<'a, T>>) -> Seq<Sig<'a, T>>
    decreases cs.len(),
{
    if cs.len() == 0 { Seq::empty() } else { sigs(cs.drop_last()).push(sig(cs.last())) }
}
/// the "simple" actions that are repeated on every coordinate of a chord
spec fn simple<'a, T>(a: Action<'a, T>) -> bool {
    a is KeyCode || a is MultipleKeyCodes || a is OneShot || a is Layer
}
/// action a performed once on each coordinate, in order
spec fn rep_coords<'a, T>(a: Action<'a, T>, cs: Seq<KCoord>, delay: u16) -> Seq<Sig<'a, T>>
    decreases cs.len(),
{
    if cs.len() == 0 { Seq::empty() }
    else { rep_coords(a, cs.drop_last(), delay).push(Sig { action: a, coord: cs.last(), delay, is_oneshot: false }) }
}
/// each simple member of a multi, in order, performed on each coordinate
spec fn rep_multi<'a, T>(acs: Seq<Action<'a, T>>, cs: Seq<KCoord>, delay: u16) -> Seq<Sig<'a, T>>
    decreases acs.len(),
{
    if acs.len() == 0 { Seq::empty() }
    else { rep_multi(acs.drop_last(), cs, delay) + (if simple(acs.last()) { rep_coords(acs.last(), cs, delay) } else { Seq::empty() }) }
}
/// C09: what a chord's tap action does on the OTHER participating coordinates
spec fn repeats<'a, T>(tap: Action<'a, T>, pq: Option<PressedQueue>, delay: u16) -> Seq<Sig<'a, T>> {
    match pq {
        None => Seq::empty(),
        Some(q) => if simple(tap) { rep_coords(tap, q@, delay) }
                   else { match tap { Action::MultipleActions(acs) => rep_multi(acs@, q@, delay), _ => Seq::empty() } },
    }
}
proof fn lemma_sigs_push<'a, T>(cs: Seq<DoCall<'a, T>>, c: DoCall<'a, T>)
    ensures sigs(cs.push(c)) == sigs(cs).push(sig(c)),
{
    assert(cs.push(c).drop_last() =~= cs);
}

//@ item keyberon/src/layout.rs fn waiting_into_tap in `Layout<'a, C, R, T>`
//@@ wrap impl<'a, const C: usize, const R: usize, T: 'a + Copy> Layout<'a, C, R, T>
//@@ resub R5 3 /&mut layer_stack(?:\.clone\(\))?\.into_iter\(\)/ => `verif_ls_iter(&layer_stack)`
//@@ sub R10 1 `for ac in acs.iter()` => `for ac in ita: acs.iter()`
//@@ resub R16 2 /for other_coord in pq\.iter\(\)\.copied\(\)(?:\.skip\((\d+)\))?/ => `for other_coord in itc: verif_coords(&pq, \1)` default `0`
//@@ ret r
//@@ spec
    requires
        waiting_at(old(self).waiting, old(self).extra_waiting@, idx) matches Some(w) ==> decided_delay(w) <= u16::MAX,
    ensures
        final(self).verif_dequeued@ == old(self).verif_dequeued@,
        waiting_at(old(self).waiting, old(self).extra_waiting@, idx) is None ==>
            r is NoEvent && final(self).verif_calls@ == old(self).verif_calls@
            && final(self).waiting == old(self).waiting && final(self).extra_waiting@ == old(self).extra_waiting@,
        // the TAP action of that key runs first and exactly once at the key's own coordinate, in a
        // state from which the waiting key has been removed; for a chord (pq given) the simple
        // key / layer actions are then repeated once on every other participating coordinate, in
        // order, and nothing else runs
        waiting_at(old(self).waiting, old(self).extra_waiting@, idx) matches Some(w) ==> {
            let n0 = old(self).verif_calls@.len() as int;
            let calls = final(self).verif_calls@;
            &&& calls.len() >= n0 + 1
            &&& calls.subrange(0, n0 + 1) == old(self).verif_calls@.push(decision_call(w, w.tap, old(self).waiting, old(self).extra_waiting@, idx))
            &&& sigs(calls.subrange(n0 + 1, calls.len() as int)) == repeats(*w.tap, pq, decided_delay(w) as u16)
        },
//@@ after-re 1 /let ret = self\.do_action\([^;]*\);/
    let ghost n0 = old(self).verif_calls@.len() as int;
    let ghost first = self.verif_calls@;
    let ghost pq0 = pq;
    proof {
        assert(first.subrange(0, n0 + 1) =~= first);
        assert(self.verif_calls@.subrange(n0 + 1, self.verif_calls@.len() as int) =~= Seq::<DoCall<'a, T>>::empty());
    }
//@@ after 1 `if let Some(pq) = pq {`
    let ghost cs = pq@;
    proof { assert(cs.subrange(0, cs.len() as int) =~= cs); }
//@@ loop-at `match tap {`
                        invariant
                            self.verif_dequeued@ == old(self).verif_dequeued@,
                            itc.seq() == cs, 0 <= itc.index@ <= cs.len(), 0 <= n0, first.len() == n0 + 1,
                            self.verif_calls@.len() == n0 + 1 + itc.index@,
                            self.verif_calls@.subrange(0, n0 + 1) == first,
                            sigs(self.verif_calls@.subrange(n0 + 1, self.verif_calls@.len() as int)) == rep_coords(*tap, cs.subrange(0, itc.index@ as int), delay),
//@@ before-re 1 /self\.do_action\(\s*tap,\s*other_coord,[^;]*\);/
    let ghost before = self.verif_calls@;
//@@ after-re 1 /self\.do_action\(\s*tap,\s*other_coord,[^;]*\);/
    proof {
        let after = self.verif_calls@;
        let i = itc.index@ as int;
        assert(after.subrange(0, n0 + 1) =~= before.subrange(0, n0 + 1));
        assert(after.subrange(n0 + 1, after.len() as int) =~= before.subrange(n0 + 1, before.len() as int).push(after.last()));
        lemma_sigs_push(before.subrange(n0 + 1, before.len() as int), after.last());
        assert(cs.subrange(0, i + 1).drop_last() =~= cs.subrange(0, i));
        assert(cs.subrange(0, i + 1).last() == other_coord);
    }
//@@ loop-at `Action::MultipleActions(acs) => {`
                        invariant
                            self.verif_dequeued@ == old(self).verif_dequeued@,
                            ita.seq().len() == acs@.len(), cs == pq@, 0 <= ita.index@ <= acs@.len(),
                            forall|i: int| 0 <= i < acs@.len() ==> *(#[trigger] ita.seq()[i]) == acs@[i],
                            self.verif_calls@.len() >= n0 + 1, 0 <= n0, first.len() == n0 + 1,
                            self.verif_calls@.subrange(0, n0 + 1) == first,
                            sigs(self.verif_calls@.subrange(n0 + 1, self.verif_calls@.len() as int)) == rep_multi(acs@.subrange(0, ita.index@ as int), cs, delay),
//@@ before 1 `if matches!(`
    proof {
        let i = ita.index@ as int;
        assert(acs@.subrange(0, i + 1).drop_last() =~= acs@.subrange(0, i));
        assert(acs@.subrange(0, i + 1).last() == *ac);
        assert(cs.subrange(0, cs.len() as int) =~= cs);
        assert(rep_coords(*ac, cs.subrange(0, 0), delay) =~= Seq::<Sig<'a, T>>::empty());
        assert(rep_multi(acs@.subrange(0, i), cs, delay) + Seq::<Sig<'a, T>>::empty() =~= rep_multi(acs@.subrange(0, i), cs, delay));
    }
//@@ loop-at `if matches!(`
                                invariant
                            self.verif_dequeued@ == old(self).verif_dequeued@,
                                    itc.seq() == cs, 0 <= itc.index@ <= cs.len(), 0 <= n0, first.len() == n0 + 1,
                                    0 <= ita.index@ < acs@.len(),
                                    self.verif_calls@.len() >= n0 + 1,
                                    self.verif_calls@.subrange(0, n0 + 1) == first,
                                    sigs(self.verif_calls@.subrange(n0 + 1, self.verif_calls@.len() as int))
                                        == rep_multi(acs@.subrange(0, ita.index@ as int), cs, delay) + rep_coords(*ac, cs.subrange(0, itc.index@ as int), delay),
//@@ before-re 1 /self\.do_action\(\s*ac,\s*other_coord,[^;]*\);/
    let ghost before = self.verif_calls@;
//@@ after-re 1 /self\.do_action\(\s*ac,\s*other_coord,[^;]*\);/
    proof {
        let after = self.verif_calls@;
        let i = itc.index@ as int;
        assert(after.subrange(0, n0 + 1) =~= before.subrange(0, n0 + 1));
        assert(after.subrange(n0 + 1, after.len() as int) =~= before.subrange(n0 + 1, before.len() as int).push(after.last()));
        lemma_sigs_push(before.subrange(n0 + 1, before.len() as int), after.last());
        assert(cs.subrange(0, i + 1).drop_last() =~= cs.subrange(0, i));
        assert(cs.subrange(0, i + 1).last() == other_coord);
        let m = rep_multi(acs@.subrange(0, ita.index@ as int), cs, delay);
        let c0 = rep_coords(*ac, cs.subrange(0, i), delay);
        assert((m + c0).push(sig(after.last())) =~= m + c0.push(sig(after.last())));
    }
//@@ before 1 `self.oneshot.pause_input_processing_ticks = self.oneshot.pause_input_processing_delay;`
    proof {
        let calls = self.verif_calls@;
        let rest = calls.subrange(n0 + 1, calls.len() as int);
        assert(first == old(self).verif_calls@.push(decision_call(*w, w.tap, old(self).waiting, old(self).extra_waiting@, idx)));
        match pq0 {
            None => { assert(rest =~= Seq::<DoCall<'a, T>>::empty()); }
            Some(q) => {
                assert(q@.subrange(0, q@.len() as int) =~= q@);
                match *tap {
                    Action::MultipleActions(acs) => { assert(acs@.subrange(0, acs@.len() as int) =~= acs@); }
                    Action::KeyCode(_) | Action::MultipleKeyCodes(_) | Action::OneShot(_) | Action::Layer(_) => {}
                    _ => { assert(rest =~= Seq::<DoCall<'a, T>>::empty()); }
                }
            }
        }
    }


// ---------------------------------------------------------------------------------------
// The press of a tap-hold key: the HoldTap arm of Layout::do_action (a FRAGMENT; the variables
// bound by the arm's pattern become parameters).  C05: the press either becomes ONE pending
// decision carrying exactly that key's three actions, or - re-press inside the tap-repress window -
// runs the tap action at once, held; never both.
// ---------------------------------------------------------------------------------------
//@ item keyberon/src/layout.rs const REAL_KEY_ROW
//@ item keyberon/src/layout.rs fn update_coord in `LastPressTracker`
//@@ wrap impl LastPressTracker
//@@ spec
    ensures
        final(self).tap_hold_timeout == old(self).tap_hold_timeout,
        final(self).coord == (if coord.0 == 0 { coord } else { old(self).coord }),
//@ item keyberon/src/layout.rs fn update in `CustomEvent<'_, T>`
//@@ wrap impl<T> CustomEvent<'_, T>
//@@ sub Ruse 1 `use CustomEvent::*;` => ``
//@@ resub Rpath 2 /\(Release\(_\)/ => `(CustomEvent::Release(_)`
//@@ resub Rpath 1 /\(Press\(_\), NoEvent\)/ => `(CustomEvent::Press(_), CustomEvent::NoEvent)`
//@@ resub Rpath 1 /, NoEvent\) \|/ => `, CustomEvent::NoEvent) |`
//@@ resub Rpath 1 /, Press\(_\)\) =>/ => `, CustomEvent::Press(_)) =>`

//@ fragment keyberon/src/layout.rs fn do_action in `Layout<'a, C, R, T>` block-after `tap_hold_interval, }) => {` as do_action_hold_tap
//@@ wrap impl<'a, const C: usize, const R: usize, T: 'a + Copy> Layout<'a, C, R, T>
//@@ header
fn do_action_hold_tap(&mut self, coord: KCoord, delay: u16, is_oneshot: bool, layer_stack: VerifLayerIter, timeout: &u16, hold: &'a Action<'a, T>, tap: &'a Action<'a, T>, timeout_action: &'a Action<'a, T>, config: &HoldTapConfig<'a>, tap_hold_interval: &u16) -> CustomEvent<'a, T>
//@@ ret r
//@@ spec
    ensures
        // the repress tracker remembers this key (real keys only) for the next press
        coord.0 == 0 ==> final(self).last_press_tracker.coord == coord,
        // ordinary press: exactly one pending decision is created, carrying this key's three actions
        // and clock; NO action runs now
        (*tap_hold_interval == 0 || coord != old(self).last_press_tracker.coord || old(self).last_press_tracker.tap_hold_timeout == 0) ==> {
            let w = WaitingState {
                coord,
                timeout: if old(self).quick_tap_hold_timeout { if *timeout >= delay { (*timeout - delay) as u16 } else { 0u16 } } else { *timeout },
                delay: if old(self).quick_tap_hold_timeout { 0u16 } else { delay },
                ticks: 0u16,
                hold, tap, timeout_action,
                config: WaitingConfig::HoldTap(*config),
                layer_stack: if old(self).waiting is None { final(self).waiting.unwrap().layer_stack } else { final(self).extra_waiting@.last().layer_stack },
                prev_queue_len: 255u8,
            };
            &&& r is NoEvent
            &&& final(self).verif_calls@ == old(self).verif_calls@
            &&& coord.0 != 0 ==> final(self).last_press_tracker.coord == old(self).last_press_tracker.coord
            &&& w.layer_stack@ == layer_stack.layers()
            &&& final(self).last_press_tracker.tap_hold_timeout == *tap_hold_interval
            // the primary slot if it is free, else one more concurrent tap-hold
            &&& old(self).waiting is None ==> final(self).waiting == Some(w) && final(self).extra_waiting@ == old(self).extra_waiting@
            &&& old(self).waiting is Some ==> final(self).waiting == old(self).waiting
                    && (old(self).extra_waiting@.len() < 8 ==> final(self).extra_waiting@ == old(self).extra_waiting@.push(w))
        },
        // re-press of the same key inside the tap-repress window: no decision, the tap action runs at
        // once (and stays down while the key is held) - exactly one action
        !(*tap_hold_interval == 0 || coord != old(self).last_press_tracker.coord || old(self).last_press_tracker.tap_hold_timeout == 0) ==> {
            &&& final(self).verif_calls@ == old(self).verif_calls@.push(DoCall {
                    action: tap, coord, delay, is_oneshot,
                    waiting_is_none: old(self).waiting is None, extra: old(self).extra_waiting@ })
        },


// ---------------------------------------------------------------------------------------
// The press of a tap-dance key: the TapDance arm of Layout::do_action (a FRAGMENT).  C17: the lazy
// form starts counting at ONE tap with the full action list and timeout and performs nothing yet;
// the eager form performs the FIRST action at once, exactly once, and starts (or keeps) its counter.
// ---------------------------------------------------------------------------------------
//@ fragment keyberon/src/layout.rs fn do_action in `Layout<'a, C, R, T>` block-after `&TapDance(td) => {` as do_action_tap_dance
//@@ wrap impl<'a, const C: usize, const R: usize, T: 'a + Copy> Layout<'a, C, R, T>
//@@ header
fn do_action_tap_dance(&mut self, coord: KCoord, delay: u16, layer_stack: VerifLayerIter, td: &'a TapDance<'a, T>)
//@@ spec
    requires
        // parser guarantee: a tap-dance lists at least one action
        td.actions@.len() >= 1,
    ensures
        td.config is Lazy ==> {
            &&& final(self).verif_calls@ == old(self).verif_calls@
            &&& final(self).tap_dance_eager == old(self).tap_dance_eager
            &&& final(self).extra_waiting@ == old(self).extra_waiting@
            &&& final(self).waiting matches Some(w)
            &&& final(self).waiting.unwrap().coord == coord
            &&& final(self).waiting.unwrap().timeout == td.timeout
            &&& final(self).waiting.unwrap().delay == delay
            &&& final(self).waiting.unwrap().ticks == 0
            &&& final(self).waiting.unwrap().prev_queue_len == 255
            &&& final(self).waiting.unwrap().layer_stack@ == layer_stack.layers()
            &&& *final(self).waiting.unwrap().hold is NoOp && *final(self).waiting.unwrap().tap is NoOp && *final(self).waiting.unwrap().timeout_action is NoOp
            &&& final(self).waiting.unwrap().config matches WaitingConfig::TapDance(st)
            &&& match final(self).waiting.unwrap().config { WaitingConfig::TapDance(st) => st.actions@ == td.actions@ && st.timeout == td.timeout && st.num_taps == 1, _ => false }
        },
        td.config is Eager ==> {
            // the first action, once, now
            &&& final(self).verif_calls@.len() == old(self).verif_calls@.len() + 1
            &&& final(self).verif_calls@.subrange(0, old(self).verif_calls@.len() as int) == old(self).verif_calls@
            &&& final(self).verif_calls@.last().action == td.actions@[0]
            &&& final(self).verif_calls@.last().coord == coord
            &&& final(self).verif_calls@.last().delay == delay
            &&& !final(self).verif_calls@.last().is_oneshot
        },
//@@ before-re 1 /self\.do_action\(td\.actions[^;]*\);/
    let ghost c0 = self.verif_calls@;
    proof {
        // the counter the first action runs under: a fresh one for this key unless this key's
        // counter is already running
        assert(self.tap_dance_eager is Some);
        assert(self.tap_dance_eager.unwrap().coord == coord);
        assert(!(old(self).tap_dance_eager matches Some(t) && t.coord == coord) ==> {
            let t = self.tap_dance_eager.unwrap();
            t.actions@ == td.actions@ && t.timeout == td.timeout && t.orig_timeout == td.timeout && t.num_taps == 1 });
        assert(old(self).tap_dance_eager matches Some(t) && t.coord == coord ==> self.tap_dance_eager == old(self).tap_dance_eager);
        assert(c0 == old(self).verif_calls@);
    }
//@@ after-re 1 /self\.do_action\(td\.actions[^;]*\);/
    proof { assert(self.verif_calls@.subrange(0, c0.len() as int) =~= c0); }


// ---------------------------------------------------------------------------------------
// The tap of a one-shot key: the OneShot arm of Layout::do_action (a FRAGMENT).  C06: "One-shot
// keys tapped in a row combine and restart the timeout"; the inner action is performed once, as a
// one-shot; a 17th active one-shot key releases the oldest.
// ---------------------------------------------------------------------------------------
//@ fragment keyberon/src/layout.rs fn do_action in `Layout<'a, C, R, T>` block-after `&OneShot(oneshot) => {` as do_action_one_shot
//@@ wrap impl<'a, const C: usize, const R: usize, T: 'a + Copy> Layout<'a, C, R, T>
//@@ header
fn do_action_one_shot(&mut self, action: &'a Action<'a, T>, coord: KCoord, delay: u16, oneshot: &'a OneShot<'a, T>) -> CustomEvent<'a, T>
//@@ resub R5 1 /&mut std::iter::empty\(\)/ => `verif_ls_empty()`
//@@ ret r
//@@ spec
    ensures
        // the inner action runs exactly once, flagged as a one-shot activation
        final(self).verif_calls@.len() == old(self).verif_calls@.len() + 1,
        final(self).verif_calls@.subrange(0, old(self).verif_calls@.len() as int) == old(self).verif_calls@,
        final(self).verif_calls@.last().action == oneshot.action,
        final(self).verif_calls@.last().coord == coord,
        final(self).verif_calls@.last().delay == delay,
        final(self).verif_calls@.last().is_oneshot,
        ({
            let mid = final(self).verif_post_oneshot@;   // the table as the inner action left it
            // room in the table: this key joins the active ones (they combine), the timeout restarts
            // with this key's value and its end variant governs; nothing is released
            &&& mid.keys@.len() < 16 ==> {
                &&& final(self).oneshot.keys@ == mid.keys@.push(coord)
                // the one-shot logic is told about EVERY press of a one-shot key, whatever its end
                // variant: that is what forgets the deferred release of a key that is pressed again
                // and held ("a held one-shot key acts as the plain key")
                &&& final(self).oneshot.verif_presses@ == mid.verif_presses@.push(OneShotHandlePressKey::OneShotKey(coord))
                &&& final(self).oneshot.timeout == oneshot.timeout
                &&& final(self).oneshot.end_config == oneshot.end_config
                &&& final(self).verif_events@ == old(self).verif_events@
                &&& final(self).rpt_action == Some(action)
            }
            // table full: the oldest active one-shot key is released (not silently dropped)
            &&& mid.keys@.len() >= 16 ==> final(self).verif_events@ == old(self).verif_events@.push(Event::Release(mid.keys@[0].0, mid.keys@[0].1))
        }),
//@@ after-re 1 /let custom =\s*self\.do_action\([^;]*\);/
    proof { assert(self.verif_calls@.subrange(0, old(self).verif_calls@.len() as int) =~= old(self).verif_calls@); }

// ---------------------------------------------------------------------------------------
// Layout::tick, the dispatch of a decision (a FRAGMENT: the `match &mut self.waiting { .. }`
// expression handed to custom.update).  C05: the ONE method matching the decision runs - Hold ->
// waiting_into_hold, Tap -> waiting_into_tap, Timeout -> waiting_into_timeout, NoOp -> drop; no
// decision yet -> nothing; and while a key is undecided the input queue is NOT dequeued.
// ---------------------------------------------------------------------------------------
//@ raw
/// WaitingState::tick_wt: the DECISION.  Bounded Kani harnesses (c05_b_*, c17_b_*) decide it on the
/// real code; here it is a deterministic stub: its result and what it leaves in the waiting state
/// are uninterpreted functions of what it was given.
pub uninterp spec fn decide<'a, T>(w: WaitingState<'a, T>, q: Seq<Queued>, aq: Seq<QueuedAction<'a, T>>) -> Option<(WaitingAction, Option<PressedQueue>)>;
pub uninterp spec fn ticked<'a, T>(w: WaitingState<'a, T>, q: Seq<Queued>, aq: Seq<QueuedAction<'a, T>>) -> WaitingState<'a, T>;
impl<'a, T> WaitingState<'a, T> {
    #[verifier::external_body]
    fn tick_wt(&mut self, queued: &mut Queue, action_queue: &mut ActionQueue<'a, T>) -> (r: Option<(WaitingAction, Option<PressedQueue>)>)
        ensures
            r == decide(*old(self), old(queued)@, old(action_queue)@),
            *final(self) == ticked(*old(self), old(queued)@, old(action_queue)@),
    { unimplemented!() }
}
impl<'a, const C: usize, const R: usize, T: 'a + Copy> Layout<'a, C, R, T> {
    /// Layout::dequeue: NOT under contract; recorded
    #[verifier::external_body]
    fn dequeue(&mut self, queue: Queued) -> (r: CustomEvent<'a, T>)
        ensures
            final(self).verif_dequeued@ == old(self).verif_dequeued@.push(queue),
            final(self).verif_calls@ == old(self).verif_calls@,
            // ASSUMED from reading dequeue and its callees: none of them names `self.queue`
            final(self).queue@ == old(self).queue@,
            // ASSUMPTION (u16 arithmetic), as on do_action
            delays_fit(final(self).waiting, final(self).extra_waiting@),
    { unimplemented!() }
}

//@ fragment keyberon/src/layout.rs fn tick in `Layout<'a, C, R, T>` block-after `custom.update(match &mut self.waiting {` as tick_dispatch
//@@ wrap impl<'a, const C: usize, const R: usize, T: 'a + Copy> Layout<'a, C, R, T>
//@@ header
fn tick_dispatch(&mut self) -> CustomEvent<'a, T>
//@@ prefix
    match &mut self.waiting {
//@@ tail
    }
//@@ ret r
//@@ spec
    requires
        // u16 arithmetic of the waiting_into_* methods, see there
        old(self).waiting matches Some(w) ==> decided_delay(ticked(w, old(self).queue@, old(self).action_queue@)) <= u16::MAX,
    ensures
        // a key is undecided: its decision function runs once; nothing is dequeued; and
        old(self).waiting matches Some(w0) ==> {
            let d = decide(w0, old(self).queue@, old(self).action_queue@);
            let w = ticked(w0, old(self).queue@, old(self).action_queue@);
            let n0 = old(self).verif_calls@.len() as int;
            let calls = final(self).verif_calls@;
            &&& final(self).verif_dequeued@ == old(self).verif_dequeued@
            // no decision yet: no action, the key stays undecided (as its tick left it)
            &&& d is None ==> calls == old(self).verif_calls@ && final(self).waiting == Some(w) && r is NoEvent
            // Hold -> exactly the hold action; Timeout -> exactly the timeout action
            &&& (d matches Some(dd) && dd.0 is Hold) ==> calls == old(self).verif_calls@.push(decision_call(w, w.hold, Some(w), old(self).extra_waiting@, -1i8))
            &&& (d matches Some(dd) && dd.0 is Timeout) ==> calls == old(self).verif_calls@.push(decision_call(w, w.timeout_action, Some(w), old(self).extra_waiting@, -1i8))
            // Tap -> the tap action first (then only the chord repeats)
            &&& (d matches Some(dd) && dd.0 is Tap) ==> calls.len() >= n0 + 1
                    && calls.subrange(0, n0 + 1) == old(self).verif_calls@.push(decision_call(w, w.tap, Some(w), old(self).extra_waiting@, -1i8))
                    && sigs(calls.subrange(n0 + 1, calls.len() as int)) == repeats(*w.tap, d.unwrap().1, decided_delay(w) as u16)
            // NoOp -> the press is dropped: no action, nothing undecided
            &&& (d matches Some(dd) && dd.0 is NoOp) ==> calls == old(self).verif_calls@ && final(self).waiting is None
        },
        // nothing undecided in the primary slot: no decision is executed here
        old(self).waiting is None ==> final(self).verif_calls@ == old(self).verif_calls@,
        // and input is taken from the queue only if no concurrent tap-hold is pending either and the
        // one-shot pause has run out: then exactly the oldest queued event
        old(self).waiting is None ==> {
            if old(self).extra_waiting@.len() == 0 && old(self).oneshot.pause_input_processing_ticks == 0 && old(self).queue@.len() > 0 {
                final(self).verif_dequeued@ == old(self).verif_dequeued@.push(old(self).queue@[0])
            } else {
                final(self).verif_dequeued@ == old(self).verif_dequeued@
            }
        },

// ---------------------------------------------------------------------------------------
// A dequeued PRESS: the Press arm of Layout::dequeue (a FRAGMENT).  C17, eager form: "each tap
// performs its own action immediately": while this key's eager counter runs, the press performs the
// action for the taps counted so far - exactly once - and counts it; a press of another REAL key
// ends the count and is then processed normally.
// ---------------------------------------------------------------------------------------
//@ item keyberon/src/layout.rs fn is_expired in `TapDanceEagerState<'_, T>`
//@@ wrap impl<T> TapDanceEagerState<'_, T>
//@@ ret r
//@@ spec
    ensures r == (self.timeout == 0 || self.num_taps as int >= self.actions@.len()),
//@ item keyberon/src/layout.rs fn set_expired in `TapDanceEagerState<'_, T>`
//@@ wrap impl<T> TapDanceEagerState<'_, T>
//@@ spec
    ensures *final(self) == (TapDanceEagerState { timeout: 0, ..*old(self) }),
//@ item keyberon/src/layout.rs fn incr_taps in `TapDanceEagerState<'_, T>`
//@@ wrap impl<T> TapDanceEagerState<'_, T>
//@@ spec
    requires old(self).num_taps < u16::MAX,
    ensures *final(self) == (TapDanceEagerState { num_taps: (old(self).num_taps + 1) as u16, timeout: old(self).orig_timeout, ..*old(self) }),

//@ raw
impl VerifLayerIter {
    /// `layer_stack.skip(1)` (the current layer is skipped when resolving under an eager tap-dance)
    #[verifier::external_body]
    fn skip(self, n: usize) -> VerifLayerIter { unimplemented!() }
}
impl<'a, const C: usize, const R: usize, T: 'a + Copy> Layout<'a, C, R, T> {
    /// R5: `self.trans_resolution_layer_order().into_iter()` -> the opaque layer-order argument
    #[verifier::external_body]
    fn verif_layer_order(&self) -> VerifLayerIter { unimplemented!() }
}
/// the log grew by exactly one call
spec fn one_more<'a, T>(c0: Seq<DoCall<'a, T>>, c1: Seq<DoCall<'a, T>>) -> bool {
    c1.len() == c0.len() + 1 && c1.drop_last() =~= c0
}
/// `&Action::Trans`: "whatever the layers say for this coordinate" (resolved inside do_action)
pub uninterp spec fn trans_action<'a, T>() -> &'a Action<'a, T>;
#[verifier::external_body]
fn verif_trans<'a, T>() -> (r: &'a Action<'a, T>)
    ensures r == trans_action::<T>(),
{ unimplemented!() }

//@ fragment keyberon/src/layout.rs fn dequeue in `Layout<'a, C, R, T>` block-after `Press(i, j) => {` as dequeue_press
//@@ wrap impl<'a, const C: usize, const R: usize, T: 'a + Copy> Layout<'a, C, R, T>
//@@ header
fn dequeue_press(&mut self, queue: Queued, i: u8, j: u16) -> CustomEvent<'a, T>
//@@ resub R5 1 /self\.trans_resolution_layer_order\(\)\.into_iter\(\)/ => `self.verif_layer_order()`
//@@ resub R5 1 /&mut layer_stack\.skip\((\d+)\)/ => `layer_stack.skip(\1)`
//@@ resub R5 2 /&mut layer_stack\)/ => `layer_stack)`
//@@ resub R22 2 /&Action::Trans/ => `verif_trans()`
//@@ ret r
//@@ spec
    requires
        // a tap-dance never lists 65535 or more actions (the tap counter is a u16)
        old(self).tap_dance_eager matches Some(tde) ==> tde.actions@.len() < 65535,
    ensures
        // exactly one action runs for a dequeued press
        one_more(old(self).verif_calls@, final(self).verif_calls@),
        final(self).verif_calls@.last().coord == (i, j),
        final(self).verif_calls@.last().delay == queue.since,
        !final(self).verif_calls@.last().is_oneshot,
        // this key's eager tap-dance counter is running: the action for the taps counted so far
        (old(self).tap_dance_eager matches Some(tde) && (i, j) == old(self).last_press_tracker.coord
            && !(tde.timeout == 0 || tde.num_taps as int >= tde.actions@.len())) ==>
            final(self).verif_calls@.last().action == old(self).tap_dance_eager.unwrap().actions@[old(self).tap_dance_eager.unwrap().num_taps as int],
        // otherwise: the ordinary resolution through the layers
        !(old(self).tap_dance_eager matches Some(tde) && (i, j) == old(self).last_press_tracker.coord
            && !(tde.timeout == 0 || tde.num_taps as int >= tde.actions@.len())) ==>
            final(self).verif_calls@.last().action == trans_action::<T>(),
//@@ before-re 1 /self\.do_action\(verif_trans\(\)/
    proof {
        // a press of another REAL key ends the eager count before that key is processed; a virtual
        // key (row 1) does not
        assert(i == 0 ==> self.tap_dance_eager.unwrap().timeout == 0);
        assert(i != 0 ==> self.tap_dance_eager == old(self).tap_dance_eager);
    }

// the eager counter's tick (a FRAGMENT of Layout::tick): it counts down and ends - is dropped -
// exactly when its timeout has passed or every listed action has been performed
//@ item keyberon/src/layout.rs fn tick_tde in `TapDanceEagerState<'_, T>`
//@@ wrap impl<T> TapDanceEagerState<'_, T>
//@@ spec
    ensures *final(self) == (TapDanceEagerState { timeout: if old(self).timeout == 0 { 0u16 } else { (old(self).timeout - 1) as u16 }, ..*old(self) }),

//@ fragment keyberon/src/layout.rs fn tick in `Layout<'a, C, R, T>` block-after `if let Some(ref mut tde) = self.tap_dance_eager {` as tick_eager_counter
//@@ wrap impl<'a, const C: usize, const R: usize, T: 'a + Copy> Layout<'a, C, R, T>
//@@ header
fn tick_eager_counter(&mut self)
//@@ prefix
    if let Some(ref mut tde) = self.tap_dance_eager {
//@@ tail
    }
//@@ spec
    ensures
        old(self).tap_dance_eager is None ==> final(self).tap_dance_eager is None,
        old(self).tap_dance_eager matches Some(t0) ==> {
            let t = TapDanceEagerState { timeout: if t0.timeout == 0 { 0u16 } else { (t0.timeout - 1) as u16 }, ..t0 };
            let ended = t.timeout == 0 || t.num_taps as int >= t.actions@.len();
            final(self).tap_dance_eager == (if ended { None } else { Some(t) })
        },
        final(self).verif_calls@ == old(self).verif_calls@,

// ---------------------------------------------------------------------------------------
// The prologue of Layout::do_action (a FRAGMENT: everything before `use Action::*;`): a transparent
// action is resolved through the layers first, and an action at ANOTHER coordinate closes the
// tap-repress window of the key pressed last (C05: the window is for a re-press of the same key).
// ---------------------------------------------------------------------------------------
//@ raw
impl<'a, const C: usize, const R: usize, T: 'a + Copy> Layout<'a, C, R, T> {
    /// Layout::resolve_coord: proved in unit `layers` against the search order; here an opaque result
    pub uninterp spec fn resolved_spec(&self, coord: KCoord, ls: VerifLayerIter) -> &'a Action<'a, T>;
    #[verifier::external_body]
    fn resolve_coord(&self, coord: KCoord, layer_stack: VerifLayerIter) -> (r: &'a Action<'a, T>)
        ensures r == self.resolved_spec(coord, layer_stack),
    { unimplemented!() }
}

//@ fragment keyberon/src/layout.rs fn do_action in `Layout<'a, C, R, T>` head-until `use Action::*;` as do_action_prologue
//@@ wrap impl<'a, const C: usize, const R: usize, T: 'a + Copy> Layout<'a, C, R, T>
//@@ header
fn do_action_prologue(&mut self, action: &'a Action<'a, T>, coord: KCoord, layer_stack: VerifLayerIter) -> &'a Action<'a, T>
//@@ tail
    action
//@@ resub Rpath 1 /if let Trans = action/ => `if let Action::Trans = action`
//@@ ret r
//@@ spec
    ensures
        // a transparent entry is replaced by what the layers say for this coordinate; anything else
        // is performed as it is
        r == (if *action is Trans { old(self).resolved_spec(coord, layer_stack) } else { action }),
        // an action at another coordinate closes the tap-repress window; the same coordinate keeps it
        final(self).last_press_tracker.coord == old(self).last_press_tracker.coord,
        final(self).last_press_tracker.tap_hold_timeout == (if old(self).last_press_tracker.coord != coord { 0u16 } else { old(self).last_press_tracker.tap_hold_timeout }),
        final(self).waiting == old(self).waiting, final(self).extra_waiting@ == old(self).extra_waiting@,
        final(self).verif_calls@ == old(self).verif_calls@,


// ---------------------------------------------------------------------------------------
// fork: the Fork arm of Layout::do_action (a FRAGMENT).  C10: "fork takes its right branch iff one of
// its trigger keys is currently active".
// ---------------------------------------------------------------------------------------
//@ raw
use State::*;
/// R33: `fcfg.right_triggers.contains(keycode)` -> this helper (slice membership; usable in specifications)
spec fn trig_spec<'a, T>(fcfg: &ForkConfig<'a, T>, keycode: &KeyCode) -> bool { fcfg.right_triggers@.contains(*keycode) }
#[verifier::external_body]
#[verifier::when_used_as_spec(trig_spec)]
fn verif_trig<'a, T>(fcfg: &ForkConfig<'a, T>, keycode: &KeyCode) -> (r: bool)
    ensures r == trig_spec(fcfg, keycode),
{ unimplemented!() }
/// a trigger key is currently active: some real or macro key state carries one of the trigger codes
spec fn trigger_active<'a, T>(states: Seq<State<'a, T>>, fcfg: &ForkConfig<'a, T>) -> bool {
    exists|i: int| 0 <= i < states.len() && (match #[trigger] states[i] {
        State::NormalKey { keycode, .. } => fcfg.right_triggers@.contains(keycode),
        State::FakeKey { keycode } => fcfg.right_triggers@.contains(keycode),
        _ => false,
    })
}

//@ fragment keyberon/src/layout.rs fn do_action in `Layout<'a, C, R, T>` block-after `Fork(fcfg) => {` as do_action_fork
//@@ wrap impl<'a, const C: usize, const R: usize, T: 'a + Copy> Layout<'a, C, R, T>
//@@ header
fn do_action_fork(&mut self, action: &'a Action<'a, T>, coord: KCoord, delay: u16, layer_stack: VerifLayerIter, fcfg: &'a ForkConfig<'a, T>) -> CustomEvent<'a, T>
//@@ resub R33 1 /fcfg\.right_triggers\.contains\(keycode\)/ => `verif_trig(fcfg, keycode)`
//@@ resub R12 1 /self\.states\.iter\(\)\.any\(\|s\| (match s \{.*?\n\s*\})\) \{/ => `self.states.iter().any(|s: &State<'a, T>| -> (b: bool) ensures b == (\1) { \1 }) {`
//@@ resub R5 2 /&mut layer_stack\.clone\(\)/ => `layer_stack`
//@@ ret r
//@@ spec
    ensures
        // exactly one branch is performed, at this coordinate, not as a one-shot:
        one_more(old(self).verif_calls@, final(self).verif_calls@),
        final(self).verif_calls@.last().coord == coord && final(self).verif_calls@.last().delay == delay && !final(self).verif_calls@.last().is_oneshot,
        // the RIGHT one iff a trigger key is currently active, else the left (default) one
        final(self).verif_calls@.last().action == (if trigger_active(old(self).states@, fcfg) { &fcfg.right } else { &fcfg.left }),
        // the fork itself, not the branch, is what `repeat` repeats
        final(self).rpt_action == Some(action),


// ---------------------------------------------------------------------------------------
// Layout::event, cut whole: an incoming event is APPENDED to the queue (none is lost or reordered
// while fewer than 32 are pending - C04 / C05); the 33rd forces every undecided key into hold and the
// evicted oldest event is processed at once (C02: floods larger than the buffer).
// ---------------------------------------------------------------------------------------
//@ item keyberon/src/layout.rs fn from in `From<Event> for Queued`
//@@ wrap impl From<Event> for Queued
//@ raw
impl vstd::std_specs::convert::FromSpecImpl<Event> for Queued {
    open spec fn obeys_from_spec() -> bool { true }
    closed spec fn from_spec(event: Event) -> Self { Queued { event, since: 0 } }
}
// (extracted under the name event_real: the one-shot arm above calls a logging stub named `event`;
// what such a call does is what is proved here)
//@ item keyberon/src/layout.rs fn event in `Layout<'a, C, R, T>` as event_real
//@@ wrap impl<'a, const C: usize, const R: usize, T: 'a + Copy> Layout<'a, C, R, T>
//@@ attr #[verifier::loop_isolation(false)]
//@@ spec
    requires
        // the property's own proviso: "while fewer than 32 events are pending".  The flood path (the
        // 33rd event forces every undecided key into hold and processes the evicted event) is in the
        // extracted text but NOT verified: under this precondition it is unreachable
        match old(self).chords_v2 { Some(ch) => ch.verif_queue@.len() < 32, None => old(self).queue@.len() < 32 },
    ensures
        // a press is remembered as an input (for input-history conditions)
        final(self).historical_inputs.verif_pushed@ == (match event { Event::Press(x, y) => old(self).historical_inputs.verif_pushed@.push((x, y)), _ => old(self).historical_inputs.verif_pushed@ }),
        // the event is APPENDED, with age 0, to the one queue that feeds the state machine; nothing is
        // processed, nothing is lost, nothing is reordered, no pending decision is touched
        old(self).chords_v2 is None ==> final(self).queue@ == old(self).queue@.push(Queued { event, since: 0 }) && final(self).chords_v2 is None,
        old(self).chords_v2 is Some ==> final(self).chords_v2 is Some && final(self).queue@ == old(self).queue@
            && final(self).chords_v2.unwrap().verif_queue@ == old(self).chords_v2.unwrap().verif_queue@.push(Queued { event, since: 0 }),
        final(self).verif_calls@ == old(self).verif_calls@, final(self).verif_dequeued@ == old(self).verif_dequeued@,
        final(self).waiting == old(self).waiting, final(self).extra_waiting@ == old(self).extra_waiting@,
        final(self).states@ == old(self).states@,

// ---------------------------------------------------------------------------------------
// F7 (C09 "keys that do not complete a chord are not swallowed: delivered in their original order";
// C04 "no event is lost"): the chords-v2 prologue of Layout::tick.  Everything chords v2 lets through
// in this tick reaches the state machine: afterwards the events handed to `dequeue` followed by the
// event queue are what they were before followed by this tick's output, in order - also when the
// 32-slot queue is full (the evicted OLDEST event is processed at once, after every undecided key has
// been forced into hold, exactly as Layout::event does).  Before the fix the statement was
// `self.queue.extend(..drain(0..))`, whose contract (Extend for a Wrapping ArrayDeque takes only what
// fits: verif_extend_drain below, the same one unit chordtab assumes and Kani cross-checks) drops
// what does not fit.
//@ raw
impl<T, const N: usize> arraydeque::ArrayDeque<T, N, arraydeque::behavior::Wrapping> {
    /// `a.extend(b.drain(0..))` (R49/R60): b is emptied; a takes only what fits
    #[verifier::external_body]
    pub fn verif_extend_drain<const M: usize>(&mut self, mut other: arraydeque::ArrayDeque<T, M, arraydeque::behavior::Wrapping>)
        ensures final(self)@ == old(self)@ + (if other@.len() <= N - old(self)@.len() { other@ } else { other@.take(N - old(self)@.len()) }),
    { unimplemented!() }
}
//@ fragment keyberon/src/layout.rs fn tick in `Layout<'a, C, R, T>` block-after `if let Some(chv2) = self.chords_v2.as_mut() {` as tick_forward_chv2
//@@ wrap impl<'a, const C: usize, const R: usize, T: 'a + Copy> Layout<'a, C, R, T>
//@@ attr #[verifier::loop_isolation(false)]
//@@ header
fn tick_forward_chv2(&mut self, chv2: &mut ChordsV2<'a, T>, active_layer: u16)
//@@ resub R60 * /self\.queue\.extend\((.*?)\.drain\(0\.\.\)\);/ => `self.queue.verif_extend_drain(\1);`
//@@ resub R60 * /let mut chv2_events = ([^;]*);/ => `let mut chv2_events = \1; let ghost e0 = chv2_events@; let ghost q0 = self.queue@; let ghost d0 = self.verif_dequeued@; proof { assert(d0 + q0 + e0 =~= old(self).verif_dequeued@ + old(self).queue@ + e0); }`
//@@ resub R60 * /for queued in chv2_events\.drain\(0\.\.\) \{/ => `while let Some(queued) = chv2_events.pop_front() invariant self.verif_dequeued@ + self.queue@ + chv2_events@ =~= d0 + q0 + e0, self.queue@.len() <= 32, delays_fit(self.waiting, self.extra_waiting@), decreases chv2_events@.len(), {`
//@@ resub R60 * /if let Some\(overflow\) = self\.queue\.push_back\(queued\) \{/ => `if let Some(overflow) = self.queue.push_back(queued) { let ghost q1 = self.queue@; let ghost d1 = self.verif_dequeued@;`
//@@ resub R60 * /for i in -1\.\.\(EXTRA_WAITING_LEN as i8\) \{/ => `for i in -1..(EXTRA_WAITING_LEN as i8) invariant self.queue@ == q1, self.verif_dequeued@ == d1, delays_fit(self.waiting, self.extra_waiting@), {`
//@@ spec
    requires
        old(self).queue@.len() <= 32,
        // ASSUMPTION (u16 arithmetic)
        delays_fit(old(self).waiting, old(self).extra_waiting@),
    ensures
        final(self).verif_dequeued@ + final(self).queue@ =~= old(self).verif_dequeued@ + old(self).queue@ + old(chv2).spec_tick_out(active_layer),
