//@ unit overrides
// Side-car contracts for parser/src/cfg/key_override.rs (property C13, PARTIAL): the pure key-list
// transformation Overrides::override_keys and what it is built from.  Under contract: mask_for_key,
// Override::{get_mod_mask, add_override_keys, add_removed_keys}, OverrideStates::{cleanup, update,
// is_key_overridden}, Overrides::{is_empty (stub), override_keys}.  NOT under contract: the SELECTION
// among the overrides of a key (Overrides::update_keys: an iterator filter whose closure mutates a
// captured counter, then `.last()` - outside Verus; its effect is an uninterpreted function here),
// Override::try_new (iterator chains), the eager-erasure marking, the Kanata side.

//@ raw
// slices of structural-equality types: `contains` is membership (ASSUMED std contract)
pub assume_specification<T: PartialEq> [<[T]>::contains] (s: &[T], x: &T) -> (r: bool)
    ensures r == s@.contains(*x);
/// R17: `v.iter().copied()` -> the items front to back (ASSUMED)
#[verifier::external_body]
fn verif_items_fwd<T: Copy>(items: &Vec<T>) -> (r: Vec<T>)
    ensures r@ == items@,
{ unimplemented!() }
/// the elements retain() keeps, given the decisions its predicate returned one by one
pub open spec fn pick<T>(s: Seq<T>, d: Seq<bool>) -> Seq<T>
    decreases s.len(),
{
    if s.len() == 0 || d.len() != s.len() { Seq::empty() }
    else if d.last() { pick(s.drop_last(), d.drop_last()).push(s.last()) }
    else { pick(s.drop_last(), d.drop_last()) }
}
/// R42: `v.retain(closure)` -> this helper.  ASSUMED contract of Vec::retain: the predicate is
/// called once on each element, front to back, and the elements it answered true for are kept
#[verifier::external_body]
fn verif_retain<T, F: Fn(&T) -> bool>(v: &mut Vec<T>, f: F)
    requires forall|x: &T| f.requires((x,)),
    ensures exists|d: Seq<bool>| #![trigger d.len()] d.len() == old(v)@.len()
        && (forall|i: int| #![trigger d[i]] 0 <= i < d.len() ==> f.ensures((&old(v)@[i],), d[i]))
        && final(v)@ == pick(old(v)@, d),
{ unimplemented!() }

//@ item keyberon/src/key_code.rs enum KeyCode
//@@ keep-vis
//@ item parser/src/keys/mod.rs enum OsCode
//@@ keep-vis
//@ raw
// KeyCode <-> OsCode are transmutes in the repository (parser/src/keys/mappings.rs): uninterpreted
// here (that they preserve the number is C11's subject)
pub uninterp spec fn osc_of(kc: KeyCode) -> OsCode;
pub uninterp spec fn kc_of(o: OsCode) -> KeyCode;
impl vstd::std_specs::convert::FromSpecImpl<KeyCode> for OsCode {
    open spec fn obeys_from_spec() -> bool { true }
    open spec fn from_spec(item: KeyCode) -> Self { osc_of(item) }
}
impl From<KeyCode> for OsCode {
    #[verifier::external_body]
    fn from(item: KeyCode) -> (r: Self) ensures r == osc_of(item) { unimplemented!() }
}

// R3: FxHashMap -> opaque; only is_empty() is used by the functions under contract
#[verifier::external_body]
#[verifier::reject_recursive_types(K)]
#[verifier::reject_recursive_types(V)]
pub struct HashMap<K, V> { p: core::marker::PhantomData<(K, V)> }
impl<K, V> HashMap<K, V> {
    pub uninterp spec fn is_empty_spec(&self) -> bool;
    #[verifier::external_body]
    pub fn is_empty(&self) -> (r: bool) ensures r == self.is_empty_spec() { unimplemented!() }
}
impl<K, V> HashMap<K, V> {
    pub uninterp spec fn view(&self) -> Map<K, V>;
    /// ASSUMED contract of FxHashMap::get
    #[verifier::external_body]
    pub fn get(&self, k: &K) -> (r: Option<&V>)
        ensures
            self.view().contains_key(*k) ==> r == Some(&self.view()[*k]),
            !self.view().contains_key(*k) ==> r.is_none(),
    { unimplemented!() }
}

//@ item parser/src/cfg/key_override.rs struct OverrideStates
//@@ keep-vis
//@@ no-derives
//@ item parser/src/cfg/key_override.rs struct Override
//@@ keep-vis
//@@ no-derives
//@ item parser/src/cfg/key_override.rs struct Overrides
//@@ keep-vis
//@@ no-derives

//@ raw
/// the eight modifier keys and their bits (docs: lctl lsft lalt lmet rctl rsft ralt rmet)
spec fn mask_spec(osc: OsCode) -> Option<u8> {
    match osc {
        OsCode::KEY_LEFTCTRL => Some(1u8),
        OsCode::KEY_LEFTSHIFT => Some(2u8),
        OsCode::KEY_LEFTALT => Some(4u8),
        OsCode::KEY_LEFTMETA => Some(8u8),
        OsCode::KEY_RIGHTCTRL => Some(16u8),
        OsCode::KEY_RIGHTSHIFT => Some(32u8),
        OsCode::KEY_RIGHTALT => Some(64u8),
        OsCode::KEY_RIGHTMETA => Some(128u8),
        _ => None,
    }
}
//@ item parser/src/cfg/key_override.rs fn mask_for_key
//@@ ret r
//@@ spec
    ensures r == mask_spec(osc),
//@@ before 1 `match osc {`
    proof {
        assert(1u8 << 0 == 1u8 && 1u8 << 1 == 2u8 && 1u8 << 2 == 4u8 && 1u8 << 3 == 8u8
            && 1u8 << 4 == 16u8 && 1u8 << 5 == 32u8 && 1u8 << 6 == 64u8 && 1u8 << 7 == 128u8) by(bit_vector);
    }

//@ raw
/// the combined mask of the first n keys of a list
spec fn mask_of(l: Seq<OsCode>, n: int) -> u8
    decreases n,
{
    if n <= 0 { 0u8 } else { mask_of(l, n - 1) | mask_spec(l[n - 1]).unwrap() }
}
spec fn all_mods(l: Seq<OsCode>) -> bool { forall|i: int| 0 <= i < l.len() ==> mask_spec(#[trigger] l[i]) is Some }
/// membership after `push`
pub broadcast proof fn lemma_push_contains(s: Seq<OsCode>, x: OsCode)
    ensures
        #![trigger s.push(x)]
        s.push(x).contains(x),
        forall|o: OsCode| #[trigger] s.contains(o) ==> s.push(x).contains(o),
        forall|o: OsCode| #[trigger] s.push(x).contains(o) ==> s.contains(o) || o == x,
        s.is_prefix_of(s.push(x)),
{
    assert(s.push(x)[s.len() as int] == x);
    assert forall|o: OsCode| s.contains(o) implies s.push(x).contains(o) by {
        let i = choose|i: int| 0 <= i < s.len() && s[i] == o;
        assert(s.push(x)[i] == o);
    }
    assert forall|o: OsCode| s.push(x).contains(o) implies s.contains(o) || o == x by {
        let i = choose|i: int| 0 <= i < s.push(x).len() && s.push(x)[i] == o;
        if i < s.len() { assert(s[i] == o); }
    }
}
/// what "add these keys to the list unless already there" must leave: the old list is a prefix,
/// every key of `ks` and `last` is there, nothing else was added
spec fn added(old_l: Seq<OsCode>, new_l: Seq<OsCode>, ks: Seq<OsCode>, last: OsCode) -> bool {
    &&& old_l.is_prefix_of(new_l)
    &&& new_l.contains(last)
    &&& forall|i: int| 0 <= i < ks.len() ==> new_l.contains(#[trigger] ks[i])
    &&& forall|o: OsCode| #[trigger] new_l.contains(o) ==> old_l.contains(o) || o == last || ks.contains(o)
}

//@ item parser/src/cfg/key_override.rs fn get_mod_mask in `Override\b`
//@@ wrap impl Override
//@@ ret r
//@@ spec
    requires
        // type invariant of Override (established by try_new's filter, not under contract): the
        // input modifier list holds modifier keys only - otherwise `.expect("mod only")` panics
        all_mods(self.in_mod_oscs@),
    ensures r == mask_of(self.in_mod_oscs@, self.in_mod_oscs@.len() as int),
//@@ resub R17 1 /for osc in self\.in_mod_oscs\.iter\(\)\.copied\(\)/ => `for osc in it: verif_items_fwd(&self.in_mod_oscs)`
//@@ loop 1
        invariant
            it.seq() == self.in_mod_oscs@, 0 <= it.index@ <= it.seq().len(),
            all_mods(self.in_mod_oscs@),
            mask == mask_of(self.in_mod_oscs@, it.index@ as int),

//@ item parser/src/cfg/key_override.rs fn add_override_keys in `Override\b`
//@@ wrap impl Override
//@@ attr #[verifier::loop_isolation(false)]
//@@ spec
    ensures
        // the override's output modifiers and its output key are (now) in the list of keys to add
        added(old(oscs_to_add)@, final(oscs_to_add)@, self.out_mod_oscs@, self.out_non_mod_osc),
//@@ resub R17 1 /for osc in self\.out_mod_oscs\.iter\(\)\.copied\(\)/ => `for osc in it: verif_items_fwd(&self.out_mod_oscs)`
//@@ before-re 1 /for osc in it:/
    broadcast use lemma_push_contains;
    let ghost l0 = oscs_to_add@;
    let ghost ks = self.out_mod_oscs@;
//@@ loop 1
        invariant
            it.seq() == ks, 0 <= it.index@ <= ks.len(),
            l0.is_prefix_of(oscs_to_add@),
            forall|i: int| 0 <= i < it.index@ ==> oscs_to_add@.contains(#[trigger] ks[i]),
            forall|o: OsCode| #[trigger] oscs_to_add@.contains(o) ==> l0.contains(o) || ks.contains(o),
//@@ after-re 1 /for osc in it: verif_items_fwd\(&self\.out_mod_oscs\)\s*\{/
        proof { assert(osc == ks[it.index@ as int]); assert(ks.contains(osc)); }

//@ item parser/src/cfg/key_override.rs fn add_removed_keys in `Override\b`
//@@ wrap impl Override
//@@ attr #[verifier::loop_isolation(false)]
//@@ spec
    ensures
        // the override's whole input combination is (now) in the list of keys to take away
        added(old(oscs_to_remove)@, final(oscs_to_remove)@, self.in_mod_oscs@, self.in_non_mod_osc),
//@@ resub R17 1 /for osc in self\.in_mod_oscs\.iter\(\)\.copied\(\)/ => `for osc in it: verif_items_fwd(&self.in_mod_oscs)`
//@@ before-re 1 /for osc in it:/
    broadcast use lemma_push_contains;
    let ghost l0 = oscs_to_remove@;
    let ghost ks = self.in_mod_oscs@;
//@@ loop 1
        invariant
            it.seq() == ks, 0 <= it.index@ <= ks.len(),
            l0.is_prefix_of(oscs_to_remove@),
            forall|i: int| 0 <= i < it.index@ ==> oscs_to_remove@.contains(#[trigger] ks[i]),
            forall|o: OsCode| #[trigger] oscs_to_remove@.contains(o) ==> l0.contains(o) || ks.contains(o),
//@@ after-re 1 /for osc in it: verif_items_fwd\(&self\.in_mod_oscs\)\s*\{/
        proof { assert(osc == ks[it.index@ as int]); assert(ks.contains(osc)); }

//@ raw
/// the scratch state while the key list is scanned: modifiers seen so far, keys to add, keys to remove
pub struct St { pub mods: u8, pub add: Seq<OsCode>, pub rem: Seq<OsCode> }
impl Overrides {
    /// what the selection among the overrides of `osc` does to the two lists, given the modifiers
    /// seen so far (Overrides::update_keys: NOT under contract, uninterpreted)
    uninterp spec fn upd_add(&self, osc: OsCode, mods: u8, add: Seq<OsCode>, rem: Seq<OsCode>) -> Seq<OsCode>;
    uninterp spec fn upd_rem(&self, osc: OsCode, mods: u8, add: Seq<OsCode>, rem: Seq<OsCode>) -> Seq<OsCode>;
    #[verifier::external_body]
    fn update_keys(&self, active_osc: OsCode, active_mod_mask: u8, oscs_to_add: &mut Vec<OsCode>, oscs_to_remove: &mut Vec<OsCode>)
        ensures
            final(oscs_to_add)@ == self.upd_add(active_osc, active_mod_mask, old(oscs_to_add)@, old(oscs_to_remove)@),
            final(oscs_to_remove)@ == self.upd_rem(active_osc, active_mod_mask, old(oscs_to_add)@, old(oscs_to_remove)@),
            // what the function itself is PROVED to do (update_keys_impl below: the same text)
            upd_ok(*self, active_osc, active_mod_mask, old(oscs_to_add)@, old(oscs_to_remove)@, final(oscs_to_add)@, final(oscs_to_remove)@),
    { unimplemented!() }
    /// one key of the list: a modifier is remembered; any other key goes through the selection with
    /// the modifiers that came BEFORE it in the list
    spec fn step(&self, st: St, osc: OsCode) -> St {
        match mask_spec(osc) {
            Some(m) => St { mods: st.mods | m, add: st.add, rem: st.rem },
            None => St { mods: st.mods, add: self.upd_add(osc, st.mods, st.add, st.rem), rem: self.upd_rem(osc, st.mods, st.add, st.rem) },
        }
    }
    /// the first n keys of the list, from a clean scratch state
    spec fn run(&self, kcs: Seq<KeyCode>, n: int) -> St
        decreases n,
    {
        if n <= 0 { St { mods: 0, add: Seq::empty(), rem: Seq::empty() } } else { self.step(self.run(kcs, n - 1), osc_of(kcs[n - 1])) }
    }
}
impl OverrideStates {
    spec fn st(&self) -> St { St { mods: self.mods_pressed, add: self.oscs_to_add@, rem: self.oscs_to_remove@ } }
    /// `oscs.extend(self.oscs_to_add.iter().copied().map(KeyCode::from))`: ASSUMED (one statement,
    /// iterator adaptors): appends the keys to add, converted, in order
    #[verifier::external_body]
    fn add_overrides(&self, oscs: &mut Vec<KeyCode>)
        ensures final(oscs)@ == old(oscs)@ + self.oscs_to_add@.map_values(|o: OsCode| kc_of(o)),
    { unimplemented!() }
}

//@ item parser/src/cfg/key_override.rs fn cleanup in `(?<!for )OverrideStates`
//@@ wrap impl OverrideStates
//@@ spec
    ensures final(self).mods_pressed == 0, final(self).oscs_to_add@.len() == 0, final(self).oscs_to_remove@.len() == 0,

//@ item parser/src/cfg/key_override.rs fn update in `(?<!for )OverrideStates`
//@@ wrap impl OverrideStates
//@@ spec
    ensures final(self).st() == overrides.step(old(self).st(), osc),

//@ item parser/src/cfg/key_override.rs fn is_key_overridden in `(?<!for )OverrideStates`
//@@ wrap impl OverrideStates
//@@ ret r
//@@ spec
    ensures r == self.oscs_to_remove@.contains(osc),

//@ item parser/src/cfg/key_override.rs fn is_empty in `Overrides`
//@@ wrap impl Overrides
//@@ ret r
//@@ spec
    ensures r == self.overrides_by_osc.is_empty_spec(),

//@ raw
/// the keys that stay: those whose OS code is not in the remove list, in order
spec fn kept(kcs: Seq<KeyCode>, rem: Seq<OsCode>, n: int) -> Seq<KeyCode>
    decreases n,
{
    if n <= 0 { Seq::empty() } else if rem.contains(osc_of(kcs[n - 1])) { kept(kcs, rem, n - 1) } else { kept(kcs, rem, n - 1).push(kcs[n - 1]) }
}
proof fn lemma_pick_kept(s: Seq<KeyCode>, d: Seq<bool>, rem: Seq<OsCode>)
    requires d.len() == s.len(), forall|i: int| 0 <= i < s.len() ==> d[i] == !rem.contains(osc_of(#[trigger] s[i])),
    ensures pick(s, d) == kept(s, rem, s.len() as int),
    decreases s.len(),
{
    if s.len() > 0 {
        let s1 = s.drop_last(); let d1 = d.drop_last();
        assert forall|i: int| 0 <= i < s1.len() implies d1[i] == !rem.contains(osc_of(#[trigger] s1[i])) by { assert(s1[i] == s[i]); }
        lemma_pick_kept(s1, d1, rem);
        lemma_kept_prefix(s, s1, rem, s1.len() as int);
    }
}
proof fn lemma_kept_prefix(a: Seq<KeyCode>, b: Seq<KeyCode>, rem: Seq<OsCode>, n: int)
    requires 0 <= n <= a.len(), n <= b.len(), forall|i: int| 0 <= i < n ==> a[i] == b[i],
    ensures kept(a, rem, n) == kept(b, rem, n),
    decreases n,
{
    if n > 0 { lemma_kept_prefix(a, b, rem, n - 1); }
}

//@ item parser/src/cfg/key_override.rs fn override_keys in `Overrides`
//@@ wrap impl Overrides
//@@ attr #[verifier::loop_isolation(false)]
//@@ spec
    ensures
        // no overrides configured: nothing happens at all
        self.overrides_by_osc.is_empty_spec() ==> final(kcs)@ == old(kcs)@ && *final(states) == *old(states),
        // otherwise: the list is scanned once, front to back, from a CLEAN scratch state; then every
        // key marked for removal is taken out (the others keep their order) and the keys to add are
        // appended
        !self.overrides_by_osc.is_empty_spec() ==> {
            let st = self.run(old(kcs)@, old(kcs)@.len() as int);
            &&& final(states).st() == st
            &&& final(kcs)@ == kept(old(kcs)@, st.rem, old(kcs)@.len() as int) + st.add.map_values(|o: OsCode| kc_of(o))
        },
//@@ resub R17 1 /for kc in kcs\.iter\(\)\.copied\(\)/ => `for kc in it: verif_items_fwd(kcs)`
//@@ resub R42 1 /kcs\.retain\(\|kc\| ([^;]*)\);/ => `verif_retain(kcs, |kc: &KeyCode| -> (b: bool) ensures b == !states.oscs_to_remove@.contains(osc_of(*kc)) { \1 });`
//@@ before-re 1 /for kc in it:/
    let ghost k0 = kcs@;
    assert(states.oscs_to_add@ =~= Seq::<OsCode>::empty() && states.oscs_to_remove@ =~= Seq::<OsCode>::empty());
    assert(states.st() == self.run(k0, 0));
//@@ loop 1
        invariant
            it.seq() == k0, 0 <= it.index@ <= k0.len(), kcs@ == k0,
            states.st() == self.run(k0, it.index@ as int),
//@@ before-re 1 /verif_retain\(kcs,/
    let ghost rem = states.oscs_to_remove@;
//@@ after-re 1 /verif_retain\(kcs, [^;]*\);/
    proof {
        let d = choose|d: Seq<bool>| #![trigger d.len()] d.len() == k0.len()
            && (forall|i: int| #![trigger d[i]] 0 <= i < d.len() ==> d[i] == !rem.contains(osc_of(k0[i])))
            && kcs@ == pick(k0, d);
        lemma_pick_kept(k0, d, rem);
    }

// ---------------------------------------------------------------------------------------
// THE SELECTION (late): "when several overrides of the same key match, the one with the most
// modifiers wins".  Overrides::update_keys selects with `ovds.iter().filter(CLOSURE).last()`, where
// the closure keeps a running maximum in a captured counter.  The closure BODY is cut as a fragment
// (block-after the closure header) and wrapped in a synthetic signature: the captured counter becomes
// a `&mut` parameter (every use `cur_chord_size` -> `(*cur_chord_size)`, R46), the captured mask is a parameter.  Proved: one
// call of the closure is one step of the scan `scan` below; and, as a lemma about `scan`: the last
// override the closure accepts is a matching one with the largest number of modifiers among ALL
// matching overrides of the key (the first such one in table order), and nothing is accepted iff
// none matches.  ASSUMED (std): filter calls the closure once per element, in order, and last()
// returns the last element it accepted.
// ---------------------------------------------------------------------------------------
//@ raw
spec fn ov_matches(o: Override, mods: u8) -> bool {
    let m = mask_of(o.in_mod_oscs@, o.in_mod_oscs@.len() as int);
    m & mods == m
}
spec fn ov_size(o: Override) -> int { o.in_mod_oscs@.len() as int + 1 }
/// the first n overrides of the key, scanned in order: (index of the last accepted one or -1, the running maximum)
spec fn scan(ovds: Seq<Override>, mods: u8, n: int) -> (int, int)
    decreases n,
{
    if n <= 0 { (-1, 0) } else {
        let p = scan(ovds, mods, n - 1);
        if ov_matches(ovds[n - 1], mods) && ov_size(ovds[n - 1]) > p.1 { (n - 1, ov_size(ovds[n - 1])) } else { p }
    }
}
proof fn lemma_scan_picks_most_modifiers(ovds: Seq<Override>, mods: u8, n: int)
    requires 0 <= n <= ovds.len(),
    ensures ({
        let p = scan(ovds, mods, n);
        // something is selected iff some override matches ..
        &&& (p.0 < 0 <==> forall|j: int| 0 <= j < n ==> !ov_matches(#[trigger] ovds[j], mods))
        &&& p.0 < 0 ==> p.1 == 0
        // .. and the selected one matches, has the largest number of modifiers among all matching
        // ones, and is the first such in table order
        &&& p.0 >= 0 ==> p.0 < n && ov_matches(ovds[p.0], mods) && ov_size(ovds[p.0]) == p.1
            && (forall|j: int| 0 <= j < n && ov_matches(#[trigger] ovds[j], mods) ==> ov_size(ovds[j]) <= p.1)
            && (forall|j: int| 0 <= j < p.0 && ov_matches(#[trigger] ovds[j], mods) ==> ov_size(ovds[j]) < p.1)
    }),
    decreases n,
{
    if n > 0 {
        lemma_scan_picks_most_modifiers(ovds, mods, n - 1);
        let q = scan(ovds, mods, n - 1);
        let p = scan(ovds, mods, n);
        if ov_matches(ovds[n - 1], mods) && ov_size(ovds[n - 1]) > q.1 {
            assert(p.0 == n - 1);
        } else {
            assert(p == q);
            if ov_matches(ovds[n - 1], mods) { assert(q.0 >= 0) by { if q.0 < 0 { assert(q.1 == 0); assert(ov_size(ovds[n - 1]) >= 1); } } }
        }
    }
}

//@ fragment parser/src/cfg/key_override.rs fn update_keys in `Overrides` block-after `.filter(|ovd| {` as select_step
//@@ header
fn select_step(ovd: &Override, active_mod_mask: u8, cur_chord_size: &mut usize) -> bool
//@@ resub R46 + /(?<![(*])\bcur_chord_size\b(?!:)/ => `(*cur_chord_size)`
//@@ ret r
//@@ spec
    requires
        all_mods(ovd.in_mod_oscs@),
        ovd.in_mod_oscs@.len() < usize::MAX,
    ensures
        // one step of the scan: accepted iff it matches the held modifiers and has MORE modifiers
        // than anything accepted so far; the running maximum follows
        r == (ov_matches(*ovd, active_mod_mask) && ov_size(*ovd) > *old(cur_chord_size)),
        *final(cur_chord_size) == (if r { ov_size(*ovd) as usize } else { *old(cur_chord_size) }),

// Overrides::update_keys itself, cut whole (under the name update_keys_impl; its callers above use
// the stub with the uninterpreted effect).  `ovds.iter().filter(CLOSURE).last()` is replaced by a
// helper whose contract is the scan (R47; the closure body is the fragment select_step above).
// Proved: a key without overrides, or with none matching, leaves both lists alone; otherwise the
// override `scan` names - the matching one with the most modifiers - gets its output keys into the
// add list and its whole input combination into the remove list, and nothing else is added.
//@ raw
/// R47: `ovds.iter().filter(|ovd| { .. }).last()` -> this helper.  ASSUMED (std): filter calls the
/// closure once per element in order, last() returns the last accepted element; the closure's single
/// step is select_step
#[verifier::external_body]
fn verif_filter_last<'o>(ovds: &'o Vec<Override>, active_mod_mask: u8) -> (r: Option<&'o Override>)
    ensures ({
        let p = scan(ovds@, active_mod_mask, ovds@.len() as int);
        &&& p.0 < 0 ==> r is None
        &&& p.0 >= 0 ==> r == Some(&ovds@[p.0])
    }),
{ unimplemented!() }
/// what update_keys must do to the two lists
spec fn upd_ok(ov: Overrides, osc: OsCode, mods: u8, add0: Seq<OsCode>, rem0: Seq<OsCode>, add1: Seq<OsCode>, rem1: Seq<OsCode>) -> bool {
    let m = ov.overrides_by_osc.view();
    if !m.contains_key(osc) { add1 == add0 && rem1 == rem0 }
    else {
        let p = scan(m[osc]@, mods, m[osc]@.len() as int);
        if p.0 < 0 { add1 == add0 && rem1 == rem0 }
        else {
            let o = m[osc]@[p.0];
            added(add0, add1, o.out_mod_oscs@, o.out_non_mod_osc) && added(rem0, rem1, o.in_mod_oscs@, o.in_non_mod_osc)
        }
    }
}
//@ item parser/src/cfg/key_override.rs fn update_keys in `Overrides` as update_keys_impl
//@@ wrap impl Overrides
//@@ resub R47 1 /ovds\s*\.iter\(\)\s*\.filter\(\|ovd\| \{[\s\S]*?\}\)\s*\.last\(\)/ => `verif_filter_last(ovds, active_mod_mask)`
//@@ spec
    ensures upd_ok(*self, active_osc, active_mod_mask, old(oscs_to_add)@, old(oscs_to_remove)@, final(oscs_to_add)@, final(oscs_to_remove)@),
