//@ unit vkeys
// Side-car contract for handle_fakekey_action (src/kanata/mod.rs), property C18: "press holds its
// action until a release, tap does both, toggle alternates between the two, and these have the same
// effect whether triggered from a key, a macro, a sequence or a TCP client" - every one of those
// sources goes through this one function.  Cut whole; Layout is opaque with a ghost event log.

//@ raw
#[verifier::reject_recursive_types(T)]
#[verifier::external_body]
pub struct State<'a, T> { p: core::marker::PhantomData<&'a T> }
//@ item keyberon/src/layout.rs enum Event
//@@ keep-vis
//@ item parser/src/custom_action.rs enum FakeKeyAction
//@@ keep-vis
//@ raw
/// the keyberon layout: what this function needs of it
#[verifier::reject_recursive_types(T)]
pub struct Layout<'a, const C: usize, const R: usize, T> {
    pub states: Vec<State<'a, T>>,
    pub verif_events: Ghost<Seq<Event>>,
}
impl<'a, const C: usize, const R: usize, T> Layout<'a, C, R, T> {
    /// Layout::event: queues the event (not under contract here); recorded
    #[verifier::external_body]
    fn event(&mut self, event: Event)
        ensures final(self).verif_events@ == old(self).verif_events@.push(event),
    { unimplemented!() }
}
/// "the virtual key is currently held": some state was created at its coordinate
pub uninterp spec fn held_at<'a, T>(states: Seq<State<'a, T>>, x: u8, y: u16) -> bool;
/// states_has_coord (`.iter().any(closure)`), ASSUMED to decide held_at
#[verifier::external_body]
fn states_has_coord<T>(states: &[State<T>], x: u8, y: u16) -> (r: bool)
    ensures r == held_at(states@, x, y),
{ unimplemented!() }

//@ item src/kanata/mod.rs fn handle_fakekey_action
//@@ sig Rbound `T: 'a + std::fmt::Debug + Copy,` => `T: 'a + Copy,`
//@@ spec
    ensures
        action is Press ==> final(layout).verif_events@ == old(layout).verif_events@.push(Event::Press(x, y)),
        action is Release ==> final(layout).verif_events@ == old(layout).verif_events@.push(Event::Release(x, y)),
        // tap does both, press first
        action is Tap ==> final(layout).verif_events@ == old(layout).verif_events@.push(Event::Press(x, y)).push(Event::Release(x, y)),
        // toggle: release if it is held, press if it is not
        action is Toggle ==> final(layout).verif_events@ == old(layout).verif_events@.push(
            if held_at(old(layout).states@, x, y) { Event::Release(x, y) } else { Event::Press(x, y) }),

// ---------------------------------------------------------------------------------------
// The TIMED forms (late): hold-for-duration and on-idle.  Each is a HashMap / HashSet method taking a
// closure (`retain`, `entry().or_insert_with`); the closure BODIES are cut as fragments and wrapped
// in synthetic signatures with their captures as parameters.  ASSUMED (std): retain calls the
// closure once per entry and keeps the entry iff it returns true; entry().and_modify(f)
// .or_insert_with(g) runs f on an existing entry and otherwise inserts g()'s value.
// ---------------------------------------------------------------------------------------
//@ item parser/src/custom_action.rs struct Coord
//@@ keep-vis
//@@ no-derives
//@ item parser/src/custom_action.rs struct FakeKeyOnIdle
//@@ keep-vis
//@@ no-derives
//@ item parser/src/custom_action.rs struct FakeKeyHoldForDuration
//@@ keep-vis
//@@ no-derives
//@ raw
impl Copy for Coord {}
impl Clone for Coord { fn clone(&self) -> Self { *self } }
spec fn sat_sub1(a: u16) -> u16 { if a >= 1 { (a - 1) as u16 } else { 0u16 } }

// hold-for-duration, the countdown (Kanata::tick_held_vkeys): one millisecond for one pending
// virtual key - it is released, and forgotten, exactly when its countdown reaches zero
//@ fragment src/kanata/mod.rs fn tick_held_vkeys in `Kanata` block-after `self.vkeys_pending_release.retain(|coord, deadline| {` as vkey_countdown_one
//@@ header
fn vkey_countdown_one<'a, const C: usize, const R: usize, T>(layout: &mut Layout<'a, C, R, T>, coord: &Coord, deadline: &mut u16) -> bool
//@@ resub R45 1 /match deadline \{/ => `match *deadline {`
//@@ ret r
//@@ spec
    ensures
        *final(deadline) == sat_sub1(*old(deadline)),
        r == (*final(deadline) != 0),
        *final(deadline) == 0 ==> final(layout).verif_events@ == old(layout).verif_events@.push(Event::Release(coord.x, coord.y)),
        *final(deadline) != 0 ==> final(layout).verif_events@ == old(layout).verif_events@,

// hold-for-duration, first activation (the `or_insert_with` closure in the custom-action handler):
// the virtual key is pressed and its countdown starts at the configured duration
//@ fragment src/kanata/mod.rs fn handle_keystate_changes in `Kanata` block-after `.or_insert_with(|| {` as vkey_hold_start
//@@ header
fn vkey_hold_start<'a, const C: usize, const R: usize, T>(layout: &mut Layout<'a, C, R, T>, fk_hfd: &FakeKeyHoldForDuration, duration: u16) -> u16
//@@ ret r
//@@ spec
    ensures
        r == duration,
        final(layout).verif_events@ == old(layout).verif_events@.push(Event::Press(fk_hfd.coord.x, fk_hfd.coord.y)),

// hold-for-duration, re-activation while pending (the `and_modify` closure, an EXPRESSION closure:
// fragment mode expr-after): the countdown restarts at the stated duration - "until the stated time
// has passed since its MOST RECENT activation"
//@ fragment src/kanata/mod.rs fn handle_keystate_changes in `Kanata` expr-after `re:\.and_modify\(\|d\|\s*` as vkey_hold_rearm
//@@ header
fn vkey_hold_rearm(d: &mut u16, duration: u16)
//@@ spec
    ensures
        *final(d) == duration,

// on-idle (Kanata::tick_idle_timeout): one pending on-idle action - it fires, through
// handle_fakekey_action (the function under contract above: the caller is checked against that
// contract), exactly when kanata has been idle for at least the configured time, and is then
// forgotten; otherwise nothing happens and it stays pending
//@ raw
pub struct KanataLayout { pub verif_inner: Layout<'static, 1, 1, u8> }
impl KanataLayout {
    /// `bm(&mut self) -> &mut Layout` (a borrow of the inner layout)
    fn bm(&mut self) -> (r: &mut Layout<'static, 1, 1, u8>)
        ensures *r == old(self).verif_inner, final(self).verif_inner == *final(r),
    { &mut self.verif_inner }
}
//@ item src/kanata/mod.rs struct Kanata
//@@ keep-vis
//@@ no-derives
//@@ keep-fields layout ticks_since_idle
//@@ resub Rpath 1 /cfg::KanataLayout/ => `KanataLayout`
//@ raw
/// what handle_fakekey_action queues for an action at a coordinate (its contract, as a function)
spec fn fk_events(action: FakeKeyAction, held: bool, x: u8, y: u16) -> Seq<Event> {
    match action {
        FakeKeyAction::Press => seq![Event::Press(x, y)],
        FakeKeyAction::Release => seq![Event::Release(x, y)],
        FakeKeyAction::Tap => seq![Event::Press(x, y), Event::Release(x, y)],
        FakeKeyAction::Toggle => seq![if held { Event::Release(x, y) } else { Event::Press(x, y) }],
    }
}
//@ fragment src/kanata/mod.rs fn tick_idle_timeout in `Kanata` block-after `self.waiting_for_idle.retain(|wfd| {` as idle_fire_one
//@@ wrap impl Kanata
//@@ header
fn idle_fire_one(&mut self, wfd: &FakeKeyOnIdle) -> bool
//@@ ret r
//@@ spec
    ensures
        r == !(old(self).ticks_since_idle >= wfd.idle_duration),
        final(self).ticks_since_idle == old(self).ticks_since_idle,
        old(self).ticks_since_idle >= wfd.idle_duration ==>
            final(self).layout.verif_inner.verif_events@ =~= old(self).layout.verif_inner.verif_events@
                + fk_events(wfd.action, held_at(old(self).layout.verif_inner.states@, wfd.coord.x, wfd.coord.y), wfd.coord.x, wfd.coord.y),
        !(old(self).ticks_since_idle >= wfd.idle_duration) ==> final(self).layout == old(self).layout,
