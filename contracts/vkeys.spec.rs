//@ unit vkeys
// Side-car contract for handle_fakekey_action (src/kanata/mod.rs), property C18: "press holds its
// action until a release, tap does both, toggle alternates between the two, and these have the same
// effect whether triggered from a key, a macro, a sequence or a TCP client" - every one of those
// sources goes through this one function.  Cut whole; Layout is opaque with a ghost event log.

//@ raw
#[verifier::reject_recursive_types(T)]
#[verifier::external_body]
pub struct State<'a, T> { p: core::marker::PhantomData<&'a T> }
//@ item keyberon/src/layout.rs enum Event
//@@ keep-vis
//@ item parser/src/custom_action.rs enum FakeKeyAction
//@@ keep-vis
//@ raw
/// the keyberon layout: what this function needs of it
#[verifier::reject_recursive_types(T)]
pub struct Layout<'a, const C: usize, const R: usize, T> {
    pub states: Vec<State<'a, T>>,
    pub verif_events: Ghost<Seq<Event>>,
}
impl<'a, const C: usize, const R: usize, T> Layout<'a, C, R, T> {
    /// Layout::event: queues the event (not under contract here); recorded
    #[verifier::external_body]
    fn event(&mut self, event: Event)
        ensures final(self).verif_events@ == old(self).verif_events@.push(event),
    { unimplemented!() }
}
/// "the virtual key is currently held": some state was created at its coordinate
pub uninterp spec fn held_at<'a, T>(states: Seq<State<'a, T>>, x: u8, y: u16) -> bool;
/// states_has_coord (`.iter().any(closure)`), ASSUMED to decide held_at
#[verifier::external_body]
fn states_has_coord<T>(states: &[State<T>], x: u8, y: u16) -> (r: bool)
    ensures r == held_at(states@, x, y),
{ unimplemented!() }

//@ item src/kanata/mod.rs fn handle_fakekey_action
//@@ sig Rbound `T: 'a + std::fmt::Debug + Copy,` => `T: 'a + Copy,`
//@@ spec
    ensures
        action is Press ==> final(layout).verif_events@ == old(layout).verif_events@.push(Event::Press(x, y)),
        action is Release ==> final(layout).verif_events@ == old(layout).verif_events@.push(Event::Release(x, y)),
        // tap does both, press first
        action is Tap ==> final(layout).verif_events@ == old(layout).verif_events@.push(Event::Press(x, y)).push(Event::Release(x, y)),
        // toggle: release if it is held, press if it is not
        action is Toggle ==> final(layout).verif_events@ == old(layout).verif_events@.push(
            if held_at(old(layout).states@, x, y) { Event::Release(x, y) } else { Event::Press(x, y) }),
