//@ unit seqs
// Side-car contracts for the macro stepper, Layout::process_sequences (keyberon/src/layout.rs),
// property C08: "outputs precisely the presses and releases it spells out ... in order, with at
// least the stated delays between them and no two of its steps in the same millisecond".
// What is cut: the main loop of process_sequences (a FRAGMENT: everything before the
// `if self.active_sequences.is_empty()` block that restarts a repeating macro - that block searches
// with `.iter().rev().find(closure)`), State::seq_release, and the types they touch.

//@ raw
// R3: containers, ASSUMED contracts
pub mod arraydeque {
    use vstd::prelude::*;
    pub mod behavior {
        pub struct Wrapping;
        pub struct Saturating;
    }
    #[verifier::external_body]
    #[verifier::reject_recursive_types(T)]
    #[verifier::reject_recursive_types(B)]
    pub struct ArrayDeque<T, const N: usize, B = behavior::Saturating> {
        v: Vec<T>,
        b: core::marker::PhantomData<B>,
    }
    impl<T, const N: usize, B> ArrayDeque<T, N, B> {
        pub uninterp spec fn view(&self) -> Seq<T>;
        #[verifier::external_body]
        pub proof fn axiom_capacity(&self)
            ensures self.view().len() <= N,
        { unimplemented!() }
        #[verifier::external_body]
        pub fn len(&self) -> (r: usize)
            ensures r == self.view().len(),
        { unimplemented!() }
        #[verifier::external_body]
        pub fn is_empty(&self) -> (r: bool)
            ensures r == (self.view().len() == 0),
        { unimplemented!() }
        #[verifier::external_body]
        pub fn pop_front(&mut self) -> (r: Option<T>)
            ensures
                old(self).view().len() == 0 ==> r.is_none() && final(self).view() == old(self).view(),
                old(self).view().len() > 0 ==> r == Some(old(self).view()[0]) && final(self).view() == old(self).view().drop_first(),
        { unimplemented!() }
        #[verifier::external_body]
        pub fn push_back(&mut self, x: T) -> (r: Option<T>)
            ensures
                old(self).view().len() < N ==> r.is_none() && final(self).view() == old(self).view().push(x),
                old(self).view().len() >= N ==> r == Some(old(self).view()[0]) && final(self).view() == old(self).view().drop_first().push(x),
        { unimplemented!() }
        // push_front (not used by the extracted text today; present so that a change to it is decided, not undecided)
        #[verifier::external_body]
        pub fn push_front(&mut self, x: T) -> (r: Option<T>)
            ensures
                old(self).view().len() < N ==> r.is_none() && final(self).view() == seq![x] + old(self).view(),
                old(self).view().len() >= N ==> r == Some(old(self).view().last()) && final(self).view() == seq![x] + old(self).view().drop_last(),
        { unimplemented!() }
    }
}
pub mod heapless {
    use vstd::prelude::*;
    #[verifier::external_body]
    #[verifier::reject_recursive_types(T)]
    pub struct Vec<T, const N: usize> { v: std::vec::Vec<T> }
    /// the elements retain() keeps, given the answers of its predicate
    pub open spec fn pick<T>(s: Seq<T>, d: Seq<bool>) -> Seq<T>
        decreases s.len(),
    {
        if s.len() == 0 || d.len() != s.len() { Seq::empty() }
        else if d.last() { pick(s.drop_last(), d.drop_last()).push(s.last()) }
        else { pick(s.drop_last(), d.drop_last()) }
    }
    /// an iterator over the table, for code that may start to search it: its adapters say nothing
    /// about their results (an unannotated predicate is unknown to the verifier)
    #[verifier::external_body]
    #[verifier::reject_recursive_types(T)]
    pub struct VIter<'v, T> { p: core::marker::PhantomData<&'v T> }
    impl<'v, T> VIter<'v, T> {
        #[verifier::external_body]
        pub fn any<F: Fn(&T) -> bool>(self, f: F) -> (r: bool)
            requires forall|x: &T| f.requires((x,)),
        { unimplemented!() }
    }
    impl<T, const N: usize> Vec<T, N> {
        pub uninterp spec fn view(&self) -> Seq<T>;
        #[verifier::external_body]
        pub fn iter<'v>(&'v self) -> VIter<'v, T> { unimplemented!() }
        /// push: Err(x) and no change when full
        #[verifier::external_body]
        pub fn push(&mut self, x: T) -> (r: Result<(), T>)
            ensures
                old(self).view().len() < N ==> r is Ok && final(self).view() == old(self).view().push(x),
                old(self).view().len() >= N ==> r is Err && final(self).view() == old(self).view(),
        { unimplemented!() }
        /// retain: the predicate is asked once per element, front to back
        #[verifier::external_body]
        pub fn retain<F: FnMut(&T) -> bool>(&mut self, f: F)
            requires forall|x: &T| f.requires((x,)),
            ensures exists|d: Seq<bool>| #![trigger d.len()] d.len() == old(self).view().len()
                && (forall|i: int| #![trigger d[i]] 0 <= i < d.len() ==> f.ensures((&old(self).view()[i],), d[i]))
                && final(self).view() == pick(old(self).view(), d),
        { unimplemented!() }
    }
}
use arraydeque::ArrayDeque;
use heapless::Vec;

#[derive(Clone, Copy, PartialEq, Eq, Structural)]
pub struct KeyCode { pub verif_code: u16 }
#[derive(Clone, Copy, PartialEq, Eq, Structural)]
pub struct NormalKeyFlags(pub u8);

//@ item keyberon/src/layout.rs type KCoord
//@ item keyberon/src/action.rs enum SequenceEvent
//@@ keep-vis
//@@ no-derives
//@@ attr #[verifier::reject_recursive_types(T)]
//@ item keyberon/src/layout.rs struct SequenceState
//@@ keep-vis
//@@ no-derives
//@@ attr #[verifier::reject_recursive_types(T)]
//@ item keyberon/src/layout.rs enum State
//@@ keep-vis
//@@ no-derives
//@@ attr #[verifier::reject_recursive_types(T)]
//@ item keyberon/src/layout.rs enum OneShotHandlePressKey
//@@ keep-vis
//@@ no-derives

//@ raw
// `#[derive(Clone, Copy)]` / the hand-written Copy + Clone impls of the repository, restated
impl<'a, T> Copy for SequenceEvent<'a, T> {}
impl<'a, T> Clone for SequenceEvent<'a, T> {
    #[verifier::external_body]
    fn clone(&self) -> (r: Self) ensures r == *self { *self }
}
impl<'a, T> Copy for SequenceState<'a, T> {}
impl<'a, T> Clone for SequenceState<'a, T> {
    #[verifier::external_body]
    fn clone(&self) -> (r: Self) ensures r == *self { *self }
}
impl<'a, T> Copy for State<'a, T> {}
impl<'a, T> Clone for State<'a, T> {
    #[verifier::external_body]
    fn clone(&self) -> (r: Self) ensures r == *self { *self }
}
use State::*;

/// what the stepper tells the rest of the layout, in order (ghost log)
pub ghost enum Told {
    OneShotPress(OneShotHandlePressKey),   // oneshot.handle_press(..)
    OneShotRelease(KCoord),                // oneshot.handle_release(..)
}
/// History / OneShotState: opaque, each with a ghost log of what it was told
pub struct History { pub verif_pushed: Ghost<Seq<KeyCode>> }
pub struct OneShotState { pub verif_calls: Ghost<Seq<Told>> }

//@ item keyberon/src/layout.rs struct Layout
//@@ no-derives
//@@ keep-vis
//@@ attr #[verifier::reject_recursive_types(T)]
//@@ resub Rbound 1 /T: 'a \+ std::fmt::Debug,/ => `T: 'a,`
//@@ resub Rtype 1 /History<KeyCode>/ => `History`
//@@ keep-fields states oneshot active_sequences rpt_action historical_keys

//@ raw
impl History {
    /// History::push_front: recorded (C10's business)
    #[verifier::external_body]
    fn push_front(&mut self, event: KeyCode)
        ensures final(self).verif_pushed@ == old(self).verif_pushed@.push(event),
    { unimplemented!() }
}
impl OneShotState {
    /// proved in unit `oneshot`; here only the fact that it was called (and with what)
    #[verifier::external_body]
    fn handle_press(&mut self, key: OneShotHandlePressKey)
        ensures final(self).verif_calls@ == old(self).verif_calls@.push(Told::OneShotPress(key)),
    { unimplemented!() }
    #[verifier::external_body]
    fn handle_release(&mut self, c: KCoord)
        ensures final(self).verif_calls@ == old(self).verif_calls@.push(Told::OneShotRelease(c)),
    { unimplemented!() }
}
// `if let [e, tail @ ..] = xs` is rewritten (R20) to `if let Some((e, tail)) = xs.split_first()`:
// the same thing by definition of split_first (specified in vstd)
// (vstd carries the specification of <[T]>::split_first)

//@ item keyberon/src/layout.rs fn keycode in `State<'a, T>`
//@@ wrap impl<'a, T: 'a> State<'a, T>
//@@ ret r
//@@ spec
    ensures r == (match *self { State::NormalKey { keycode, .. } => Some(keycode), State::FakeKey { keycode } => Some(keycode), _ => None }),
//@ item keyberon/src/layout.rs fn seq_release in `State<'a, T>`
//@@ wrap impl<'a, T: 'a> State<'a, T>
//@@ pre
    /// Some(self) unless self is the fake (macro) key press of kc
    pub open spec fn seq_release_spec(&self, kc: KeyCode) -> Option<Self> {
        match *self { State::FakeKey { keycode } => if keycode == kc { None } else { Some(*self) }, _ => Some(*self) }
    }
//@@ attr #[verifier::when_used_as_spec(seq_release_spec)]
//@@ ret r
//@@ spec
    ensures r == self.seq_release_spec(kc),

//@ raw
/// a running macro, abstractly: its cursor
#[verifier::reject_recursive_types(T)]
pub ghost struct SeqV<'a, T> {
    pub cur_event: Option<SequenceEvent<'a, T>>,
    pub delay: u32,
    pub tapped: Option<KeyCode>,
    pub remaining: Seq<SequenceEvent<'a, T>>,
}
spec fn view_of<'a, T>(q: SequenceState<'a, T>) -> SeqV<'a, T> {
    SeqV { cur_event: q.cur_event, delay: q.delay, tapped: q.tapped, remaining: q.remaining_events@ }
}
spec fn views<'a, T>(qs: Seq<SequenceState<'a, T>>) -> Seq<SeqV<'a, T>> { Seq::new(qs.len(), |j: int| view_of(qs[j])) }
/// the key states and the notifications, i.e. everything a step changes outside its own cursor
#[verifier::reject_recursive_types(T)]
pub ghost struct World<'a, T> {
    pub states: Seq<State<'a, T>>,
    pub hist: Seq<KeyCode>,
    pub osh: Seq<Told>,
}
/// the event handled in a tick in which the macro neither waits nor finishes a tap: the next
/// listed one (the previous one again if the list is exhausted - never reached: such a macro is
/// not kept running)
spec fn next_event<'a, T>(v: SeqV<'a, T>) -> Option<SequenceEvent<'a, T>> {
    if v.remaining.len() > 0 { Some(v.remaining[0]) } else { v.cur_event }
}
spec fn rest<'a, T>(v: SeqV<'a, T>) -> Seq<SequenceEvent<'a, T>> {
    if v.remaining.len() > 0 { v.remaining.drop_first() } else { v.remaining }
}
/// ONE tick of ONE macro, its cursor: a pending delay counts down; else a tap is finished; else
/// exactly one event is taken from the front of the list
spec fn step_v<'a, T>(v: SeqV<'a, T>) -> SeqV<'a, T> {
    if v.delay > 0 { SeqV { delay: (v.delay - 1) as u32, ..v } }
    else if v.tapped is Some { SeqV { tapped: None, ..v } }
    else {
        let e = next_event(v);
        let b = SeqV { cur_event: e, remaining: rest(v), ..v };
        match e {
            Some(SequenceEvent::Complete) => SeqV { remaining: Seq::empty(), ..b },
            Some(SequenceEvent::Tap(k)) => SeqV { tapped: Some(k), ..b },
            // a delay of d ticks includes this one
            Some(SequenceEvent::Delay { duration }) => if duration > 0 { SeqV { delay: (duration - 1) as u32, ..b } } else { b },
            _ => b,
        }
    }
}
/// the fake (macro) presses of k removed
spec fn without_fake<'a, T>(st: Seq<State<'a, T>>, k: KeyCode) -> Seq<State<'a, T>> {
    st.filter(|s: State<'a, T>| s.seq_release_spec(k) is Some)
}
/// a state appended unless the table of 64 is full
spec fn pushed<'a, T>(st: Seq<State<'a, T>>, s: State<'a, T>) -> Seq<State<'a, T>> {
    if st.len() < 64 { st.push(s) } else { st }
}
/// ONE tick of ONE macro, its effect: a Press puts a fake key down (and is told to key history and
/// to the one-shot logic as an ordinary key press), a Release takes it up, a Tap does the former now
/// and the latter on the macro's next tick, a Custom is queued; nothing else
spec fn step_world<'a, T>(v: SeqV<'a, T>, w: World<'a, T>) -> World<'a, T> {
    if v.delay > 0 { w }
    else if v.tapped is Some { World { states: without_fake(w.states, v.tapped.unwrap()), ..w } }
    else {
        match next_event(v) {
            Some(SequenceEvent::Press(k)) | Some(SequenceEvent::Tap(k)) => World {
                states: pushed(w.states, State::FakeKey { keycode: k }),
                hist: w.hist.push(k),
                osh: w.osh.push(Told::OneShotPress(OneShotHandlePressKey::Other((0u8, 0u16)))),
            },
            Some(SequenceEvent::Release(k)) => World {
                states: without_fake(w.states, k),
                osh: w.osh.push(Told::OneShotRelease((0u8, 0u16))),
                ..w
            },
            Some(SequenceEvent::Custom(c)) => World { states: pushed(w.states, State::SeqCustomPending(c)), ..w },
            _ => w,
        }
    }
}
/// the macros still running after the first i have stepped, in order
spec fn run_out<'a, T>(vs: Seq<SeqV<'a, T>>, i: int) -> Seq<SeqV<'a, T>>
    decreases i,
{
    if i <= 0 { Seq::empty() }
    else {
        let s = step_v(vs[i - 1]);
        if s.remaining.len() > 0 { run_out(vs, i - 1).push(s) } else { run_out(vs, i - 1) }
    }
}
spec fn run_world<'a, T>(vs: Seq<SeqV<'a, T>>, i: int, w: World<'a, T>) -> World<'a, T>
    decreases i,
{
    if i <= 0 { w } else { step_world(vs[i - 1], run_world(vs, i - 1, w)) }
}
impl<'a, const C: usize, const R: usize, T: 'a> Layout<'a, C, R, T> {
    spec fn world(&self) -> World<'a, T> {
        World { states: self.states@, hist: self.historical_keys.verif_pushed@, osh: self.oneshot.verif_calls@ }
    }
}

proof fn lemma_pick_without_fake<'a, T>(st: Seq<State<'a, T>>, d: Seq<bool>, k: KeyCode)
    requires d.len() == st.len(), forall|i: int| 0 <= i < st.len() ==> d[i] == (st[i].seq_release_spec(k) is Some),
    ensures heapless::pick(st, d) == without_fake(st, k),
    decreases st.len(),
{
    reveal(Seq::filter);
    if st.len() > 0 { lemma_pick_without_fake(st.drop_last(), d.drop_last(), k); }
}
proof fn lemma_views_ops<'a, T>(a: Seq<SequenceState<'a, T>>, x: SequenceState<'a, T>)
    ensures
        views(a.push(x)) == views(a).push(view_of(x)),
        a.len() > 0 ==> views(a.drop_first()) == views(a).drop_first() && views(a)[0] == view_of(a[0]),
{
    assert(views(a.push(x)) =~= views(a).push(view_of(x)));
    if a.len() > 0 { assert(views(a.drop_first()) =~= views(a).drop_first()); }
}

//@ fragment keyberon/src/layout.rs fn process_sequences in `Layout<'a, C, R, T>` head-until `if self.active_sequences.is_empty() {` as process_sequences_loop
//@@ wrap impl<'a, const C: usize, const R: usize, T: 'a + Copy> Layout<'a, C, R, T>
//@@ header
fn process_sequences_loop(&mut self)
//@@ resub R12 2 /self\.states\.retain\(\|s\| ([^;]*)\);/ => `self.states.retain(|s: &State<'a, T>| -> (b: bool) ensures b == (\1) { \1 });`
//@@ resub R20 1 /if let \[e, tail @ \.\.\] = seq\.remaining_events/ => `if let Some((e, tail)) = seq.remaining_events.split_first()`
//@@ resub R10 1 /for _ in 0\.\.self\.active_sequences\.len\(\)/ => `for _ in itr: 0..self.active_sequences.len()`
//@@ spec
    ensures
        // every running macro takes AT MOST ONE step (its cursor moves by step_v), in the order they
        // were started; a macro with nothing left is dropped, the others keep running
        views(final(self).active_sequences@) == run_out(views(old(self).active_sequences@), old(self).active_sequences@.len() as int),
        // and the steps act on the key states / are told to the rest of the layout in that order
        final(self).world() == run_world(views(old(self).active_sequences@), old(self).active_sequences@.len() as int, old(self).world()),
//@@ before-re 1 /for _ in itr:/
    let ghost vs0 = views(self.active_sequences@);
    let ghost n = self.active_sequences@.len() as int;
    let ghost w0 = self.world();
    proof {
        self.active_sequences.axiom_capacity();
        assert(vs0.subrange(0, n) =~= vs0);
        assert(vs0 + Seq::<SeqV<'a, T>>::empty() =~= vs0);
    }
//@@ loop 1
    invariant
        0 <= itr.index@ <= n, n <= 4, vs0.len() == n, itr.seq().len() == n,
        views(self.active_sequences@) == vs0.subrange(itr.index@ as int, n) + run_out(vs0, itr.index@ as int),
        self.world() == run_world(vs0, itr.index@ as int, w0),
//@@ before 1 `if let Some(mut seq) = self.active_sequences.pop_front() {`
    let ghost i = itr.index@ as int;
    let ghost a0 = self.active_sequences@;
    let ghost wb = self.world();
    let ghost q0 = vs0[i];
    proof {
        self.active_sequences.axiom_capacity();
        assert(views(a0).len() == a0.len());
        assert(a0.len() == (n - i) + run_out(vs0, i).len());
        assert(a0.len() > 0);
        assert(views(a0)[0] == vs0.subrange(i, n)[0]);
        lemma_views_ops(a0, a0[0]);
        assert(view_of(a0[0]) == q0);
        assert(views(a0).drop_first() =~= vs0.subrange(i + 1, n) + run_out(vs0, i));
    }
//@@ before-re 1 /self\.states\.retain\([^;]*\);/
    let ghost st0 = self.states@;
//@@ after-re 1 /self\.states\.retain\([^;]*\);/
    proof {
        let d = choose|d: Seq<bool>| #![trigger d.len()] d.len() == st0.len()
            && (forall|j: int| #![trigger d[j]] 0 <= j < d.len() ==> d[j] == (st0[j].seq_release_spec(keycode) is Some))
            && self.states@ == heapless::pick(st0, d);
        lemma_pick_without_fake(st0, d, keycode);
    }
//@@ before-re 2 /self\.states\.retain\([^;]*\);/
    let ghost st0 = self.states@;
//@@ after-re 2 /self\.states\.retain\([^;]*\);/
    proof {
        let d = choose|d: Seq<bool>| #![trigger d.len()] d.len() == st0.len()
            && (forall|j: int| #![trigger d[j]] 0 <= j < d.len() ==> d[j] == (st0[j].seq_release_spec(keycode) is Some))
            && self.states@ == heapless::pick(st0, d);
        lemma_pick_without_fake(st0, d, keycode);
    }
//@@ before-re 1 /if !seq\.remaining_events\.is_empty\(\) \{/
    proof {
        assert(view_of(seq).delay == step_v(q0).delay);
        assert(view_of(seq).tapped == step_v(q0).tapped);
        assert(view_of(seq).cur_event == step_v(q0).cur_event);
        assert(view_of(seq).remaining =~= step_v(q0).remaining);
        assert(view_of(seq) == step_v(q0));
        assert(self.world() == step_world(q0, wb));
    }
    let ghost a1 = self.active_sequences@;
//@@ after-re 1 /self\.active_sequences\.push_back\(seq\);\s*\}/
    proof {
        lemma_views_ops(a1, seq);
        let s = step_v(q0);
        assert(run_out(vs0, i + 1) == (if s.remaining.len() > 0 { run_out(vs0, i).push(s) } else { run_out(vs0, i) }));
        assert(views(self.active_sequences@) =~= vs0.subrange(i + 1, n) + run_out(vs0, i + 1));
        assert(run_world(vs0, i + 1, w0) == step_world(q0, run_world(vs0, i, w0)));
    }

// ---------------------------------------------------------------------------------------
// Activation: the Sequence / RepeatableSequence arms of Layout::do_action (FRAGMENTS).  A macro
// starts as a fresh cursor at the START of exactly its event list, behind the macros already
// running; a fifth concurrent macro evicts the oldest cursor (ring of 4).
// ---------------------------------------------------------------------------------------
//@ raw
#[verifier::reject_recursive_types(T)]
#[verifier::external_body]
pub struct Action<'a, T> { p: core::marker::PhantomData<&'a T> }
spec fn fresh<'a, T>(events: Seq<SequenceEvent<'a, T>>) -> SeqV<'a, T> {
    SeqV { cur_event: None, delay: 0, tapped: None, remaining: events }
}

//@ fragment keyberon/src/layout.rs fn do_action in `Layout<'a, C, R, T>` block-after `Sequence { events } => {` as do_action_sequence
//@@ wrap impl<'a, const C: usize, const R: usize, T: 'a + Copy> Layout<'a, C, R, T>
//@@ header
fn do_action_sequence(&mut self, action: &'a Action<'a, T>, coord: KCoord, is_oneshot: bool, events: &'a &'a [SequenceEvent<'a, T>])
//@@ spec
    ensures
        old(self).active_sequences@.len() < 4 ==> views(final(self).active_sequences@) == views(old(self).active_sequences@).push(fresh(events@)),
        old(self).active_sequences@.len() >= 4 ==> views(final(self).active_sequences@) == views(old(self).active_sequences@).drop_first().push(fresh(events@)),
        // starting a macro presses nothing by itself
        final(self).states@ == old(self).states@,
        final(self).historical_keys.verif_pushed@ == old(self).historical_keys.verif_pushed@,
        final(self).rpt_action == Some(action),
//@@ after-re 1 /remaining_events: events,\s*\}\);/
    proof {
        let a = old(self).active_sequences@;
        let q = self.active_sequences@.last();
        lemma_views_ops(a, q);
        if a.len() > 0 { lemma_views_ops(a.drop_first(), q); }
        assert(view_of(q) == fresh(events@));
    }

//@ fragment keyberon/src/layout.rs fn do_action in `Layout<'a, C, R, T>` block-after `RepeatableSequence { events } => {` as do_action_repeatable_sequence
//@@ wrap impl<'a, const C: usize, const R: usize, T: 'a + Copy> Layout<'a, C, R, T>
//@@ header
fn do_action_repeatable_sequence(&mut self, action: &'a Action<'a, T>, coord: KCoord, is_oneshot: bool, events: &'a &'a [SequenceEvent<'a, T>])
//@@ spec
    ensures
        old(self).active_sequences@.len() < 4 ==> views(final(self).active_sequences@) == views(old(self).active_sequences@).push(fresh(events@)),
        old(self).active_sequences@.len() >= 4 ==> views(final(self).active_sequences@) == views(old(self).active_sequences@).drop_first().push(fresh(events@)),
        // the held trigger of a repeating macro is remembered as a state at its coordinate
        final(self).states@ == pushed(old(self).states@, State::RepeatingSequence { sequence: events, coord }),
        final(self).historical_keys.verif_pushed@ == old(self).historical_keys.verif_pushed@,
        final(self).rpt_action == Some(action),
//@@ after-re 1 /remaining_events: events,\s*\}\);/
    proof {
        let a = old(self).active_sequences@;
        let q = self.active_sequences@.last();
        lemma_views_ops(a, q);
        if a.len() > 0 { lemma_views_ops(a.drop_first(), q); }
        assert(view_of(q) == fresh(events@));
    }

// ---------------------------------------------------------------------------------------
// Cancellation: the CancelSequences arm of Layout::do_action (a FRAGMENT).  C08: "When the macro
// ... is cancelled ... every key it pressed is released".
// ---------------------------------------------------------------------------------------
//@ raw
/// R21: `for x in self.states.clone().iter()` -> `let verif_snap = <snapshot>; for x in verif_snap.iter()`
/// (the temporary of the loop head bound to a local; ASSUMED: clone copies the elements in order)
#[verifier::external_body]
fn verif_snapshot<T: Copy, const N: usize>(v: &Vec<T, N>) -> (r: std::vec::Vec<T>)
    ensures r@ == v@,
{ unimplemented!() }
impl<T, const N: usize, B> ArrayDeque<T, N, B> {
    #[verifier::external_body]
    pub fn clear(&mut self)
        ensures final(self).view() == Seq::<T>::empty(),
    { unimplemented!() }
}
spec fn nonfake<'a, T>(s: State<'a, T>) -> bool { !(s is FakeKey) }
proof fn lemma_without_fake<'a, T>(st: Seq<State<'a, T>>, k: KeyCode)
    ensures
        // only fake presses of k go, in particular no other kind of state
        without_fake(st, k).filter(|s: State<'a, T>| nonfake(s)) == st.filter(|s: State<'a, T>| nonfake(s)),
        forall|s: State<'a, T>| #[trigger] without_fake(st, k).contains(s) ==> st.contains(s) && s.seq_release_spec(k) is Some,
    decreases st.len(),
{
    reveal(Seq::filter);
    if st.len() > 0 {
        lemma_without_fake(st.drop_last(), k);
        let w = without_fake(st, k);
        let wd = without_fake(st.drop_last(), k);
        let nf = |s: State<'a, T>| nonfake(s);
        if st.last().seq_release_spec(k) is Some {
            assert(w == wd.push(st.last()));
            assert(w.drop_last() =~= wd);
            assert(w.last() == st.last());
            assert(w.filter(nf) == (if nonfake(st.last()) { wd.filter(nf).push(st.last()) } else { wd.filter(nf) }));
        } else {
            assert(w == wd);
            assert(!nonfake(st.last()));
        }
        assert(st.filter(nf) == (if nonfake(st.last()) { st.drop_last().filter(nf).push(st.last()) } else { st.drop_last().filter(nf) }));
        assert forall|s: State<'a, T>| #[trigger] w.contains(s) implies st.contains(s) && s.seq_release_spec(k) is Some by {
            if st.last().seq_release_spec(k) is Some {
                assert(w == wd.push(st.last()));
                if s != st.last() {
                    let j = choose|j: int| 0 <= j < w.len() && w[j] == s;
                    assert(j < wd.len());
                    assert(wd.contains(s));
                    let i = choose|i: int| 0 <= i < st.drop_last().len() && st.drop_last()[i] == s;
                    assert(st[i] == s);
                } else {
                    assert(st[st.len() - 1] == s);
                }
            } else {
                assert(w == wd);
                let i = choose|i: int| 0 <= i < st.drop_last().len() && st.drop_last()[i] == s;
                assert(st[i] == s);
            }
        }
    }
}

//@ fragment keyberon/src/layout.rs fn do_action in `Layout<'a, C, R, T>` block-after `CancelSequences => {` as do_action_cancel_sequences
//@@ wrap impl<'a, const C: usize, const R: usize, T: 'a + Copy> Layout<'a, C, R, T>
//@@ header
fn do_action_cancel_sequences(&mut self, action: &'a Action<'a, T>, coord: KCoord, is_oneshot: bool)
//@@ resub R21 1 /for fake_key in self\.states\.clone\(\)\.iter\(\)/ => `let verif_snap = verif_snapshot(&self.states); for fake_key in itf: verif_snap.iter()`
//@@ resub R12 1 /self\.states\.retain\(\|s\| ([^;]*)\);/ => `self.states.retain(|s: &State<'a, T>| -> (b: bool) ensures b == (\1) { \1 });`
//@@ spec
    ensures
        // no macro keeps running
        final(self).active_sequences@.len() == 0,
        // EVERY key a macro had pressed is released: no fake key press survives
        forall|j: int| 0 <= j < final(self).states@.len() ==> nonfake(#[trigger] final(self).states@[j]),
        // and nothing else is touched: the other states are the same, in the same order
        final(self).states@.filter(|s: State<'a, T>| nonfake(s)) == old(self).states@.filter(|s: State<'a, T>| nonfake(s)),
        final(self).rpt_action == Some(action),
//@@ before-re 1 /let verif_snap = /
    let ghost snap = self.states@;
//@@ loop 1
    invariant
        itf.seq().len() == snap.len(), 0 <= itf.index@ <= snap.len(),
        forall|i: int| 0 <= i < snap.len() ==> *(#[trigger] itf.seq()[i]) == snap[i],
        snap == old(self).states@,
        self.active_sequences@.len() == 0, self.rpt_action == old(self).rpt_action,
        forall|s: State<'a, T>| #[trigger] self.states@.contains(s) ==> snap.contains(s),
        self.states@.filter(|s: State<'a, T>| nonfake(s)) == snap.filter(|s: State<'a, T>| nonfake(s)),
        forall|j: int, s: State<'a, T>| 0 <= j < itf.index@ && #[trigger] snap[j] is FakeKey && #[trigger] self.states@.contains(s)
            ==> !(s is FakeKey && s->FakeKey_keycode == snap[j]->FakeKey_keycode),
//@@ before-re 1 /self\.states\.retain\([^;]*\);/
    let ghost st0 = self.states@;
//@@ after-re 1 /self\.states\.retain\([^;]*\);/
    proof {
        let d = choose|d: Seq<bool>| #![trigger d.len()] d.len() == st0.len()
            && (forall|j: int| #![trigger d[j]] 0 <= j < d.len() ==> d[j] == (st0[j].seq_release_spec(keycode) is Some))
            && self.states@ == heapless::pick(st0, d);
        lemma_pick_without_fake(st0, d, keycode);
        lemma_without_fake(st0, keycode);
        assert(snap[itf.index@ as int] == State::<'a, T>::FakeKey { keycode });
    }
//@@ before-re 1 /if !is_oneshot \{/
    proof {
        // a surviving fake key would be in the snapshot, hence visited, hence removed
        assert forall|j: int| 0 <= j < self.states@.len() implies nonfake(#[trigger] self.states@[j]) by {
            let s = self.states@[j];
            assert(self.states@.contains(s));
            if s is FakeKey {
                assert(snap.contains(s));
                let i = choose|i: int| 0 <= i < snap.len() && snap[i] == s;
                assert(snap[i] is FakeKey);
            }
        }
    }
