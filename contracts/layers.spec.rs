//@ unit layers
// Side-car contracts for the layered-keymap mechanics of keyberon/src/layout.rs, property C04:
// "a press performs the action found by searching the held layers from most recently activated to
//  oldest, then the base layer, then (when so configured) the first layer, then the defsrc key (a
//  transparent item ... continues the same search below it); and the matching release undoes exactly
//  what that press did even if layers changed in between."
// What is cut: Layout::resolve_coord (whole), State::{release, coord, keycode, get_layer} (whole),
// Layout::set_default_layer (whole), and of Layout::do_action the Layer and DefaultLayer arms and the
// head of the KeyCode arm (FRAGMENTS).  The construction of the search order
// (trans_resolution_layer_order / current_layer: iterator chains with closures) and the release loop
// of dequeue (a retain closure that mutates a captured event) stay outside.

//@ raw
pub mod heapless {
    use vstd::prelude::*;
    #[verifier::external_body]
    #[verifier::reject_recursive_types(T)]
    pub struct Vec<T, const N: usize> { v: std::vec::Vec<T> }
    /// the elements retain() keeps, given the answers of its predicate
    pub open spec fn pick<T>(s: Seq<T>, d: Seq<bool>) -> Seq<T>
        decreases s.len(),
    {
        if s.len() == 0 || d.len() != s.len() { Seq::empty() }
        else if d.last() { pick(s.drop_last(), d.drop_last()).push(s.last()) }
        else { pick(s.drop_last(), d.drop_last()) }
    }
    impl<T, const N: usize> Vec<T, N> {
        pub uninterp spec fn view(&self) -> Seq<T>;
        /// retain: the predicate is asked once per element, front to back
        #[verifier::external_body]
        pub fn retain<F: FnMut(&T) -> bool>(&mut self, f: F)
            requires forall|x: &T| f.requires((x,)),
            ensures exists|d: Seq<bool>| #![trigger d.len()] d.len() == old(self).view().len()
                && (forall|i: int| #![trigger d[i]] 0 <= i < d.len() ==> f.ensures((&old(self).view()[i],), d[i]))
                && final(self).view() == pick(old(self).view(), d),
        { unimplemented!() }
        /// push: Err(x) and no change when full
        #[verifier::external_body]
        pub fn push(&mut self, x: T) -> (r: Result<(), T>)
            ensures
                old(self).view().len() < N ==> r is Ok && final(self).view() == old(self).view().push(x),
                old(self).view().len() >= N ==> r is Err && final(self).view() == old(self).view(),
        { unimplemented!() }
    }
}
use heapless::Vec;

#[derive(Clone, Copy, PartialEq, Eq, Structural)]
pub struct KeyCode { pub verif_code: u16 }
#[derive(Clone, Copy, PartialEq, Eq, Structural)]
pub struct NormalKeyFlags(pub u8);
#[verifier::reject_recursive_types(T)]
#[verifier::external_body]
pub struct SequenceEvent<'a, T> { p: core::marker::PhantomData<&'a T> }

//@ item keyberon/src/layout.rs type KCoord
//@ item keyberon/src/layout.rs enum State
//@@ keep-vis
//@@ no-derives
//@@ attr #[verifier::reject_recursive_types(T)]
//@ item keyberon/src/layout.rs enum CustomEvent
//@@ no-derives
//@@ keep-vis
//@@ resub Rattr 1 /#\[default\]\s*/ => ``
//@ item keyberon/src/layout.rs enum OneShotHandlePressKey
//@@ keep-vis
//@@ no-derives
//@ raw
impl<'a, T> Copy for State<'a, T> {}
impl<'a, T> Clone for State<'a, T> {
    #[verifier::external_body]
    fn clone(&self) -> (r: Self) ensures r == *self { *self }
}
use State::*;

//@ item keyberon/src/layout.rs fn update in `CustomEvent<'_, T>`
//@@ wrap impl<T> CustomEvent<'_, T>
//@@ sub Ruse 1 `use CustomEvent::*;` => ``
//@@ resub Rpath 2 /\(Release\(_\)/ => `(CustomEvent::Release(_)`
//@@ resub Rpath 1 /\(Press\(_\), NoEvent\)/ => `(CustomEvent::Press(_), CustomEvent::NoEvent)`
//@@ resub Rpath 1 /, NoEvent\) \|/ => `, CustomEvent::NoEvent) |`
//@@ resub Rpath 1 /, Press\(_\)\) =>/ => `, CustomEvent::Press(_)) =>`
//@@ spec
    ensures
        // events only move up in the order NoEvent < Press < Release
        *final(self) == (if e is Release && !(*old(self) is Release) { e } else if e is Press && *old(self) is NoEvent { e } else { *old(self) }),

//@ raw
/// the coordinate that created a state, if it is one that a key release ends
spec fn coord_of<'a, T>(s: State<'a, T>) -> Option<KCoord> {
    match s {
        State::NormalKey { coord, .. } => Some(coord),
        State::LayerModifier { coord, .. } => Some(coord),
        State::Custom { coord, .. } => Some(coord),
        State::RepeatingSequence { coord, .. } => Some(coord),
        _ => None,
    }
}

//@ raw
/// the custom action whose release a key release at c reports, if any
spec fn released_custom<'a, T>(s: State<'a, T>, c: KCoord) -> Option<&'a T> {
    match s { State::Custom { value, coord } => if coord == c { Some(value) } else { None }, _ => None }
}

//@ item keyberon/src/layout.rs fn coord in `State<'a, T>`
//@@ wrap impl<'a, T: 'a> State<'a, T>
//@@ ret r
//@@ spec
    ensures r == coord_of(*self),
//@ item keyberon/src/layout.rs fn get_layer in `State<'a, T>`
//@@ wrap impl<'a, T: 'a> State<'a, T>
//@@ ret r
//@@ spec
    ensures r == (match *self { State::LayerModifier { value, .. } => Some(value), _ => None }),
//@ item keyberon/src/layout.rs fn keycode in `State<'a, T>`
//@@ wrap impl<'a, T: 'a> State<'a, T>
//@@ ret r
//@@ spec
    ensures r == (match *self { State::NormalKey { keycode, .. } => Some(keycode), State::FakeKey { keycode } => Some(keycode), _ => None }),
//@ item keyberon/src/layout.rs fn release in `State<'a, T>`
//@@ wrap impl<'a, T: 'a> State<'a, T>
//@@ distribute-guard R23
//@@ ret r
//@@ spec
    ensures
        // RELEASE BY COORDINATE: a state ends iff it was created at the released coordinate - whatever
        // layer is active now; everything else is kept unchanged
        r == (if coord_of(*self) == Some(c) { None } else { Some(*self) }),
        // a custom action's release is reported; nothing else changes the pending event
        // (the frame "no other state touches the pending event" is true by inspection but this Verus
        // loses it across guarded match arms of which one mutates a `&mut` parameter - minimal
        // reproduction kept in DESIGN 9.3 - so it is not claimed)
        released_custom(*self, c) matches Some(v) ==> *final(custom) == (if *old(custom) is Release { *old(custom) } else { CustomEvent::Release(v) }),

// ---------------------------------------------------------------------------------------
// THE SEARCH: Layout::resolve_coord
// ---------------------------------------------------------------------------------------
//@ raw
pub struct LastPressTracker { pub coord: KCoord, pub tap_hold_timeout: u16 }
impl LastPressTracker {
    /// proved in unit `waiting`; assumed here
    #[verifier::external_body]
    fn update_coord(&mut self, coord: KCoord)
        ensures final(self).tap_hold_timeout == old(self).tap_hold_timeout,
            final(self).coord == (if coord.0 == 0 { coord } else { old(self).coord }),
    { unimplemented!() }
}
pub struct History { pub verif_pushed: Ghost<Seq<KeyCode>> }
impl History {
    #[verifier::external_body]
    fn push_front(&mut self, event: KeyCode)
        ensures final(self).verif_pushed@ == old(self).verif_pushed@.push(event),
    { unimplemented!() }
}
#[verifier::external_body]
pub struct OneShotCoords { pub verif_opaque: u8 }
pub struct OneShotState { pub verif_presses: Ghost<Seq<OneShotHandlePressKey>> }
impl OneShotState {
    /// proved in unit `oneshot`; here only the fact that it was told, and what
    #[verifier::external_body]
    fn handle_press(&mut self, key: OneShotHandlePressKey) -> (r: OneShotCoords)
        ensures final(self).verif_presses@ == old(self).verif_presses@.push(key),
    { unimplemented!() }
}
pub mod arraydeque {
    /// `let mut oneshot_coords = ArrayDeque::new();` in the KeyCode arm: only created and overwritten
    pub struct ArrayDeque;
    impl ArrayDeque {
        #[verifier::external_body]
        pub fn new() -> crate::OneShotCoords { unimplemented!() }
    }
}
use arraydeque::ArrayDeque;

// RELEASE BY NAME (`release-key` / `release-layer`, the ReleaseState arm of do_action applies this to
// every active state): a key state ends iff it holds exactly the named key code, a layer state iff it
// holds exactly the named layer - no other layer, no other key; every other state is kept unchanged
//@ item keyberon/src/action.rs enum ReleasableState
//@@ keep-vis
//@@ no-derives
//@ raw
impl Copy for ReleasableState {}
impl Clone for ReleasableState { fn clone(&self) -> Self { *self } }
spec fn named_by<'a, T>(st: State<'a, T>, s: ReleasableState) -> bool {
    match st {
        State::NormalKey { keycode, .. } => s == ReleasableState::KeyCode(keycode),
        State::FakeKey { keycode } => s == ReleasableState::KeyCode(keycode),
        State::LayerModifier { value, .. } => s == ReleasableState::Layer(value),
        _ => false,
    }
}
//@ item keyberon/src/layout.rs fn release_state in `State<'a, T>`
//@@ wrap impl<'a, T: 'a> State<'a, T>
//@@ ret r
//@@ spec
    ensures
        r == (if named_by(*self, s) { None } else { Some(*self) }),
//@ item keyberon/src/action.rs enum Action
//@@ no-derives
//@@ keep-vis
//@@ attr #[verifier::reject_recursive_types(T)]
//@@ keep-variants NoOp Trans KeyCode MultipleKeyCodes Layer DefaultLayer Custom
//@ item keyberon/src/layout.rs struct Layout
//@@ no-derives
//@@ keep-vis
//@@ attr #[verifier::reject_recursive_types(T)]
//@@ resub Rbound 1 /T: 'a \+ std::fmt::Debug,/ => `T: 'a,`
//@@ resub Rtype 1 /History<KeyCode>/ => `History`
//@@ keep-fields src_keys layers default_layer states oneshot last_press_tracker rpt_action historical_keys

//@ raw
/// the action a press at (x, y) performs: the first non-transparent entry along the given layer
/// order; if every layer is transparent there, the defsrc key of that column for a real key (row 0)
/// and nothing for the other rows
spec fn resolved<'a, const C: usize, const R: usize, T>(layers: Seq<[[Action<'a, T>; C]; R]>, src: [Action<'a, T>; C], x: int, y: int, order: Seq<u16>, i: int) -> Action<'a, T>
    decreases order.len() - i,
{
    if i < 0 || i >= order.len() { if x == 0 { src@[y] } else { Action::NoOp } }
    else if !(layers[order[i] as int]@[x]@[y] is Trans) { layers[order[i] as int]@[x]@[y] }
    else { resolved(layers, src, x, y, order, i + 1) }
}

//@ item keyberon/src/layout.rs fn resolve_coord in `Layout<'a, C, R, T>`
//@@ wrap impl<'a, const C: usize, const R: usize, T: 'a + Copy> Layout<'a, C, R, T>
//@@ sig R5 `layer_stack: &mut (impl Iterator<Item = u16> + Clone),` => `layer_stack: std::vec::Vec<u16>,`
//@@ sub Ruse 1 `use crate::action::Action::*;` => `use Action::*;`
//@@ resub R10 1 /for layer in layer_stack/ => `for layer in itl: layer_stack`
//@@ resub R24 * /Trans => continue,/ => `Trans => {}`
//@@ ret r
//@@ spec
    requires
        // the coordinate lies inside the layer table (the two asserts of the function say `<=`, which
        // would still let `== len` through to an out-of-bounds index) and the order names real layers
        (coord.0 as int) < R, (coord.1 as int) < C, self.layers@.len() > 0,
        forall|i: int| 0 <= i < layer_stack@.len() ==> (#[trigger] layer_stack@[i] as int) < self.layers@.len(),
    ensures
        *r == resolved(self.layers@, *self.src_keys, coord.0 as int, coord.1 as int, layer_stack@, 0),
//@@ loop 1
    invariant
        itl.seq() == layer_stack@, 0 <= itl.index@ <= layer_stack@.len(),
        x == coord.0 as int, y == coord.1 as int, x < R, y < C,
        forall|i: int| 0 <= i < layer_stack@.len() ==> (#[trigger] layer_stack@[i] as int) < self.layers@.len(),
        resolved(self.layers@, *self.src_keys, x as int, y as int, layer_stack@, 0) == resolved(self.layers@, *self.src_keys, x as int, y as int, layer_stack@, itl.index@ as int),

//@ item keyberon/src/layout.rs fn set_default_layer in `Layout<'a, C, R, T>`
//@@ wrap impl<'a, const C: usize, const R: usize, T: 'a + Copy> Layout<'a, C, R, T>
//@@ spec
    ensures
        // layer-switch to a layer that exists; anything else is ignored
        final(self).default_layer == (if value < old(self).layers@.len() { value } else { old(self).default_layer }),
        final(self).states@ == old(self).states@,
        final(self).oneshot == old(self).oneshot, final(self).historical_keys == old(self).historical_keys,
        final(self).last_press_tracker == old(self).last_press_tracker, final(self).rpt_action == old(self).rpt_action,
        final(self).layers == old(self).layers, final(self).src_keys == old(self).src_keys,

// ---------------------------------------------------------------------------------------
// WHAT A PRESS DOES: three arms of Layout::do_action (FRAGMENTS).  A plain key press records a
// key state AT THE PRESSED COORDINATE (so that State::release above finds it again whatever the
// layers are by then); layer-while-held records a layer state at the coordinate; layer-switch
// changes the base layer.  Each tells the one-shot logic about an ordinary press (C06) unless it
// runs as a one-shot's inner action.
// ---------------------------------------------------------------------------------------
//@ raw
impl<'a, const C: usize, const R: usize, T: 'a + Copy> Layout<'a, C, R, T> {
    /// Layout::current_layer (`.iter().rev().find_map(..)`): not under contract; some function of
    /// the state table and the base layer
    pub uninterp spec fn cur_layer_spec(&self) -> usize;
    #[verifier::external_body]
    fn current_layer(&self) -> (r: usize) ensures r == self.cur_layer_spec() { unimplemented!() }
}
spec fn pushed<'a, T>(st: Seq<State<'a, T>>, s: State<'a, T>) -> Seq<State<'a, T>> {
    if st.len() < 64 { st.push(s) } else { st }
}
spec fn told_other(log: Seq<OneShotHandlePressKey>, is_oneshot: bool, coord: KCoord) -> Seq<OneShotHandlePressKey> {
    if is_oneshot { log } else { log.push(OneShotHandlePressKey::Other(coord)) }
}

//@ fragment keyberon/src/layout.rs fn do_action in `Layout<'a, C, R, T>` block-after `&KeyCode(keycode) => {` until `if oneshot_coords.is_empty() {` as do_action_key_code_head
//@@ wrap impl<'a, const C: usize, const R: usize, T: 'a + Copy> Layout<'a, C, R, T>
//@@ header
fn do_action_key_code_head(&mut self, coord: KCoord, is_oneshot: bool, keycode: KeyCode)
//@@ spec
    ensures
        final(self).states@ == pushed(old(self).states@, State::NormalKey { keycode, coord, flags: NormalKeyFlags(0) }),
        final(self).historical_keys.verif_pushed@ == old(self).historical_keys.verif_pushed@.push(keycode),
        final(self).oneshot.verif_presses@ == told_other(old(self).oneshot.verif_presses@, is_oneshot, coord),
        final(self).default_layer == old(self).default_layer,

//@ fragment keyberon/src/layout.rs fn do_action in `Layout<'a, C, R, T>` block-after `&Layer(value) => {` as do_action_layer
//@@ wrap impl<'a, const C: usize, const R: usize, T: 'a + Copy> Layout<'a, C, R, T>
//@@ header
fn do_action_layer(&mut self, coord: KCoord, is_oneshot: bool, value: usize)
//@@ spec
    ensures
        // the layer is held for as long as the state made at this coordinate exists
        final(self).states@ == pushed(old(self).states@, State::LayerModifier { value, coord }),
        final(self).oneshot.verif_presses@ == told_other(old(self).oneshot.verif_presses@, is_oneshot, coord),
        final(self).default_layer == old(self).default_layer,
        final(self).rpt_action == old(self).rpt_action,

//@ fragment keyberon/src/layout.rs fn do_action in `Layout<'a, C, R, T>` block-after `DefaultLayer(value) => {` as do_action_default_layer
//@@ wrap impl<'a, const C: usize, const R: usize, T: 'a + Copy> Layout<'a, C, R, T>
//@@ header
fn do_action_default_layer(&mut self, coord: KCoord, is_oneshot: bool, value: &usize)
//@@ spec
    ensures
        final(self).default_layer == (if *value < old(self).layers@.len() { *value } else { old(self).default_layer }),
        final(self).states@ == old(self).states@,
        final(self).oneshot.verif_presses@ == told_other(old(self).oneshot.verif_presses@, is_oneshot, coord),

// Two more arms that count as "a key press" for the one-shot logic (C06): a key with no action
// (XX), except at the coordinate chords-v2 uses for its synthetic tap-hold trigger, and a custom
// action, which is also recorded as a state at the pressed coordinate and reported to the caller.
//@ item keyberon/src/chord.rs const TRIGGER_TAPHOLD_COORD
//@ fragment keyberon/src/layout.rs fn do_action in `Layout<'a, C, R, T>` block-after `NoOp => {` as do_action_noop
//@@ wrap impl<'a, const C: usize, const R: usize, T: 'a + Copy> Layout<'a, C, R, T>
//@@ header
fn do_action_noop(&mut self, action: &'a Action<'a, T>, coord: KCoord, is_oneshot: bool)
//@@ spec
    ensures
        final(self).oneshot.verif_presses@ == told_other(old(self).oneshot.verif_presses@, is_oneshot || coord == (0u8, 0u16), coord),
        final(self).rpt_action == Some(action),
        final(self).states@ == old(self).states@,
        final(self).default_layer == old(self).default_layer,

//@ fragment keyberon/src/layout.rs fn do_action in `Layout<'a, C, R, T>` block-after `Custom(value) => {` as do_action_custom
//@@ wrap impl<'a, const C: usize, const R: usize, T: 'a + Copy> Layout<'a, C, R, T>
//@@ header
fn do_action_custom(&mut self, action: &'a Action<'a, T>, coord: KCoord, is_oneshot: bool, value: &'a T) -> CustomEvent<'a, T>
//@@ tail
    CustomEvent::NoEvent
//@@ ret r
//@@ spec
    ensures
        final(self).oneshot.verif_presses@ == told_other(old(self).oneshot.verif_presses@, is_oneshot, coord),
        final(self).rpt_action == Some(action),
        // recorded at the pressed coordinate (so that the release finds it), and reported exactly
        // when it was recorded
        final(self).states@ == pushed(old(self).states@, State::Custom { value, coord }),
        r == (if old(self).states@.len() < 64 { CustomEvent::Press(value) } else { CustomEvent::NoEvent }),
        final(self).default_layer == old(self).default_layer,

// ---------------------------------------------------------------------------------------
// An output chord (e.g. S-1): the head of the MultipleKeyCodes arm of do_action (a FRAGMENT, until
// the repeat-buffer tail).  Every listed key is recorded as a key state AT THE PRESSED COORDINATE, in
// the listed order; outside a one-shot they carry the clear-on-next-action flag, so that the next
// action lifts the chord's modifiers (C04 mechanism "output chords flagged clear-on-next-action").
// ---------------------------------------------------------------------------------------
//@ item keyberon/src/layout.rs const NORMAL_KEY_FLAG_CLEAR_ON_NEXT_ACTION
//@@ keep-vis
//@ raw
/// R34: `for &keycode in *v` (a reference pattern) -> iteration over a copy of the slice (ASSUMED: same
/// elements, same order)
#[verifier::external_body]
fn verif_copied<T: Copy>(v: &[T]) -> (r: std::vec::Vec<T>)
    ensures r@ == v@,
{ unimplemented!() }
spec fn chord_states<'a, T>(st: Seq<State<'a, T>>, ks: Seq<KeyCode>, n: int, coord: KCoord, flags: u8) -> Seq<State<'a, T>>
    decreases n,
{
    if n <= 0 { st } else { pushed(chord_states(st, ks, n - 1, coord, flags), State::NormalKey { keycode: ks[n - 1], coord, flags: NormalKeyFlags(flags) }) }
}

//@ fragment keyberon/src/layout.rs fn do_action in `Layout<'a, C, R, T>` block-after `&MultipleKeyCodes(v) => {` until `if oneshot_coords.is_empty() {` as do_action_multiple_key_codes_head
//@@ wrap impl<'a, const C: usize, const R: usize, T: 'a + Copy> Layout<'a, C, R, T>
//@@ header
fn do_action_multiple_key_codes_head(&mut self, coord: KCoord, is_oneshot: bool, v: &'a &'a [KeyCode])
//@@ resub R34 1 /for &keycode in \*v/ => `for keycode in itk: verif_copied(*v)`
//@@ spec
    ensures
        final(self).states@ == chord_states(old(self).states@, v@, v@.len() as int, coord, if is_oneshot { 0u8 } else { NORMAL_KEY_FLAG_CLEAR_ON_NEXT_ACTION }),
        final(self).historical_keys.verif_pushed@ == old(self).historical_keys.verif_pushed@ + v@,
        final(self).oneshot.verif_presses@ == told_other(old(self).oneshot.verif_presses@, is_oneshot, coord),
        final(self).default_layer == old(self).default_layer,
//@@ loop 1
    invariant
        itk.seq() == v@, 0 <= itk.index@ <= v@.len(),
        self.states@ == chord_states(old(self).states@, v@, itk.index@ as int, coord, if is_oneshot { 0u8 } else { NORMAL_KEY_FLAG_CLEAR_ON_NEXT_ACTION }),
        self.historical_keys.verif_pushed@ == old(self).historical_keys.verif_pushed@ + v@.subrange(0, itk.index@ as int),
        self.oneshot == old(self).oneshot, self.default_layer == old(self).default_layer,
//@@ after-re 1 /self\.historical_keys\.push_front\(keycode\);/
    proof {
        let i = itk.index@ as int;
        assert(v@.subrange(0, i + 1) =~= v@.subrange(0, i).push(keycode));
        assert(old(self).historical_keys.verif_pushed@ + v@.subrange(0, i + 1) =~= (old(self).historical_keys.verif_pushed@ + v@.subrange(0, i)).push(keycode));
    }
//@@ before 1 `let mut oneshot_coords = ArrayDeque::new();`
    proof { assert(v@.subrange(0, v@.len() as int) =~= v@); }

// ---------------------------------------------------------------------------------------
// .. and the lifting of such a chord: the first statement of do_action proper (a FRAGMENT, stmt-at):
// every key state flagged clear-on-next-action is dropped before the next action is performed;
// nothing else is.
// ---------------------------------------------------------------------------------------
//@ item keyberon/src/layout.rs fn nkf_clear_on_next_action in `NormalKeyFlags`
//@@ wrap impl NormalKeyFlags
//@@ pre
    pub open spec fn nkf_spec(self) -> bool { self.0 & NORMAL_KEY_FLAG_CLEAR_ON_NEXT_ACTION == NORMAL_KEY_FLAG_CLEAR_ON_NEXT_ACTION }
//@@ attr #[verifier::when_used_as_spec(nkf_spec)]
//@@ ret r
//@@ spec
    ensures r == self.nkf_spec(),
//@ raw
spec fn lifted<'a, T>(s: State<'a, T>) -> bool { s matches State::NormalKey { flags, .. } && flags.nkf_spec() }
proof fn lemma_pick_lifted<'a, T>(st: Seq<State<'a, T>>, d: Seq<bool>)
    requires d.len() == st.len(), forall|i: int| 0 <= i < st.len() ==> d[i] == !lifted(#[trigger] st[i]),
    ensures heapless::pick(st, d) == st.filter(|s: State<'a, T>| !lifted(s)),
    decreases st.len(),
{
    reveal(Seq::filter);
    if st.len() > 0 { lemma_pick_lifted(st.drop_last(), d.drop_last()); }
}

//@ fragment keyberon/src/layout.rs fn do_action in `Layout<'a, C, R, T>` stmt-at `self.states.retain(|s| match s {` as do_action_lift_chords
//@@ wrap impl<'a, const C: usize, const R: usize, T: 'a + Copy> Layout<'a, C, R, T>
//@@ header
fn do_action_lift_chords(&mut self)
//@@ resub R12 1 /self\.states\.retain\(\|s\| (match s \{.*?\n\s*\})\);/ => `self.states.retain(|s: &State<'a, T>| -> (b: bool) ensures b == (\1) { \1 });`
//@@ spec
    ensures
        final(self).states@ == old(self).states@.filter(|s: State<'a, T>| !lifted(s)),
        final(self).default_layer == old(self).default_layer, final(self).oneshot == old(self).oneshot,
//@@ after-re 1 /self\.states\.retain\([^;]*\);/
    proof {
        let st0 = old(self).states@;
        let d = choose|d: Seq<bool>| #![trigger d.len()] d.len() == st0.len()
            && (forall|j: int| #![trigger d[j]] 0 <= j < d.len() ==> d[j] == !lifted(st0[j]))
            && self.states@ == heapless::pick(st0, d);
        lemma_pick_lifted(st0, d);
    }
