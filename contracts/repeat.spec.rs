//@ unit repeat
// Side-car contracts for Kanata::handle_repeat_actual (src/kanata/key_repeat.rs), property C14:
// "An OS auto-repeat event for a held physical key makes kanata emit at most one repeat, and only
//  for a key it currently has pressed at the OS output ... a repeat is emitted for one of those output
//  keys, preferring the last-listed key of a chord over its modifiers."
// The whole function is cut; Kanata is sliced (R7) to the nine fields it touches; everything it
// calls is a stub with an assumed contract (listed below); OsCode / KeyCode are opaque here (their
// identity is property C11).

//@ raw
// ---- opaque / stub environment ------------------------------------------------------------
#[derive(Clone, Copy, PartialEq, Eq, Structural)]
pub struct OsCode { pub verif_code: u16 }
#[derive(Clone, Copy, PartialEq, Eq, Structural)]
pub struct KeyCode { pub verif_code: u16 }
/// the OsCode -> KeyCode conversion (a transmute in the repository, proved value-preserving in C11)
pub open spec fn kc_of(o: OsCode) -> KeyCode { KeyCode { verif_code: o.verif_code } }
impl vstd::std_specs::convert::FromSpecImpl<OsCode> for KeyCode {
    open spec fn obeys_from_spec() -> bool { true }
    open spec fn from_spec(o: OsCode) -> Self { kc_of(o) }
}
impl From<OsCode> for KeyCode {
    #[verifier::external_body]
    fn from(o: OsCode) -> (r: KeyCode) ensures r == kc_of(o) { unimplemented!() }
}
#[verifier::external_body]
pub struct VerifError { verif_opaque: u8 }
#[verifier::external_body]
pub struct VerifIoError { verif_opaque: u8 }
type Result<T> = core::result::Result<T, VerifError>;
// R13: bail!("..") -> return Err(verif_bail());
#[verifier::external_body]
fn verif_bail() -> VerifError { unimplemented!() }

// slices of structural-equality types: `contains` is membership (ASSUMED std contract)
pub assume_specification<T: PartialEq> [<[T]>::contains] (s: &[T], x: &T) -> (r: bool)
    ensures r == s@.contains(*x);

// R3: FxHashMap -> this type, ASSUMED contract of a lookup
#[verifier::external_body]
#[verifier::reject_recursive_types(K)]
#[verifier::reject_recursive_types(V)]
pub struct HashMap<K, V> { v: Vec<(K, V)> }
impl<K, V> HashMap<K, V> {
    pub uninterp spec fn view(&self) -> Map<K, V>;
    #[verifier::external_body]
    pub fn get(&self, k: &K) -> (r: Option<&V>)
        ensures
            self.view().contains_key(*k) ==> r == Some(&self.view()[*k]),
            !self.view().contains_key(*k) ==> r.is_none(),
    { unimplemented!() }
}
/// R17: `v.iter().rev().copied()` / `v.iter().copied()` -> the items back to front / front to back
#[verifier::external_body]
fn verif_items_rev<T: Copy>(items: &Vec<T>) -> (r: Vec<T>)
    ensures r@ == items@.reverse(),
{ unimplemented!() }
#[verifier::external_body]
fn verif_items_fwd<T: Copy>(items: &Vec<T>) -> (r: Vec<T>)
    ensures r@ == items@,
{ unimplemented!() }

//@ item parser/src/custom_action.rs enum SequenceInputMode
//@@ keep-vis
//@ item src/oskbd/mod.rs enum KeyValue
//@@ keep-vis
//@ item src/oskbd/mod.rs struct KeyEvent
//@@ keep-vis
//@@ no-derives
//@ item parser/src/cfg/key_outputs.rs type KeyOutputs

//@ raw
/// the sequence-mode state: only "is one active, and in which input mode" is read
pub struct SequenceState { pub sequence_input_mode: SequenceInputMode, pub verif_active: bool }
impl SequenceState {
    /// R18: `get_active(&mut self) -> Option<&mut Self>` is only read here -> shared reference
    #[verifier::external_body]
    fn verif_get_active(&self) -> (r: Option<&SequenceState>)
        ensures r == (if self.verif_active { Some(self) } else { None }),
    { unimplemented!() }
}
/// the keyberon layout behind `self.layout.bm()`: the three things read from it
pub struct BLayout { pub default_layer: usize, pub verif_opaque: u8 }
#[verifier::external_body]
pub struct KeycodesIter { verif_opaque: u8 }
impl KeycodesIter { pub uninterp spec fn items(&self) -> Seq<KeyCode>; }
impl BLayout {
    pub uninterp spec fn down(&self) -> Seq<KeyCode>;
    pub uninterp spec fn order(&self) -> Seq<u16>;
    /// the key codes kanata currently holds down (iterator over the layout's states)
    #[verifier::external_body]
    fn keycodes(&self) -> (r: KeycodesIter)
        ensures r.items() == self.down(),
    { unimplemented!() }
    /// held layers, most recently activated first (what transparent keys resolve through)
    #[verifier::external_body]
    fn trans_resolution_layer_order(&self) -> (r: Vec<u16>)
        ensures r@ == self.order(),
    { unimplemented!() }
}
pub struct KanataLayout { pub verif_inner: BLayout }
impl KanataLayout {
    /// R18: `bm(&mut self) -> &mut Layout` is only read here -> shared reference
    fn verif_b(&self) -> (r: &BLayout) ensures *r == self.verif_inner { &self.verif_inner }
}
/// R19: `self.cur_keys.extend(it)` -> helper; ASSUMED: cur_keys (empty between ticks) becomes the
/// keys the layout holds down
#[verifier::external_body]
fn verif_extend(v: &mut Vec<KeyCode>, it: KeycodesIter)
    ensures final(v)@ == old(v)@ + it.items(),
{ unimplemented!() }
#[verifier::external_body]
pub struct Overrides { verif_opaque: u8 }
#[verifier::external_body]
pub struct OverrideStates { verif_opaque: u8 }
impl Overrides {
    /// global overrides rewrite the list of keys about to be held (property C13, not decided here):
    /// SOME function of the table and the list - which one is not said, only that it is applied
    pub uninterp spec fn ov_spec(&self, keys: Seq<KeyCode>) -> Seq<KeyCode>;
    #[verifier::external_body]
    fn override_keys(&self, keys: &mut Vec<KeyCode>, states: &mut OverrideStates)
        ensures final(keys)@ == self.ov_spec(old(keys)@),
    { unimplemented!() }
}
/// the OS output: a ghost log of what was written
pub struct KbdOut { pub verif_log: Ghost<Seq<(OsCode, KeyValue)>> }
#[verifier::external_body]
fn write_key(kb: &mut KbdOut, osc: OsCode, value: KeyValue) -> (r: core::result::Result<(), VerifIoError>)
    ensures final(kb).verif_log@ == old(kb).verif_log@.push((osc, value)),
{ unimplemented!() }

//@ item src/kanata/mod.rs struct Kanata
//@@ keep-vis
//@@ no-derives
//@@ keep-fields kbd_out key_outputs layout cur_keys sequence_state overrides override_states unmodded_keys unshifted_keys
//@@ resub Rpath 1 /cfg::KeyOutputs/ => `KeyOutputs`
//@@ resub Rpath 1 /cfg::KanataLayout/ => `KanataLayout`

//@ raw
/// "kanata currently has it pressed at the OS output": in the (override-adjusted) list of keys being
/// held, or held through unshift / unmod
spec fn active(k: KeyCode, cur: Seq<KeyCode>, unsh: Seq<KeyCode>, unmod: Seq<KeyCode>) -> bool {
    cur.contains(k) || unsh.contains(k) || unmod.contains(k)
}
/// of the keys a position may output, the LAST-listed one that is active (a chord lists its
/// modifiers first): search from index n-1 down
spec fn last_active(outs: Seq<OsCode>, n: int, cur: Seq<KeyCode>, unsh: Seq<KeyCode>, unmod: Seq<KeyCode>) -> Option<OsCode>
    decreases n,
{
    if n <= 0 { None }
    else if active(kc_of(outs[n - 1]), cur, unsh, unmod) { Some(outs[n - 1]) }
    else { last_active(outs, n - 1, cur, unsh, unmod) }
}
spec fn layer_pick(ko: Seq<HashMap<OsCode, Vec<OsCode>>>, layer: int, code: OsCode, cur: Seq<KeyCode>, unsh: Seq<KeyCode>, unmod: Seq<KeyCode>) -> Option<OsCode> {
    if ko[layer]@.contains_key(code) { last_active(ko[layer]@[code]@, ko[layer]@[code]@.len() as int, cur, unsh, unmod) } else { None }
}
/// held layers from the i-th on, newest first: the first one that yields an active output
spec fn held_pick(order: Seq<u16>, i: int, ko: Seq<HashMap<OsCode, Vec<OsCode>>>, code: OsCode, cur: Seq<KeyCode>, unsh: Seq<KeyCode>, unmod: Seq<KeyCode>) -> Option<OsCode>
    decreases order.len() - i,
{
    if i < 0 || i >= order.len() { None }
    else if layer_pick(ko, order[i] as int, code, cur, unsh, unmod) is Some { layer_pick(ko, order[i] as int, code, cur, unsh, unmod) }
    else { held_pick(order, i + 1, ko, code, cur, unsh, unmod) }
}
/// THE key a repeat is forwarded for: held layers newest first, then the base layer, then the
/// physical key itself (defsrc / transparent fall-through); None = nothing is repeated
spec fn repeat_pick(order: Seq<u16>, default_layer: int, ko: Seq<HashMap<OsCode, Vec<OsCode>>>, code: OsCode, cur: Seq<KeyCode>, unsh: Seq<KeyCode>, unmod: Seq<KeyCode>) -> Option<OsCode> {
    if held_pick(order, 0, ko, code, cur, unsh, unmod) is Some { held_pick(order, 0, ko, code, cur, unsh, unmod) }
    else if layer_pick(ko, default_layer, code, cur, unsh, unmod) is Some { layer_pick(ko, default_layer, code, cur, unsh, unmod) }
    else if active(kc_of(code), cur, unsh, unmod) { Some(code) }
    else { None }
}
proof fn lemma_last_active_is_active(outs: Seq<OsCode>, n: int, cur: Seq<KeyCode>, unsh: Seq<KeyCode>, unmod: Seq<KeyCode>)
    requires 0 <= n <= outs.len(),
    ensures last_active(outs, n, cur, unsh, unmod) matches Some(o) ==> active(kc_of(o), cur, unsh, unmod) && outs.contains(o),
    decreases n,
{
    if n > 0 && !active(kc_of(outs[n - 1]), cur, unsh, unmod) { lemma_last_active_is_active(outs, n - 1, cur, unsh, unmod); }
}

//@ raw
/// held layers k .. i-1 yield nothing: the search from k continues at i
proof fn lemma_held_skip(order: Seq<u16>, k: int, i: int, ko: Seq<HashMap<OsCode, Vec<OsCode>>>, code: OsCode, cur: Seq<KeyCode>, unsh: Seq<KeyCode>, unmod: Seq<KeyCode>)
    requires 0 <= k <= i <= order.len(),
        forall|j: int| k <= j < i ==> layer_pick(ko, #[trigger] order[j] as int, code, cur, unsh, unmod) is None,
    ensures held_pick(order, k, ko, code, cur, unsh, unmod) == held_pick(order, i, ko, code, cur, unsh, unmod),
    decreases i - k,
{
    if k < i {
        assert(layer_pick(ko, order[k] as int, code, cur, unsh, unmod) is None);
        lemma_held_skip(order, k + 1, i, ko, code, cur, unsh, unmod);
    }
}

//@ item src/kanata/key_repeat.rs fn handle_repeat_actual in `Kanata`
//@@ wrap impl Kanata
//@@ macro-stmt R13 bail => `return Err(verif_bail());`
//@@ resub R18 1 /self\.sequence_state\.get_active\(\)/ => `self.sequence_state.verif_get_active()`
//@@ resub R18 + /self\.layout\.bm\(\)/ => `self.layout.verif_b()`
//@@ resub R19 1 /self\.cur_keys\.extend\(([^;]*)\);/ => `verif_extend(&mut self.cur_keys, \1);`
//@@ resub R17 2 /for osc in outputs_for_key\.iter\(\)(?:\.(rev)\(\))?\.copied\(\)/ => `for osc in ito: verif_items_\1(outputs_for_key)` default `fwd`
//@@ resub R10 1 /for layer in active_held_layers/ => `for layer in itl: active_held_layers`
//@@ ret r
//@@ spec
    requires
        // ASSUMED (established by the parser / Layout construction, not under contract): every layer
        // number the layout reports has a key-output table
        forall|i: int| 0 <= i < old(self).layout.verif_inner.order().len() ==> (#[trigger] old(self).layout.verif_inner.order()[i] as int) < old(self).key_outputs@.len(),
        old(self).layout.verif_inner.default_layer < old(self).key_outputs@.len(),
    ensures
        // frame: the tables and what is held through unshift / unmod are only read
        final(self).key_outputs@ == old(self).key_outputs@,
        final(self).unshifted_keys@ == old(self).unshifted_keys@,
        final(self).unmodded_keys@ == old(self).unmodded_keys@,
        // hidden sequence modes: nothing is forwarded
        old(self).sequence_state.verif_active && old(self).sequence_state.sequence_input_mode != SequenceInputMode::VisibleBackspaced ==>
            final(self).kbd_out.verif_log@ == old(self).kbd_out.verif_log@ && r is Ok,
        // "currently pressed" is judged on the keys the layout holds down, adjusted by the overrides
        !(old(self).sequence_state.verif_active && old(self).sequence_state.sequence_input_mode != SequenceInputMode::VisibleBackspaced) ==>
            final(self).cur_keys@ == old(self).overrides.ov_spec(old(self).cur_keys@ + old(self).layout.verif_inner.down()),
        // otherwise AT MOST ONE event is written, it is a Repeat, and it is for exactly the key
        // repeat_pick names - which is active (currently pressed at the OS output)
        !(old(self).sequence_state.verif_active && old(self).sequence_state.sequence_input_mode != SequenceInputMode::VisibleBackspaced) ==> {
            let p = repeat_pick(old(self).layout.verif_inner.order(), old(self).layout.verif_inner.default_layer as int, old(self).key_outputs@,
                                event.code, final(self).cur_keys@, old(self).unshifted_keys@, old(self).unmodded_keys@);
            &&& p is None ==> final(self).kbd_out.verif_log@ == old(self).kbd_out.verif_log@ && r is Ok
            &&& p matches Some(o) ==> final(self).kbd_out.verif_log@ == old(self).kbd_out.verif_log@.push((o, KeyValue::Repeat))
                    && active(kc_of(o), final(self).cur_keys@, old(self).unshifted_keys@, old(self).unmodded_keys@)
        },
//@@ before-re 1 /let active_held_layers/
    let ghost cur = self.cur_keys@;
    let ghost ko = self.key_outputs@;
    let ghost unsh = self.unshifted_keys@;
    let ghost unmod = self.unmodded_keys@;
    let ghost log0 = self.kbd_out.verif_log@;
    let ghost order = self.layout.verif_inner.order();
    let ghost code = event.code;
//@@ loop 1
        invariant
            itl.seq() == order, 0 <= itl.index@ <= order.len(),
            self.cur_keys@ == cur, self.key_outputs@ == ko, self.unshifted_keys@ == unsh, self.unmodded_keys@ == unmod,
            self.kbd_out.verif_log@ == log0, self.layout == old(self).layout, code == event.code,
            ko == old(self).key_outputs@, unsh == old(self).unshifted_keys@, unmod == old(self).unmodded_keys@, log0 == old(self).kbd_out.verif_log@,
            cur == old(self).overrides.ov_spec(old(self).cur_keys@ + old(self).layout.verif_inner.down()),
            order == old(self).layout.verif_inner.order(),
            !(old(self).sequence_state.verif_active && old(self).sequence_state.sequence_input_mode != SequenceInputMode::VisibleBackspaced),
            forall|i: int| 0 <= i < order.len() ==> (#[trigger] order[i] as int) < ko.len(),
            forall|j: int| 0 <= j < itl.index@ ==> layer_pick(ko, #[trigger] order[j] as int, code, cur, unsh, unmod) is None,
//@@ before-re 1 /for osc in ito: verif_items_\w+\(outputs_for_key\)/
    let ghost outs = outputs_for_key@;
    proof { assert(ko[layer as int]@.contains_key(code) && ko[layer as int]@[code]@ == outs); }
//@@ loop 2
                invariant
                    ito.seq() == outs.reverse(), 0 <= ito.index@ <= outs.len(),
                    self.cur_keys@ == cur, self.key_outputs@ == ko, self.unshifted_keys@ == unsh, self.unmodded_keys@ == unmod,
                    self.kbd_out.verif_log@ == log0, self.layout == old(self).layout, code == event.code,
                    ko == old(self).key_outputs@, unsh == old(self).unshifted_keys@, unmod == old(self).unmodded_keys@, log0 == old(self).kbd_out.verif_log@,
                    cur == old(self).overrides.ov_spec(old(self).cur_keys@ + old(self).layout.verif_inner.down()),
                    order == old(self).layout.verif_inner.order(),
                    !(old(self).sequence_state.verif_active && old(self).sequence_state.sequence_input_mode != SequenceInputMode::VisibleBackspaced),
                    0 <= itl.index@ < order.len(), order[itl.index@ as int] == layer, (layer as int) < ko.len(),
                    ko[layer as int]@.contains_key(code) && ko[layer as int]@[code]@ == outs,
                    forall|j: int| 0 <= j < itl.index@ ==> layer_pick(ko, #[trigger] order[j] as int, code, cur, unsh, unmod) is None,
                    last_active(outs, outs.len() as int, cur, unsh, unmod) == last_active(outs, outs.len() - ito.index@, cur, unsh, unmod),
//@@ before-re 1 /if let Err\(e\) = write_key\(&mut self\.kbd_out, osc, [^)]*\)/
    proof {
        let n = outs.len() as int;
        let i = ito.index@ as int;
        assert(osc == outs[n - 1 - i]);
        assert(last_active(outs, n - i, cur, unsh, unmod) == Some(osc));
        lemma_last_active_is_active(outs, n, cur, unsh, unmod);
        assert(layer_pick(ko, layer as int, code, cur, unsh, unmod) == Some(osc));
        lemma_held_skip(order, 0, itl.index@ as int, ko, code, cur, unsh, unmod);
    }
//@@ after 1 `let kc = osc.into();`
    proof { assert(osc == outs[outs.len() - 1 - ito.index@]); }
//@@ before 1 `if held_layer_active {`
    proof {
        lemma_held_skip(order, 0, order.len() as int, ko, code, cur, unsh, unmod);
        assert(held_pick(order, 0, ko, code, cur, unsh, unmod) is None);
    }
    let ghost dl = self.layout.verif_inner.default_layer as int;
//@@ before-re 2 /for osc in ito: verif_items_\w+\(outputs_for_key\)/
    let ghost outs = outputs_for_key@;
    proof { assert(ko[dl]@.contains_key(code) && ko[dl]@[code]@ == outs); }
//@@ loop 3
            invariant
                ito.seq() == outs.reverse(), 0 <= ito.index@ <= outs.len(),
                self.cur_keys@ == cur, self.key_outputs@ == ko, self.unshifted_keys@ == unsh, self.unmodded_keys@ == unmod,
                self.kbd_out.verif_log@ == log0, self.layout == old(self).layout, code == event.code,
                ko == old(self).key_outputs@, unsh == old(self).unshifted_keys@, unmod == old(self).unmodded_keys@, log0 == old(self).kbd_out.verif_log@,
                cur == old(self).overrides.ov_spec(old(self).cur_keys@ + old(self).layout.verif_inner.down()),
                order == old(self).layout.verif_inner.order(), dl == old(self).layout.verif_inner.default_layer as int,
                !(old(self).sequence_state.verif_active && old(self).sequence_state.sequence_input_mode != SequenceInputMode::VisibleBackspaced),
                0 <= dl < ko.len(), ko[dl]@.contains_key(code) && ko[dl]@[code]@ == outs,
                held_pick(order, 0, ko, code, cur, unsh, unmod) is None,
                last_active(outs, outs.len() as int, cur, unsh, unmod) == last_active(outs, outs.len() - ito.index@, cur, unsh, unmod),
//@@ before-re 2 /if let Err\(e\) = write_key\(&mut self\.kbd_out, osc, [^)]*\)/
    proof {
        let n = outs.len() as int;
        let i = ito.index@ as int;
        assert(osc == outs[n - 1 - i]);
        assert(last_active(outs, n - i, cur, unsh, unmod) == Some(osc));
        lemma_last_active_is_active(outs, n, cur, unsh, unmod);
        assert(layer_pick(ko, dl, code, cur, unsh, unmod) == Some(osc));
    }
//@@ after 2 `let kc = osc.into();`
    proof { assert(osc == outs[outs.len() - 1 - ito.index@]); }
//@@ before 1 `let kc = event.code.into();`
    proof {
        assert(layer_pick(ko, dl, code, cur, unsh, unmod) is None);
    }

// the wrapper Kanata::handle_repeat, cut whole: handle_repeat_actual (under contract above - the
// caller is checked against that contract), then the scratch list of held keys is emptied again, as
// handle_time_ticks expects it between ticks
//@ item src/kanata/key_repeat.rs fn handle_repeat in `Kanata`
//@@ wrap impl Kanata
//@@ ret r
//@@ spec
    requires
        forall|i: int| 0 <= i < old(self).layout.verif_inner.order().len() ==> (#[trigger] old(self).layout.verif_inner.order()[i] as int) < old(self).key_outputs@.len(),
        old(self).layout.verif_inner.default_layer < old(self).key_outputs@.len(),
    ensures
        final(self).cur_keys@.len() == 0,
        final(self).key_outputs@ == old(self).key_outputs@,
        // at most one event is written, and only a Repeat
        final(self).kbd_out.verif_log@ == old(self).kbd_out.verif_log@
            || exists|o: OsCode| final(self).kbd_out.verif_log@ == old(self).kbd_out.verif_log@.push((o, KeyValue::Repeat)),
