//@ unit keys
// Side-car contracts for the key-code spaces (property C11).
//@ enumvals parser/src/keys/mod.rs OsCode oscode_vals
//@ enumvals keyberon/src/key_code.rs KeyCode keycode_vals

//@ strtable parser/src/keys/mod.rs str_to_oscode parser/src/keys/mod.rs OsCode nop[0-9] nop_codes

//@ raw
// the reserved no-op key NAMES (nop0..nop9, read from the match arms of str_to_oscode on this run)
// denote exactly the ten codes of the range the output filter never sends to the OS
spec fn all_in_range(s: Seq<int>, i: int, lo: int, hi: int) -> bool
    decreases s.len() - i,
{
    if i < 0 || i >= s.len() { true } else { lo <= s[i] <= hi && all_in_range(s, i + 1, lo, hi) }
}
proof fn e2_nop_names_denote_the_ignored_range()
    ensures nop_codes().len() == 10, all_in_range(nop_codes(), 0, 0x2a4, 0x2ad),
{
    assert(nop_codes().len() == 10 && all_in_range(nop_codes(), 0, 0x2a4, 0x2ad)) by(compute_only);
}

//@ raw
// E1: the two discriminant lists, read from the two enum bodies on this run, are the same
// list, and that list is exactly 0, 1, 2, ..., 767 (so: no gaps, no duplicates, same order).
spec fn is_iota(s: Seq<int>, i: int) -> bool
    decreases s.len() - i,
{
    if i < 0 || i >= s.len() { true } else { s[i] == i && is_iota(s, i + 1) }
}
proof fn e1_oscode_discriminants_are_0_to_767()
    ensures oscode_vals().len() == 768, is_iota(oscode_vals(), 0),
{
    assert(oscode_vals().len() == 768 && is_iota(oscode_vals(), 0)) by(compute_only);
}
proof fn e1_keycode_discriminants_are_0_to_767()
    ensures keycode_vals().len() == 768, is_iota(keycode_vals(), 0),
{
    assert(keycode_vals().len() == 768 && is_iota(keycode_vals(), 0)) by(compute_only);
}
proof fn lemma_iota(s: Seq<int>, i: int, j: int)
    requires is_iota(s, i), 0 <= i <= j < s.len(),
    ensures s[j] == j,
    decreases j - i,
{
    if i < j { lemma_iota(s, i + 1, j); }
}
proof fn e1_code_spaces_coincide()
    ensures oscode_vals() =~= keycode_vals(),
{
    e1_oscode_discriminants_are_0_to_767();
    e1_keycode_discriminants_are_0_to_767();
    assert forall|j: int| 0 <= j < 768 implies oscode_vals()[j] == keycode_vals()[j] by {
        lemma_iota(oscode_vals(), 0, j);
        lemma_iota(keycode_vals(), 0, j);
    }
}

// ---------------------------------------------------------------------------------------
// V-K4: the output filter (src/kanata/output_logic.rs).  KbdOut is the OS device; it is
// replaced by a ghost emission log with ASSUMED method contracts (each call appends one entry).
// post_filter_press / post_filter_release (zippychord entry or plain press/release) are
// assumed callees that append PostPress / PostRelease.
// ---------------------------------------------------------------------------------------
//@ item parser/src/keys/mod.rs enum OsCode
//@@ keep-vis
//@ item parser/src/custom_action.rs enum Btn
//@@ keep-vis
//@ item parser/src/custom_action.rs enum MWheelDirection
//@@ keep-vis
//@ item src/oskbd/mod.rs enum KeyValue
//@@ keep-vis
//@ item src/oskbd/mod.rs const HI_RES_SCROLL_UNITS_IN_LO_RES

//@ raw
impl vstd::std_specs::convert::FromSpecImpl<OsCode> for u16 {
    open spec fn obeys_from_spec() -> bool { true }
    open spec fn from_spec(item: OsCode) -> Self { item as u16 }
}
//@ item parser/src/keys/linux.rs fn as_u16_linux in `OsCode`
//@@ wrap impl OsCode
//@@ sig Rconst `const fn` => `fn`
//@@ ret r
//@@ spec
    ensures r == self as u16,
//@ item parser/src/keys/mod.rs fn as_u16 in `OsCode`
//@@ wrap impl OsCode
//@@ ret r
//@@ spec
    ensures r == self as u16,
//@ item parser/src/keys/mod.rs fn from in `From<OsCode> for u16`
//@@ wrap impl From<OsCode> for u16

//@ raw
#[verifier::external_type_specification]
#[verifier::external_body]
pub struct ExIoError(std::io::Error);
// only used to format panic messages of unreachable!()
#[verifier::external]
impl std::fmt::Display for OsCode {
    fn fmt(&self, f: &mut std::fmt::Formatter) -> std::fmt::Result { Ok(()) }
}

pub enum Out {
    Key(OsCode, KeyValue),
    Click(Btn),
    Unclick(Btn),
    Scroll(MWheelDirection, u16),
    PostPress(OsCode),
    PostRelease(OsCode),
}
pub struct KbdOut { pub log: Ghost<Seq<Out>> }
impl KbdOut {
    #[verifier::external_body]
    fn write_key(&mut self, key: OsCode, value: KeyValue) -> (r: Result<(), std::io::Error>)
        ensures final(self).log@ == old(self).log@.push(Out::Key(key, value)),
    { unimplemented!() }
    #[verifier::external_body]
    fn click_btn(&mut self, btn: Btn) -> (r: Result<(), std::io::Error>)
        ensures final(self).log@ == old(self).log@.push(Out::Click(btn)),
    { unimplemented!() }
    #[verifier::external_body]
    fn release_btn(&mut self, btn: Btn) -> (r: Result<(), std::io::Error>)
        ensures final(self).log@ == old(self).log@.push(Out::Unclick(btn)),
    { unimplemented!() }
    #[verifier::external_body]
    fn scroll(&mut self, direction: MWheelDirection, distance: u16) -> (r: Result<(), std::io::Error>)
        ensures final(self).log@ == old(self).log@.push(Out::Scroll(direction, distance)),
    { unimplemented!() }
}
#[verifier::external_body]
fn post_filter_press(kb: &mut KbdOut, osc: OsCode) -> (r: Result<(), std::io::Error>)
    ensures final(kb).log@ == old(kb).log@.push(Out::PostPress(osc)),
{ unimplemented!() }
#[verifier::external_body]
fn post_filter_release(kb: &mut KbdOut, osc: OsCode) -> (r: Result<(), std::io::Error>)
    ensures final(kb).log@ == old(kb).log@.push(Out::PostRelease(osc)),
{ unimplemented!() }

spec fn ignored(osc: OsCode) -> bool { 0x2a4 <= (osc as u16) <= 0x2ad }
spec fn is_mouse_btn(osc: OsCode) -> bool {
    osc == OsCode::BTN_LEFT || osc == OsCode::BTN_RIGHT || osc == OsCode::BTN_MIDDLE || osc == OsCode::BTN_SIDE || osc == OsCode::BTN_EXTRA
}
spec fn is_wheel(osc: OsCode) -> bool {
    osc == OsCode::MouseWheelUp || osc == OsCode::MouseWheelDown || osc == OsCode::MouseWheelLeft || osc == OsCode::MouseWheelRight
}
/// documented button names: mlft mrgt mmid mfwd (extra/forward) mbck (side/backward)
spec fn btn_of(osc: OsCode) -> Btn {
    if osc == OsCode::BTN_LEFT { Btn::Left } else if osc == OsCode::BTN_RIGHT { Btn::Right }
    else if osc == OsCode::BTN_MIDDLE { Btn::Mid } else if osc == OsCode::BTN_EXTRA { Btn::Forward } else { Btn::Backward }
}
spec fn wheel_of(osc: OsCode) -> MWheelDirection {
    if osc == OsCode::MouseWheelUp { MWheelDirection::Up } else if osc == OsCode::MouseWheelDown { MWheelDirection::Down }
    else if osc == OsCode::MouseWheelLeft { MWheelDirection::Left } else { MWheelDirection::Right }
}

//@ item src/kanata/output_logic.rs const KEY_IGNORE_MIN
//@ item src/kanata/output_logic.rs const KEY_IGNORE_MAX
//@ item src/kanata/output_logic.rs fn osc_to_btn
//@@ ret r
//@@ spec
    requires is_mouse_btn(osc),
    ensures r == btn_of(osc),
//@ item src/kanata/output_logic.rs fn osc_to_wheel_direction
//@@ ret r
//@@ spec
    requires is_wheel(osc),
    ensures r == wheel_of(osc),
//@ raw
// mouse button names: the conversion used when a mouse-button ACTION is emitted must be the
// inverse of the one used by the output filter, so that a button name denotes the same code
// wherever it is written.
impl vstd::std_specs::convert::FromSpecImpl<Btn> for OsCode {
    open spec fn obeys_from_spec() -> bool { true }
    open spec fn from_spec(btn: Btn) -> Self {
        match btn {
            Btn::Left => OsCode::BTN_LEFT,
            Btn::Right => OsCode::BTN_RIGHT,
            Btn::Mid => OsCode::BTN_MIDDLE,
            Btn::Forward => OsCode::BTN_EXTRA,
            Btn::Backward => OsCode::BTN_SIDE,
        }
    }
}
//@ item parser/src/keys/linux.rs fn from in `From<Btn> for OsCode`
//@@ wrap impl From<Btn> for OsCode

//@ raw
fn rt_mouse_button(btn: Btn) {
    let osc: OsCode = OsCode::from(btn);
    assert(is_mouse_btn(osc));
    let back = osc_to_btn(osc);
    assert(back == btn);
}

//@ item src/kanata/output_logic.rs fn write_key
//@@ ret r
//@@ spec
    ensures
        // the reserved no-op codes are never sent to the OS
        ignored(osc) ==> r.is_ok() && final(kb).log@ == old(kb).log@,
        !ignored(osc) ==> final(kb).log@ == old(kb).log@.push(Out::Key(osc, val)),
//@ item src/kanata/output_logic.rs fn press_key
//@@ ret r
//@@ spec
    ensures
        ignored(osc) ==> r.is_ok() && final(kb).log@ == old(kb).log@,
        !ignored(osc) && is_mouse_btn(osc) ==> final(kb).log@ == old(kb).log@.push(Out::Click(btn_of(osc))),
        !ignored(osc) && is_wheel(osc) ==> final(kb).log@ == old(kb).log@.push(Out::Scroll(wheel_of(osc), 120u16)),
        !ignored(osc) && !is_mouse_btn(osc) && !is_wheel(osc) ==> final(kb).log@ == old(kb).log@.push(Out::PostPress(osc)),
//@ item src/kanata/output_logic.rs fn release_key
//@@ ret r
//@@ spec
    ensures
        ignored(osc) ==> r.is_ok() && final(kb).log@ == old(kb).log@,
        !ignored(osc) && is_mouse_btn(osc) ==> final(kb).log@ == old(kb).log@.push(Out::Unclick(btn_of(osc))),
        !ignored(osc) && is_wheel(osc) ==> r.is_ok() && final(kb).log@ == old(kb).log@,
        !ignored(osc) && !is_mouse_btn(osc) && !is_wheel(osc) ==> final(kb).log@ == old(kb).log@.push(Out::PostRelease(osc)),

// E3: keys that the code names on BOTH sides - modifiers, the reserved `No`, a few editing keys -
// denote the same number in the internal (KeyCode) and the OS (OsCode) code space.  Each number is
// read from the enum body on every run (enumconst); the obligation is the pairwise equality.
//@ enumconst keyberon/src/key_code.rs KeyCode No kc_No
//@ enumconst parser/src/keys/mod.rs OsCode KEY_UNKNOWN osc_KEY_UNKNOWN
//@ enumconst keyberon/src/key_code.rs KeyCode LShift kc_LShift
//@ enumconst parser/src/keys/mod.rs OsCode KEY_LEFTSHIFT osc_KEY_LEFTSHIFT
//@ enumconst keyberon/src/key_code.rs KeyCode RShift kc_RShift
//@ enumconst parser/src/keys/mod.rs OsCode KEY_RIGHTSHIFT osc_KEY_RIGHTSHIFT
//@ enumconst keyberon/src/key_code.rs KeyCode LCtrl kc_LCtrl
//@ enumconst parser/src/keys/mod.rs OsCode KEY_LEFTCTRL osc_KEY_LEFTCTRL
//@ enumconst keyberon/src/key_code.rs KeyCode RCtrl kc_RCtrl
//@ enumconst parser/src/keys/mod.rs OsCode KEY_RIGHTCTRL osc_KEY_RIGHTCTRL
//@ enumconst keyberon/src/key_code.rs KeyCode LAlt kc_LAlt
//@ enumconst parser/src/keys/mod.rs OsCode KEY_LEFTALT osc_KEY_LEFTALT
//@ enumconst keyberon/src/key_code.rs KeyCode RAlt kc_RAlt
//@ enumconst parser/src/keys/mod.rs OsCode KEY_RIGHTALT osc_KEY_RIGHTALT
//@ enumconst keyberon/src/key_code.rs KeyCode LGui kc_LGui
//@ enumconst parser/src/keys/mod.rs OsCode KEY_LEFTMETA osc_KEY_LEFTMETA
//@ enumconst keyberon/src/key_code.rs KeyCode RGui kc_RGui
//@ enumconst parser/src/keys/mod.rs OsCode KEY_RIGHTMETA osc_KEY_RIGHTMETA
//@ enumconst keyberon/src/key_code.rs KeyCode BSpace kc_BSpace
//@ enumconst parser/src/keys/mod.rs OsCode KEY_BACKSPACE osc_KEY_BACKSPACE
//@ enumconst keyberon/src/key_code.rs KeyCode Space kc_Space
//@ enumconst parser/src/keys/mod.rs OsCode KEY_SPACE osc_KEY_SPACE
//@ enumconst keyberon/src/key_code.rs KeyCode Enter kc_Enter
//@ enumconst parser/src/keys/mod.rs OsCode KEY_ENTER osc_KEY_ENTER
//@ enumconst keyberon/src/key_code.rs KeyCode Escape kc_Escape
//@ enumconst parser/src/keys/mod.rs OsCode KEY_ESC osc_KEY_ESC
//@ enumconst keyberon/src/key_code.rs KeyCode Tab kc_Tab
//@ enumconst parser/src/keys/mod.rs OsCode KEY_TAB osc_KEY_TAB
//@ enumconst keyberon/src/key_code.rs KeyCode Kb1 kc_Kb1
//@ enumconst parser/src/keys/mod.rs OsCode KEY_1 osc_KEY_1
//@ enumconst keyberon/src/key_code.rs KeyCode Kb0 kc_Kb0
//@ enumconst parser/src/keys/mod.rs OsCode KEY_0 osc_KEY_0
//@ raw
proof fn e3_named_codes_coincide()
    ensures
        kc_No() == osc_KEY_UNKNOWN(),
        kc_LShift() == osc_KEY_LEFTSHIFT(),
        kc_RShift() == osc_KEY_RIGHTSHIFT(),
        kc_LCtrl() == osc_KEY_LEFTCTRL(),
        kc_RCtrl() == osc_KEY_RIGHTCTRL(),
        kc_LAlt() == osc_KEY_LEFTALT(),
        kc_RAlt() == osc_KEY_RIGHTALT(),
        kc_LGui() == osc_KEY_LEFTMETA(),
        kc_RGui() == osc_KEY_RIGHTMETA(),
        kc_BSpace() == osc_KEY_BACKSPACE(),
        kc_Space() == osc_KEY_SPACE(),
        kc_Enter() == osc_KEY_ENTER(),
        kc_Escape() == osc_KEY_ESC(),
        kc_Tab() == osc_KEY_TAB(),
        kc_Kb1() == osc_KEY_1(),
        kc_Kb0() == osc_KEY_0(),
{
}
