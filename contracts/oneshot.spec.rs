//@ unit oneshot
// Side-car contracts for OneShotState::handle_release (keyberon/src/layout.rs), property C06.
// Unbounded counterpart of the bounded Kani harness c06_b_release: every table size up to the
// real capacity 16, including the wrap of a full deferred-release table.

//@ raw
// R3: arraydeque::ArrayDeque with behavior::Wrapping, ASSUMED contract (arraydeque 0.5.1):
// push_back on a full deque evicts and returns the front element.
pub mod arraydeque {
    use vstd::prelude::*;
    pub mod behavior {
        pub struct Wrapping;
    }
    #[verifier::external_body]
    #[verifier::reject_recursive_types(T)]
    #[verifier::reject_recursive_types(B)]
    pub struct ArrayDeque<T, const N: usize, B> {
        v: Vec<T>,
        b: core::marker::PhantomData<B>,
    }
    impl<T, const N: usize> ArrayDeque<T, N, behavior::Wrapping> {
        pub uninterp spec fn view(&self) -> Seq<T>;
        #[verifier::external_body]
        pub fn is_empty(&self) -> (r: bool)
            ensures r == (self.view().len() == 0),
        { unimplemented!() }
        #[verifier::external_body]
        pub fn contains(&self, x: &T) -> (r: bool)
            ensures r == self.view().contains(*x),
        { unimplemented!() }
        #[verifier::external_body]
        pub fn push_back(&mut self, x: T) -> (r: Option<T>)
            ensures
                old(self).view().len() < N ==> r.is_none() && final(self).view() == old(self).view().push(x),
                old(self).view().len() >= N ==> r == Some(old(self).view()[0]) && final(self).view() == old(self).view().drop_first().push(x),
        { unimplemented!() }
    }
}
use arraydeque::ArrayDeque;

//@ item keyberon/src/layout.rs type KCoord
//@ item keyberon/src/action.rs const ONE_SHOT_MAX_ACTIVE
//@ item keyberon/src/action.rs enum OneShotEndConfig
//@ item keyberon/src/layout.rs struct OneShotState

//@ raw
spec fn release_variant(c: OneShotEndConfig) -> bool {
    c == OneShotEndConfig::EndOnFirstRelease || c == OneShotEndConfig::EndOnFirstReleaseOrRepress
}

//@ item keyberon/src/layout.rs fn handle_release in `OneShotState`
//@@ wrap impl OneShotState
//@@ resub R11 1 /\(i, j\): KCoord\) -> \(bool, Option<KCoord>\) \{/ => `ij: KCoord) -> (bool, Option<KCoord>) { let (i, j) = ij;`
//@@ ret r
//@@ spec
    requires
        old(self).released_keys@.len() <= 16,
    ensures
        // frame: a release never touches the active set, the remembered keys, or any timer
        final(self).keys@ == old(self).keys@,
        final(self).other_pressed_keys@ == old(self).other_pressed_keys@,
        final(self).timeout == old(self).timeout,
        final(self).end_config == old(self).end_config,
        final(self).pause_input_processing_delay == old(self).pause_input_processing_delay,
        final(self).pause_input_processing_ticks == old(self).pause_input_processing_ticks,
        final(self).ticks_to_ignore_events == old(self).ticks_to_ignore_events,
        // no one-shot active: an ordinary release
        old(self).keys@.len() == 0 ==> r == (true, None::<KCoord>)
            && final(self).released_keys@ == old(self).released_keys@
            && final(self).release_on_next_tick == old(self).release_on_next_tick,
        // another key: released normally; in the release variants the release of a key that was
        // pressed after the one-shot ends it
        old(self).keys@.len() > 0 && !old(self).keys@.contains(ij) ==> r == (true, None::<KCoord>)
            && final(self).released_keys@ == old(self).released_keys@
            && final(self).release_on_next_tick == (old(self).release_on_next_tick
                || (release_variant(old(self).end_config) && old(self).other_pressed_keys@.contains(ij))),
        // an active one-shot key: its release is deferred, not applied; a 17th deferred release
        // evicts (and hands back) the oldest one instead of being lost
        old(self).keys@.contains(ij) ==> r.0 == false
            && final(self).release_on_next_tick == old(self).release_on_next_tick
            && (old(self).released_keys@.len() < 16 ==> r.1.is_none() && final(self).released_keys@ == old(self).released_keys@.push(ij))
            && (old(self).released_keys@.len() == 16 ==> r.1 == Some(old(self).released_keys@[0])
                && final(self).released_keys@ == old(self).released_keys@.drop_first().push(ij)),
