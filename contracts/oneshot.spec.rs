//@ unit oneshot
// Side-car contracts for OneShotState::{handle_release, handle_press, tick_osh}
// (keyberon/src/layout.rs), property C06.  Unbounded counterparts of the bounded Kani harnesses
// c06_b_release / c06_b_press_* / c06_b_tick: every table size up to the real capacity 16,
// including the wrap of a full table.

//@ raw
// R3: arraydeque::ArrayDeque with behavior::Wrapping, ASSUMED contract (arraydeque 0.5.1):
// push_back on a full deque evicts and returns the front element.
pub mod arraydeque {
    use vstd::prelude::*;
    pub mod behavior {
        pub struct Wrapping;
    }
    #[verifier::external_body]
    #[verifier::reject_recursive_types(T)]
    #[verifier::reject_recursive_types(B)]
    pub struct ArrayDeque<T, const N: usize, B> {
        v: Vec<T>,
        b: core::marker::PhantomData<B>,
    }
    // what a borrowed / draining iterator will yield, front to back
    #[verifier::external_body]
    #[verifier::reject_recursive_types(T)]
    pub struct Iter<T> { v: Vec<T> }
    impl<T> Iter<T> {
        pub uninterp spec fn view(&self) -> Seq<T>;
        #[verifier::external_body]
        pub fn copied(self) -> (r: Iter<T>)
            ensures r.view() == self.view(),
        { unimplemented!() }
        // FromIterator for the fixed-capacity heapless::Vec panics beyond its capacity
        #[verifier::external_body]
        pub fn collect<C: FromIter<T>>(self) -> (r: C)
            requires self.view().len() <= C::cap(),
            ensures r.items() == self.view(),
        { unimplemented!() }
    }
    pub trait FromIter<T>: Sized {
        spec fn items(&self) -> Seq<T>;
        spec fn cap() -> nat;
    }
    // the elements retain() keeps, given the decisions its predicate returned one by one
    pub open spec fn pick<T>(s: Seq<T>, d: Seq<bool>) -> Seq<T>
        decreases s.len(),
    {
        if s.len() == 0 || d.len() != s.len() { Seq::empty() }
        else if d.last() { pick(s.drop_last(), d.drop_last()).push(s.last()) }
        else { pick(s.drop_last(), d.drop_last()) }
    }
    // Wrapping: the newest N elements survive
    pub open spec fn newest<T>(s: Seq<T>, n: nat) -> Seq<T> {
        if s.len() <= n { s } else { s.subrange(s.len() - n, s.len() as int) }
    }
    impl<T, const N: usize> ArrayDeque<T, N, behavior::Wrapping> {
        pub uninterp spec fn view(&self) -> Seq<T>;
        // capacity: an ArrayDeque never holds more than N elements
        #[verifier::external_body]
        pub proof fn axiom_capacity(&self)
            ensures self.view().len() <= N,
        { unimplemented!() }
        #[verifier::external_body]
        pub fn new() -> (r: Self)
            ensures r.view() == Seq::<T>::empty(),
        { unimplemented!() }
        #[verifier::external_body]
        pub fn is_empty(&self) -> (r: bool)
            ensures r == (self.view().len() == 0),
        { unimplemented!() }
        #[verifier::external_body]
        pub fn contains(&self, x: &T) -> (r: bool)
            ensures r == self.view().contains(*x),
        { unimplemented!() }
        #[verifier::external_body]
        pub fn push_back(&mut self, x: T) -> (r: Option<T>)
            ensures
                old(self).view().len() < N ==> r.is_none() && final(self).view() == old(self).view().push(x),
                old(self).view().len() >= N ==> r == Some(old(self).view()[0]) && final(self).view() == old(self).view().drop_first().push(x),
        { unimplemented!() }
        #[verifier::external_body]
        pub fn iter(&self) -> (r: Iter<T>)
            ensures r.view() == self.view(),
        { unimplemented!() }
        #[verifier::external_body]
        pub fn extend(&mut self, it: Iter<T>)
            ensures final(self).view() == newest(old(self).view() + it.view(), N as nat),
        { unimplemented!() }
        #[verifier::external_body]
        pub fn clear(&mut self)
            ensures final(self).view() == Seq::<T>::empty(),
        { unimplemented!() }
        #[verifier::external_body]
        pub fn drain(&mut self, r: core::ops::RangeFull) -> (d: Iter<T>)
            ensures d.view() == old(self).view(), final(self).view() == Seq::<T>::empty(),
        { unimplemented!() }
        // retain calls the predicate once on each element, front to back, and keeps those for
        // which it answered true
        #[verifier::external_body]
        pub fn retain<F: FnMut(&T) -> bool>(&mut self, f: F)
            requires forall|x: &T| f.requires((x,)),
            ensures exists|d: Seq<bool>| #![trigger d.len()] d.len() == old(self).view().len()
                && (forall|i: int| #![trigger d[i]] 0 <= i < d.len() ==> f.ensures((&old(self).view()[i],), d[i]))
                && final(self).view() == pick(old(self).view(), d),
        { unimplemented!() }
    }
}
pub mod heapless {
    use vstd::prelude::*;
    #[verifier::external_body]
    #[verifier::reject_recursive_types(T)]
    pub struct Vec<T, const N: usize> { v: std::vec::Vec<T> }
    impl<T, const N: usize> Vec<T, N> {
        pub uninterp spec fn view(&self) -> Seq<T>;
    }
    impl<T, const N: usize> crate::arraydeque::FromIter<T> for Vec<T, N> {
        open spec fn items(&self) -> Seq<T> { self.view() }
        open spec fn cap() -> nat { N as nat }
    }
}
use heapless::Vec;
use arraydeque::ArrayDeque;

//@ item keyberon/src/layout.rs type KCoord
//@ item keyberon/src/action.rs const ONE_SHOT_MAX_ACTIVE
//@ item keyberon/src/action.rs enum OneShotEndConfig
//@ item keyberon/src/layout.rs struct OneShotState

//@ raw
spec fn release_variant(c: OneShotEndConfig) -> bool {
    c == OneShotEndConfig::EndOnFirstRelease || c == OneShotEndConfig::EndOnFirstReleaseOrRepress
}

//@ item keyberon/src/layout.rs fn handle_release in `OneShotState`
//@@ wrap impl OneShotState
//@@ resub R11 1 /\(i, j\): KCoord\) -> \(bool, Option<KCoord>\) \{/ => `ij: KCoord) -> (bool, Option<KCoord>) { let (i, j) = ij;`
//@@ ret r
//@@ spec
    requires
        old(self).released_keys@.len() <= 16,
    ensures
        // frame: a release never touches the active set, the remembered keys, or any timer
        final(self).keys@ == old(self).keys@,
        final(self).other_pressed_keys@ == old(self).other_pressed_keys@,
        final(self).timeout == old(self).timeout,
        final(self).end_config == old(self).end_config,
        final(self).pause_input_processing_delay == old(self).pause_input_processing_delay,
        final(self).pause_input_processing_ticks == old(self).pause_input_processing_ticks,
        final(self).ticks_to_ignore_events == old(self).ticks_to_ignore_events,
        // no one-shot active: an ordinary release
        old(self).keys@.len() == 0 ==> r == (true, None::<KCoord>)
            && final(self).released_keys@ == old(self).released_keys@
            && final(self).release_on_next_tick == old(self).release_on_next_tick,
        // another key: released normally; in the release variants the release of a key that was
        // pressed after the one-shot ends it
        old(self).keys@.len() > 0 && !old(self).keys@.contains(ij) ==> r == (true, None::<KCoord>)
            && final(self).released_keys@ == old(self).released_keys@
            && final(self).release_on_next_tick == (old(self).release_on_next_tick
                || (release_variant(old(self).end_config) && old(self).other_pressed_keys@.contains(ij))),
        // an active one-shot key: its release is deferred, not applied; a 17th deferred release
        // evicts (and hands back) the oldest one instead of being lost
        old(self).keys@.contains(ij) ==> r.0 == false
            && final(self).release_on_next_tick == old(self).release_on_next_tick
            && (old(self).released_keys@.len() < 16 ==> r.1.is_none() && final(self).released_keys@ == old(self).released_keys@.push(ij))
            && (old(self).released_keys@.len() == 16 ==> r.1 == Some(old(self).released_keys@[0])
                && final(self).released_keys@ == old(self).released_keys@.drop_first().push(ij)),

//@ item keyberon/src/layout.rs enum OneShotHandlePressKey
//@ item keyberon/src/layout.rs type OneShotCoords
//@ item keyberon/src/layout.rs type ReleasedOneShotKeys

//@ raw
spec fn press_variant(c: OneShotEndConfig) -> bool {
    c == OneShotEndConfig::EndOnFirstPress || c == OneShotEndConfig::EndOnFirstPressOrRepress
}
spec fn repress_variant(c: OneShotEndConfig) -> bool {
    c == OneShotEndConfig::EndOnFirstReleaseOrRepress || c == OneShotEndConfig::EndOnFirstPressOrRepress
}
spec fn umin(a: u16, b: u16) -> u16 { if a <= b { a } else { b } }
// core::cmp::min, ASSUMED (std): at u16 it is the smaller of the two
pub uninterp spec fn min_spec<T>(a: T, b: T) -> T;
#[verifier::allow(undeclared_external_trait)]
pub assume_specification<T> [core::cmp::min] (a: T, b: T) -> (r: T)
    where T: core::cmp::Ord + core::marker::Destruct,
    ensures r == min_spec(a, b);
pub uninterp spec fn max_spec<T>(a: T, b: T) -> T;
#[verifier::allow(undeclared_external_trait)]
pub assume_specification<T> [core::cmp::max] (a: T, b: T) -> (r: T)
    where T: core::cmp::Ord + core::marker::Destruct,
    ensures r == max_spec(a, b);
#[verifier::external_body]
broadcast proof fn axiom_max_u16(a: u16, b: u16)
    ensures #[trigger] max_spec::<u16>(a, b) == (if a >= b { a } else { b }),
{ unimplemented!() }
#[verifier::external_body]
broadcast proof fn axiom_min_u16(a: u16, b: u16)
    ensures #[trigger] min_spec::<u16>(a, b) == umin(a, b),
{ unimplemented!() }

// what retain(|c| *c != x) leaves: the other coordinates, in order
proof fn lemma_pick_filter(s: Seq<KCoord>, d: Seq<bool>, x: KCoord)
    requires d.len() == s.len(), forall|i: int| 0 <= i < s.len() ==> d[i] == (s[i] != x),
    ensures arraydeque::pick(s, d) == s.filter(|c: KCoord| c != x),
    decreases s.len(),
{
    reveal(Seq::filter);
    if s.len() == 0 {
    } else {
        lemma_pick_filter(s.drop_last(), d.drop_last(), x);
    }
}

//@ item keyberon/src/layout.rs fn handle_press in `OneShotState`
//@@ wrap impl OneShotState
//@@ resub R12 1 /\|coord\| (\*coord [!=]= pressed_coord)\)/ => `|coord: &KCoord| -> (b: bool) ensures b == (\1) { \1 })`
//@@ ret r
//@@ spec
    ensures
        // frame: a press never changes the active set, the variant, or the configured delay
        final(self).keys@ == old(self).keys@,
        final(self).end_config == old(self).end_config,
        final(self).pause_input_processing_delay == old(self).pause_input_processing_delay,
        final(self).ticks_to_ignore_events == old(self).ticks_to_ignore_events,
        // no one-shot active (or presses being ignored): nothing happens, nothing is reported
        old(self).keys@.len() == 0 || old(self).ticks_to_ignore_events > 0 ==> r@.len() == 0
            && final(self).released_keys@ == old(self).released_keys@
            && final(self).other_pressed_keys@ == old(self).other_pressed_keys@
            && final(self).timeout == old(self).timeout
            && final(self).release_on_next_tick == old(self).release_on_next_tick
            && final(self).pause_input_processing_ticks == old(self).pause_input_processing_ticks,
        // a one-shot key is pressed (again): it combines - timers and remembered keys untouched;
        // its deferred release is forgotten (held one-shot acts as the plain key); the pcancel
        // variants end on re-press of an ACTIVE one-shot key and report every active key
        old(self).keys@.len() > 0 && old(self).ticks_to_ignore_events == 0 && key is OneShotKey ==> {
            let c = key->OneShotKey_0;
            let cancel = repress_variant(old(self).end_config) && old(self).keys@.contains(c);
            &&& final(self).released_keys@ == old(self).released_keys@.filter(|x: KCoord| x != c)
            &&& final(self).other_pressed_keys@ == old(self).other_pressed_keys@
            &&& final(self).timeout == old(self).timeout
            &&& final(self).pause_input_processing_ticks == old(self).pause_input_processing_ticks
            &&& final(self).release_on_next_tick == (old(self).release_on_next_tick || cancel)
            &&& r@ == (if cancel { old(self).keys@ } else { Seq::<KCoord>::empty() })
        },
        // the first following other key: reported the whole active set (it is modified by every
        // active one-shot key); press variants end within the rapid-event delay and pause input
        // for that long; release variants remember the key so that its release ends the one-shot
        old(self).keys@.len() > 0 && old(self).ticks_to_ignore_events == 0 && key is Other ==> {
            let c = key->Other_0;
            &&& r@ == old(self).keys@
            &&& final(self).released_keys@ == old(self).released_keys@
            &&& final(self).release_on_next_tick == old(self).release_on_next_tick
            &&& press_variant(old(self).end_config) ==>
                    final(self).timeout == umin(old(self).pause_input_processing_delay, old(self).timeout)
                    && final(self).pause_input_processing_ticks == old(self).pause_input_processing_delay
                    && final(self).other_pressed_keys@ == old(self).other_pressed_keys@
            &&& !press_variant(old(self).end_config) ==>
                    final(self).timeout == old(self).timeout
                    && final(self).pause_input_processing_ticks == old(self).pause_input_processing_ticks
                    && final(self).other_pressed_keys@.last() == c
                    && (old(self).other_pressed_keys@.len() < 16 ==>
                        final(self).other_pressed_keys@ == old(self).other_pressed_keys@.push(c))
        },
//@@ before 1 `match key {`
    proof { self.keys.axiom_capacity(); broadcast use axiom_min_u16, axiom_max_u16; }
    let ghost rk0 = self.released_keys@;
//@@ after 1 `pressed_coord });`
    proof {
        let d = choose|d: Seq<bool>| #![trigger d.len()] d.len() == rk0.len()
            && (forall|i: int| #![trigger d[i]] 0 <= i < d.len() ==> (rk0[i] != pressed_coord) == d[i])
            && self.released_keys@ == arraydeque::pick(rk0, d);
        lemma_pick_filter(rk0, d, pressed_coord);
    }

//@ item keyberon/src/layout.rs fn tick_osh in `OneShotState`
//@@ wrap impl OneShotState
//@@ ret r
//@@ spec
    ensures
        final(self).end_config == old(self).end_config,
        final(self).pause_input_processing_delay == old(self).pause_input_processing_delay,
        // nothing active: a tick is a no-op
        old(self).keys@.len() == 0 ==> r.is_none()
            && final(self).keys@ == old(self).keys@
            && final(self).released_keys@ == old(self).released_keys@
            && final(self).other_pressed_keys@ == old(self).other_pressed_keys@
            && final(self).timeout == old(self).timeout
            && final(self).release_on_next_tick == old(self).release_on_next_tick
            && final(self).pause_input_processing_ticks == old(self).pause_input_processing_ticks
            && final(self).ticks_to_ignore_events == old(self).ticks_to_ignore_events,
        // active: it ends on this tick exactly when an end was requested or the last millisecond
        // of the timeout elapses; ending clears EVERYTHING (it affects nothing after this point)
        // and hands back every deferred release, oldest first
        old(self).keys@.len() > 0 && (old(self).release_on_next_tick || old(self).timeout <= 1) ==>
            r.is_some() && r->Some_0@ == old(self).released_keys@
            && final(self).keys@.len() == 0 && final(self).released_keys@.len() == 0
            && final(self).other_pressed_keys@.len() == 0
            && final(self).timeout == 0 && !final(self).release_on_next_tick
            && final(self).pause_input_processing_ticks == 0 && final(self).ticks_to_ignore_events == 0,
        // active and not ending: stays active, one millisecond closer to expiry
        old(self).keys@.len() > 0 && !old(self).release_on_next_tick && old(self).timeout > 1 ==>
            r.is_none()
            && final(self).keys@ == old(self).keys@
            && final(self).released_keys@ == old(self).released_keys@
            && final(self).other_pressed_keys@ == old(self).other_pressed_keys@
            && final(self).timeout == old(self).timeout - 1
            && !final(self).release_on_next_tick
            && final(self).pause_input_processing_ticks == old(self).pause_input_processing_ticks
            && final(self).ticks_to_ignore_events == (if old(self).ticks_to_ignore_events == 0 { 0 } else { old(self).ticks_to_ignore_events - 1 }) as u16,
//@@ before 1 `Some(self.released_keys.drain(..).collect())`
    proof { self.released_keys.axiom_capacity(); }
