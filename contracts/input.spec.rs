//@ unit input
// Side-car contract for Kanata::handle_input_event (src/kanata/mod.rs), cut WHOLE: the one place
// where a physical key event enters kanata.  It is the call site several properties lean on:
// C19 ("recording captures the physical key events between record start and stop": every press and
// release is handed to the recorder, with the physical key's code), C14 ("an OS auto-repeat event
// ... makes kanata emit at most one repeat": a repeat goes to handle_repeat and NOWHERE else - it
// never reaches the layout), C04/C01 (one physical event = one layout event at row 0, column = the
// key code; the input tap is a press followed by a release), and the idle counter restarts.
// Callees are stubs with ghost logs; record_press / record_release / handle_repeat_actual are under
// contract in units dynmacro / repeat.

//@ raw
#[verifier::external_body]
pub struct VerifError { verif_opaque: u8 }
type Result<T> = core::result::Result<T, VerifError>;
#[verifier::external_body]
pub struct OsCode { verif_opaque: u8 }
impl Clone for OsCode {
    #[verifier::external_body]
    fn clone(&self) -> (r: Self) ensures r == *self { unimplemented!() }
}
impl Copy for OsCode {}
/// OsCode -> u16: uninterpreted (C11)
pub uninterp spec fn osc_u16(o: OsCode) -> u16;
impl vstd::std_specs::convert::FromSpecImpl<OsCode> for u16 {
    open spec fn obeys_from_spec() -> bool { true }
    open spec fn from_spec(o: OsCode) -> Self { osc_u16(o) }
}
impl From<OsCode> for u16 {
    #[verifier::external_body]
    fn from(o: OsCode) -> (r: u16) ensures r == osc_u16(o) { unimplemented!() }
}
//@ item keyberon/src/layout.rs enum Event
//@@ keep-vis
//@ item src/oskbd/mod.rs enum KeyValue
//@@ keep-vis
//@ item src/oskbd/mod.rs struct KeyEvent
//@@ keep-vis
//@@ no-derives

//@ raw
/// what the recorder was told, in order (record_press / record_release are under contract in unit
/// dynmacro; here they are logging stubs)
pub enum RecCall { Press(OsCode, u16), Release(OsCode) }
pub struct DynamicMacroRecordState { pub verif_calls: Ghost<Seq<RecCall>> }
#[verifier::external_body]
pub struct DynamicMacroItem { verif_opaque: u8 }
/// the recorder's call log (empty when not recording)
spec fn rec_log(st: Option<DynamicMacroRecordState>) -> Seq<RecCall> { match st { Some(s) => s.verif_calls@, None => Seq::empty() } }
/// "the recorder stopped because the configured number of presses was reached": some function of
/// the recorder state (decided in unit dynmacro)
pub uninterp spec fn rec_full(st: Option<DynamicMacroRecordState>, max_presses: u16) -> Option<(u16, Vec<DynamicMacroItem>)>;
#[verifier::external_body]
fn record_press(record_state: &mut Option<DynamicMacroRecordState>, osc: OsCode, max_presses: u16) -> (r: Option<(u16, Vec<DynamicMacroItem>)>)
    ensures
        r == rec_full(*old(record_state), max_presses),
        *old(record_state) is Some && r is None ==> *final(record_state) is Some && rec_log(*final(record_state)) == rec_log(*old(record_state)).push(RecCall::Press(osc, max_presses)),
        *old(record_state) is None ==> *final(record_state) is None && r is None,
{ unimplemented!() }
#[verifier::external_body]
fn record_release(record_state: &mut Option<DynamicMacroRecordState>, osc: OsCode)
    ensures
        *old(record_state) is Some ==> *final(record_state) is Some && rec_log(*final(record_state)) == rec_log(*old(record_state)).push(RecCall::Release(osc)),
        *old(record_state) is None ==> *final(record_state) is None,
{ unimplemented!() }
/// R3: the table of recorded macros: only insert() is used; recorded in a ghost log
pub struct HashMap<K, V> { pub verif_inserted: Ghost<Seq<(K, V)>> }
impl<K, V> HashMap<K, V> {
    #[verifier::external_body]
    pub fn insert(&mut self, k: K, v: V) -> (r: Option<V>)
        ensures final(self).verif_inserted@ == old(self).verif_inserted@.push((k, v)),
    { unimplemented!() }
}
/// the keyberon layout behind `self.layout.bm()`: its event queue as a ghost log, and the two things
/// the macro-cancel branch clears
pub struct BLayout {
    pub verif_events: Ghost<Seq<Event>>,
    pub active_sequences: VerifSeqs,
    pub states: VerifStates,
}
pub struct VerifSeqs { pub verif_cleared: Ghost<nat> }
impl VerifSeqs {
    #[verifier::external_body]
    pub fn clear(&mut self) ensures final(self).verif_cleared@ == old(self).verif_cleared@ + 1 { unimplemented!() }
}
pub struct VerifStates { pub verif_macro_states_dropped: Ghost<nat> }
/// R42: `layout.states.retain(|s| !matches!(s, State::FakeKey { .. } | State::RepeatingSequence { .. }))`
/// -> this helper (the keys a macro holds down are dropped; what is dropped is C08's subject): logged
#[verifier::external_body]
fn verif_drop_macro_states(st: &mut VerifStates)
    ensures final(st).verif_macro_states_dropped@ == old(st).verif_macro_states_dropped@ + 1,
{ unimplemented!() }
impl BLayout {
    /// Layout::event: queues the event (under contract in unit waiting); recorded here
    #[verifier::external_body]
    fn event(&mut self, event: Event)
        ensures final(self).verif_events@ == old(self).verif_events@.push(event),
            final(self).active_sequences == old(self).active_sequences, final(self).states == old(self).states,
    { unimplemented!() }
}
pub struct KanataLayout { pub verif_inner: BLayout }
impl KanataLayout {
    /// `bm(&mut self) -> &mut Layout` (a borrow of the inner layout)
    fn bm(&mut self) -> (r: &mut BLayout)
        ensures *r == old(self).verif_inner, final(self).verif_inner == *final(r),
    { &mut self.verif_inner }
}

//@ item src/kanata/mod.rs struct Kanata
//@@ keep-vis
//@@ no-derives
//@@ keep-fields layout dynamic_macros dynamic_macro_record_state ticks_since_idle dynamic_macro_max_presses macro_on_press_cancel_duration
//@@ add-field pub verif_repeats: Ghost<Seq<KeyEvent>>
//@@ resub Rpath 1 /cfg::KanataLayout/ => `KanataLayout`

//@ raw
impl Kanata {
    /// handle_repeat (-> handle_repeat_actual, under contract in unit repeat): recorded; it does not
    /// touch the layout's event queue or the recorder
    #[verifier::external_body]
    fn handle_repeat(&mut self, event: &KeyEvent) -> (r: Result<()>)
        ensures
            final(self).verif_repeats@ == old(self).verif_repeats@.push(*event),
            final(self).layout == old(self).layout, final(self).dynamic_macro_record_state == old(self).dynamic_macro_record_state,
            final(self).dynamic_macros == old(self).dynamic_macros, final(self).ticks_since_idle == old(self).ticks_since_idle,
            final(self).macro_on_press_cancel_duration == old(self).macro_on_press_cancel_duration,
    { unimplemented!() }
}

//@ item src/kanata/mod.rs fn handle_input_event in `Kanata`
//@@ wrap impl Kanata
//@@ resub R42 1 /layout\.states\.retain\(\|s\| \{\s*!matches!\(s, State::FakeKey \{ \.\. \} \| State::RepeatingSequence \{ \.\. \}\)\s*\}\);/ => `verif_drop_macro_states(&mut layout.states);`
//@@ ret r
//@@ spec
    ensures
        // every physical event restarts the idle counter
        final(self).ticks_since_idle == 0,
        // PRESS: handed to the recorder with the physical key's code, then exactly one layout event
        // at row 0 / this key; a pending macro-cancel window cancels the running macros first
        event.value is Press ==> {
            &&& final(self).layout.verif_inner.verif_events@ == old(self).layout.verif_inner.verif_events@.push(Event::Press(0, osc_u16(event.code)))
            &&& (old(self).dynamic_macro_record_state is Some && rec_full(old(self).dynamic_macro_record_state, old(self).dynamic_macro_max_presses) is None
                    ==> rec_log(final(self).dynamic_macro_record_state) == rec_log(old(self).dynamic_macro_record_state).push(RecCall::Press(event.code, old(self).dynamic_macro_max_presses)))
            // a recording that just completed is stored
            &&& (rec_full(old(self).dynamic_macro_record_state, old(self).dynamic_macro_max_presses) matches Some(m)
                    ==> final(self).dynamic_macros.verif_inserted@ == old(self).dynamic_macros.verif_inserted@.push(m))
            &&& (rec_full(old(self).dynamic_macro_record_state, old(self).dynamic_macro_max_presses) is None
                    ==> final(self).dynamic_macros == old(self).dynamic_macros)
            &&& final(self).macro_on_press_cancel_duration == 0
            &&& (old(self).macro_on_press_cancel_duration > 0 ==>
                    final(self).layout.verif_inner.active_sequences.verif_cleared@ == old(self).layout.verif_inner.active_sequences.verif_cleared@ + 1
                    && final(self).layout.verif_inner.states.verif_macro_states_dropped@ == old(self).layout.verif_inner.states.verif_macro_states_dropped@ + 1)
            &&& (old(self).macro_on_press_cancel_duration == 0 ==>
                    final(self).layout.verif_inner.active_sequences == old(self).layout.verif_inner.active_sequences
                    && final(self).layout.verif_inner.states == old(self).layout.verif_inner.states)
            &&& final(self).verif_repeats == old(self).verif_repeats
            &&& r is Ok
        },
        // RELEASE: handed to the recorder, then exactly one layout event
        event.value is Release ==> {
            &&& final(self).layout.verif_inner.verif_events@ == old(self).layout.verif_inner.verif_events@.push(Event::Release(0, osc_u16(event.code)))
            &&& (old(self).dynamic_macro_record_state is Some ==> rec_log(final(self).dynamic_macro_record_state) == rec_log(old(self).dynamic_macro_record_state).push(RecCall::Release(event.code)))
            &&& (old(self).dynamic_macro_record_state is None ==> final(self).dynamic_macro_record_state is None)
            &&& final(self).dynamic_macros == old(self).dynamic_macros
            &&& final(self).macro_on_press_cancel_duration == old(self).macro_on_press_cancel_duration
            &&& final(self).verif_repeats == old(self).verif_repeats
            &&& r is Ok
        },
        // REPEAT: goes to handle_repeat and nowhere else - no layout event, nothing recorded
        event.value is Repeat ==> {
            &&& final(self).verif_repeats@ == old(self).verif_repeats@.push(*event)
            &&& final(self).layout == old(self).layout
            &&& final(self).dynamic_macro_record_state == old(self).dynamic_macro_record_state
            &&& final(self).dynamic_macros == old(self).dynamic_macros
        },
        // TAP (an input that is press + release at once): both, press first; not recorded
        event.value is Tap ==> {
            &&& final(self).layout.verif_inner.verif_events@ == old(self).layout.verif_inner.verif_events@.push(Event::Press(0, osc_u16(event.code))).push(Event::Release(0, osc_u16(event.code)))
            &&& final(self).dynamic_macro_record_state == old(self).dynamic_macro_record_state
            &&& final(self).verif_repeats == old(self).verif_repeats
            &&& r is Ok
        },
        // WAKEUP: nothing but the idle counter
        event.value is WakeUp ==> {
            &&& final(self).layout == old(self).layout
            &&& final(self).dynamic_macro_record_state == old(self).dynamic_macro_record_state
            &&& final(self).verif_repeats == old(self).verif_repeats
            &&& r is Ok
        },
