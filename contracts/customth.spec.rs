//@ unit customth
// Side-car contracts for the two closures the parser builds for the custom tap-hold variants
// (parser/src/cfg/custom_tap_hold.rs), property C05: "the press, release and keys variants
// additionally choose hold or tap early on the documented triggers".  Each closure BODY is cut as a
// FRAGMENT of its enclosing function (block-after the closure header) and wrapped in a synthetic
// signature that takes the captured key list as a parameter; the allocation around it
// (`a.sref(move |..| ..)`, `a.sref_vec(..)`) is outside.  Unbounded counterparts of the bounded
// harnesses c05_b_custom_release_keys / c05_b_custom_except_keys (queues of <= 4 events).

//@ raw
#[verifier::external_body]
pub struct OsCode { verif_opaque: u8 }
/// OsCode -> u16 (`u16::from`): uninterpreted (C11)
pub uninterp spec fn osc_u16(o: OsCode) -> u16;
//@ item keyberon/src/layout.rs type KCoord
//@ item keyberon/src/layout.rs enum Event
//@@ keep-vis
//@ item keyberon/src/layout.rs struct Queued
//@@ keep-vis
//@@ no-derives
//@ item keyberon/src/layout.rs enum WaitingAction
//@@ keep-vis
//@ raw
impl Copy for Queued {}
impl Clone for Queued {
    #[verifier::external_body]
    fn clone(&self) -> (r: Self) ensures r == *self { *self }
}
//@ item keyberon/src/layout.rs fn coord in `Event`
//@@ wrap impl Event
//@@ keep-vis
//@@ pre
    pub open spec fn coord_spec(self) -> KCoord { match self { Event::Press(i, j) => (i, j), Event::Release(i, j) => (i, j) } }
    pub open spec fn is_press_spec(self) -> bool { self is Press }
//@@ attr #[verifier::when_used_as_spec(coord_spec)]
//@@ ret r
//@@ spec
    ensures r == self.coord_spec(),
//@ item keyberon/src/layout.rs fn is_press in `Event`
//@@ wrap impl Event
//@@ keep-vis
//@@ attr #[verifier::when_used_as_spec(is_press_spec)]
//@@ ret r
//@@ spec
    ensures r == self.is_press_spec(),
//@ item keyberon/src/layout.rs fn event in `(?<!for )Queued\b`
//@@ wrap impl Queued
//@@ keep-vis
//@@ pre
    pub closed spec fn event_spec(&self) -> Event { self.event }
//@@ attr #[verifier::when_used_as_spec(event_spec)]
//@@ ret r
//@@ spec
    ensures r == self.event_spec(),

//@ raw
/// keyberon's QueuedIter (a wrapper around the event queue's iterator): stub.  ASSUMED: next() yields
/// the queued events front to back; clone() copies the position; `.copied().any(p)` with a pure
/// predicate is "some remaining element satisfies p" (taken BY VALUE on the temporary)
#[verifier::external_body]
pub struct QueuedIter<'q> { p: core::marker::PhantomData<&'q u8> }
#[verifier::external_body]
pub struct QueuedIterCopied<'q> { p: core::marker::PhantomData<&'q u8> }
impl<'q> QueuedIter<'q> {
    pub uninterp spec fn rest(&self) -> Seq<Queued>;
    #[verifier::external_body]
    pub fn next(&mut self) -> (r: Option<&'q Queued>)
        ensures
            old(self).rest().len() == 0 ==> r.is_none() && final(self).rest() == old(self).rest(),
            old(self).rest().len() > 0 ==> r == Some(&old(self).rest()[0]) && final(self).rest() == old(self).rest().drop_first(),
    { unimplemented!() }
    #[verifier::external_body]
    pub fn clone(&self) -> (r: QueuedIter<'q>) ensures r.rest() == self.rest() { unimplemented!() }
    #[verifier::external_body]
    pub fn copied(self) -> (r: QueuedIterCopied<'q>) ensures r.rest() == self.rest() { unimplemented!() }
    /// Iterator::any called on the iterator ITSELF (not on a clone): ASSUMED std meaning - elements are
    /// consumed up to and including the first one the (pure) predicate accepts, all of them if none
    #[verifier::external_body]
    pub fn any<F: Fn(Queued) -> bool>(&mut self, f: F) -> (r: bool)
        requires forall|x: Queued| f.requires((x,)),
        ensures exists|d: Seq<bool>| #![trigger d.len()] d.len() == old(self).rest().len()
            && (forall|i: int| #![trigger d[i]] #![trigger old(self).rest()[i]] 0 <= i < d.len() ==> f.ensures((old(self).rest()[i],), d[i]))
            && r == (exists|i: int| 0 <= i < d.len() && #[trigger] d[i])
            && (!r ==> final(self).rest().len() == 0)
            && (r ==> exists|k: int| 0 <= k < d.len() && #[trigger] d[k] && (forall|m: int| 0 <= m < k ==> !#[trigger] d[m]) && final(self).rest() == old(self).rest().subrange(k + 1, d.len() as int)),
    { unimplemented!() }
}
impl<'q> QueuedIterCopied<'q> {
    pub uninterp spec fn rest(&self) -> Seq<Queued>;
    #[verifier::external_body]
    pub fn any<F: Fn(Queued) -> bool>(self, f: F) -> (r: bool)
        requires forall|x: Queued| f.requires((x,)),
        ensures exists|d: Seq<bool>| #![trigger d.len()] d.len() == self.rest().len()
            && (forall|i: int| #![trigger d[i]] #![trigger self.rest()[i]] 0 <= i < d.len() ==> f.ensures((self.rest()[i],), d[i]))
            && r == (exists|i: int| 0 <= i < d.len() && #[trigger] d[i]),
    { unimplemented!() }
}
/// is the key with this number one of the listed keys
spec fn listed(keys: Seq<OsCode>, j: u16) -> bool { exists|k: int| 0 <= k < keys.len() && osc_u16(#[trigger] keys[k]) == j }
/// R43: `keys.iter().copied().map(u16::from).any(|j2| j2 == j)` -> this helper (ASSUMED: membership
/// of j among the listed keys' numbers)
#[verifier::external_body]
fn verif_listed(keys: &[OsCode], j: u16) -> (r: bool) ensures r == listed(keys@, j) { unimplemented!() }

/// a release of the key pressed at index i comes later in the queue
spec fn released_later(q: Seq<Queued>, i: int) -> bool {
    exists|k: int| i < k < q.len() && (#[trigger] q[k]).event == Event::Release(q[i].event.coord_spec().0, q[i].event.coord_spec().1)
}
/// tap-hold-release-keys, from its documentation: the queued presses are looked at in order; a
/// press of a LISTED key means tap, right away; a press of another key that has also been released
/// means hold (the permissive-hold rule); otherwise the next press is looked at
spec fn release_keys(q: Seq<Queued>, keys: Seq<OsCode>, i: int) -> (Option<WaitingAction>, bool)
    decreases q.len() - i,
{
    if i < 0 || i >= q.len() { (None, false) }
    else if q[i].event is Press {
        if listed(keys, q[i].event.coord_spec().1) { (Some(WaitingAction::Tap), false) }
        else if released_later(q, i) { (Some(WaitingAction::Hold), false) }
        else { release_keys(q, keys, i + 1) }
    } else { release_keys(q, keys, i + 1) }
}
/// tap-hold-except-keys: only the FIRST queued press counts: a listed key means tap, any other key
/// leaves the decision to the release / timeout; with no press at all the timeout is switched off
spec fn except_keys(q: Seq<Queued>, keys: Seq<OsCode>, i: int) -> (Option<WaitingAction>, bool)
    decreases q.len() - i,
{
    if i < 0 || i >= q.len() { (None, true) }
    else if q[i].event is Press {
        if listed(keys, q[i].event.coord_spec().1) { (Some(WaitingAction::Tap), false) } else { (None, false) }
    } else { except_keys(q, keys, i + 1) }
}

//@ fragment parser/src/cfg/custom_tap_hold.rs fn custom_tap_hold_release block-after `move |mut queued: QueuedIter| -> (Option<WaitingAction>, bool) {` as release_keys_closure
//@@ header
#[verifier::loop_isolation(false)]
fn release_keys_closure(keys: &[OsCode], mut queued: QueuedIter) -> (Option<WaitingAction>, bool)
//@@ resub R43 1 /keys\.iter\(\)\.copied\(\)\.map\(u16::from\)\.any\(\|j2\| j2 == j\)/ => `verif_listed(keys, j)`
//@@ resub R12 1 /\.any\(\|q\| ([^{};]*)\) \{/ => `.any(|q: Queued| -> (b: bool) ensures b == (\1) { \1 }) {`
//@@ ret r
//@@ spec
    ensures r == release_keys(queued.rest(), keys@, 0),
//@@ before-re 1 /while let Some\(q\) = queued\.next\(\)/
    let ghost q0 = queued.rest();
//@@ loop 1
        invariant
            0 <= q0.len() - queued.rest().len() <= q0.len(),
            queued.rest() == q0.subrange(q0.len() - queued.rest().len(), q0.len() as int),
            release_keys(q0, keys@, 0) == release_keys(q0, keys@, q0.len() - queued.rest().len()),
        decreases queued.rest().len(),
//@@ before-re 1 /if q\.event\(\)\.is_press\(\) \{/
    let ghost p = q0.len() - queued.rest().len() - 1;
    proof { assert(q0[p] == *q); }
//@@ after-re 1 /if queued(?:\.clone\(\))?(?:\.copied\(\))?\.any\([^;]*?\}\) \{/
    proof {
        let rest = queued.rest();
        assert(exists|idx: int| 0 <= idx < rest.len() && (#[trigger] rest[idx]).event == target);
        let idx = choose|idx: int| 0 <= idx < rest.len() && (#[trigger] rest[idx]).event == target;
        assert(q0[p + 1 + idx] == rest[idx]);
        assert(released_later(q0, p));
    }
//@@ after-re 1 /if queued(?:\.clone\(\))?(?:\.copied\(\))?\.any\([^;]*?\}\) \{[^}]*\}/
    proof {
        let rest = queued.rest();
        assert(forall|jj: int| p < jj < q0.len() ==> (#[trigger] q0[jj]) == rest[jj - p - 1]);
        assert(forall|jj: int| p < jj < q0.len() ==> (#[trigger] q0[jj]).event != target);
        assert(!released_later(q0, p));
    }

//@ fragment parser/src/cfg/custom_tap_hold.rs fn custom_tap_hold_except block-after `move |mut queued: QueuedIter| -> (Option<WaitingAction>, bool) {` as except_keys_closure
//@@ header
#[verifier::loop_isolation(false)]
fn except_keys_closure(keys: &[OsCode], mut queued: QueuedIter) -> (Option<WaitingAction>, bool)
//@@ resub R43 1 /keys\.iter\(\)\.copied\(\)\.map\(u16::from\)\.any\(\|j2\| j2 == j\)/ => `verif_listed(keys, j)`
//@@ resub R44 1 /for q in queued\.by_ref\(\) \{/ => `while let Some(q) = queued.next() {`
//@@ ret r
//@@ spec
    ensures r == except_keys(queued.rest(), keys@, 0),
//@@ before-re 1 /while let Some\(q\) = queued\.next\(\)/
    let ghost q0 = queued.rest();
//@@ loop 1
        invariant
            0 <= q0.len() - queued.rest().len() <= q0.len(),
            queued.rest() == q0.subrange(q0.len() - queued.rest().len(), q0.len() as int),
            except_keys(q0, keys@, 0) == except_keys(q0, keys@, q0.len() - queued.rest().len()),
        decreases queued.rest().len(),
