//@ unit sexpr
// Side-car contract for the s-expression list builder parse_with (parser/src/cfg/sexpr.rs),
// property C03: "loading ... either succeeds or returns an error diagnostic ...; it never panics".
// parse_with contains three `.expect(..)`, and calls Span::cover, which asserts that both spans name
// the same file.  Proved here, for EVERY token stream (any length, any nesting, balanced or not):
// none of these can fire.  What is cut: the function up to (not including) its final
// `.into_iter().map(closure).collect()` (a FRAGMENT, head-until); the lexer that produces the tokens
// is not under contract (its tokens are arbitrary here, except that they all come from one file).

//@ raw
// ---- environment: opaque spans, tokens from one file -------------------------------------
#[verifier::external_body]
pub struct Span { verif_opaque: u8 }
impl Span {
    /// the file a span points into
    pub uninterp spec fn file(&self) -> int;
    #[verifier::external_body]
    pub fn default() -> (r: Span) { unimplemented!() }
    /// Span::cover asserts `self.file_name == other.file_name` (a panic otherwise): precondition
    #[verifier::external_body]
    pub fn cover(&self, other: &Span) -> (r: Span)
        requires self.file() == other.file(),
        ensures r.file() == self.file(),
    { unimplemented!() }
}
impl Clone for Span {
    #[verifier::external_body]
    fn clone(&self) -> (r: Span) ensures r.file() == self.file() { unimplemented!() }
}
#[verifier::external_body]
pub struct ParseError { verif_opaque: u8 }
impl ParseError {
    #[verifier::external_body]
    pub fn new<S>(span: Span, err_msg: S) -> ParseError { unimplemented!() }
}
type Result<T> = core::result::Result<T, ParseError>;
type TokenRes = core::result::Result<Token, String>;

//@ item parser/src/cfg/sexpr.rs enum Token
//@@ no-derives
//@ item parser/src/cfg/sexpr.rs struct Spanned
//@@ keep-vis
//@@ no-derives
//@ item parser/src/cfg/sexpr.rs fn new in `Spanned<T>`
//@@ wrap impl<T> Spanned<T>
//@@ keep-vis
//@@ ret r
//@@ spec
    ensures r.t == t, r.span == span,
//@ item parser/src/cfg/sexpr.rs enum SExpr
//@@ keep-vis
//@@ no-derives
//@ item parser/src/cfg/sexpr.rs enum SExprMetaData
//@@ keep-vis
//@@ no-derives

//@ raw
/// the token stream: every token carries a span of the file being parsed (the lexer is created for
/// one file); nothing else is assumed about it - any tokens, in any order, of any number
#[verifier::external_body]
pub struct VerifTokens { verif_opaque: u8 }
impl VerifTokens {
    pub uninterp spec fn file(&self) -> int;
    #[verifier::external_body]
    pub fn next(&mut self) -> (r: Option<Spanned<TokenRes>>)
        ensures final(self).file() == old(self).file(),
            r matches Some(tok) ==> tok.span.file() == old(self).file(),
    { unimplemented!() }
}
/// R28: `t.map_err(|s| ParseError::new(span.clone(), s))?` -> `verif_map_err(t, &span)?`
#[verifier::external_body]
fn verif_map_err(t: TokenRes, span: &Span) -> (r: Result<Token>)
    ensures t matches Ok(tok) ==> r == Result::<Token>::Ok(tok), t is Err ==> r is Err,
{ unimplemented!() }
/// R29: `s[span.clone()].to_string()` -> the text a span covers (string slicing by a Span: C03's Kani
/// harnesses cover Span positions; here it is opaque)
#[verifier::external_body]
fn verif_text(s: &str, span: &Span) -> String { unimplemented!() }
/// R27: `stack.last_mut().expect("not empty").t.push(e)` -> this helper; the `expect` becomes the
/// precondition "the stack is not empty", to be proved at every call site
#[verifier::external_body]
fn verif_push_top(stack: &mut Vec<Spanned<Vec<SExpr>>>, e: SExpr)
    requires old(stack)@.len() >= 1,
    ensures final(stack)@.len() == old(stack)@.len(),
        forall|i: int| 0 <= i < old(stack)@.len() ==> (#[trigger] final(stack)@[i]).span == old(stack)@[i].span,
{ unimplemented!() }

/// stack discipline of the builder: a placeholder frame at the bottom, above it one frame per
/// currently open parenthesis, each remembering the span of its `(` - a span of THIS file
spec fn stack_ok(stack: Seq<Spanned<Vec<SExpr>>>, file: int) -> bool {
    stack.len() >= 1 && forall|i: int| 1 <= i < stack.len() ==> (#[trigger] stack[i]).span.file() == file
}

//@ fragment parser/src/cfg/sexpr.rs fn parse_with head-until `let exprs = exprs` as parse_with_builder
//@@ header
#[verifier::exec_allows_no_decreases_clause]
fn parse_with_builder(s: &str, mut tokens: VerifTokens) -> Result<(Vec<SExpr>, Vec<SExprMetaData>)>
//@@ tail
    Ok((exprs, metadata))
//@@ resub R28 1 /t\.map_err\(\|s\| ParseError::new\(span\.clone\(\), s\)\)\?/ => `verif_map_err(t, &span)?`
//@@ resub R29 + /s\[span\.clone\(\)\]\.to_string\(\)/ => `verif_text(s, &span)`
//@@ resub R27 + /stack\s*\.last_mut\(\)\s*\.expect\("not empty"\)\s*\.t\s*\.push\(/ => `verif_push_top(&mut stack, `
//@@ loop 1
        invariant
            stack_ok(stack@, tokens.file()),
