//@ unit dynmacro
// Side-car contracts for src/kanata/dynamic_macro.rs (properties C19, C02).
// The file's own `use` lines are not extracted; the generated file imports the std
// containers instead (R3: rustc_hash::FxHashSet<T> -> std::collections::HashSet<T>, whose
// contract in vstd does not depend on the hasher).

//@ raw
use std::collections::VecDeque;
// R3: the file's `use rustc_hash::FxHashSet as HashSet;` is resolved to this type, which carries the
// ASSUMED contract of a hash set (mathematical set view; by-value iteration yields every element
// exactly once, in an unspecified order).
#[verifier::external_body]
#[verifier::reject_recursive_types(T)]
pub struct HashSet<T> { v: Vec<T> }
impl<T> HashSet<T> {
    pub uninterp spec fn view(&self) -> Set<T>;
    #[verifier::external_body]
    pub fn default() -> (r: Self)
        ensures r.view() == Set::<T>::empty(),
    { unimplemented!() }
    #[verifier::external_body]
    pub fn insert(&mut self, x: T) -> (r: bool)
        ensures final(self).view() == old(self).view().insert(x),
    { unimplemented!() }
    #[verifier::external_body]
    pub fn remove(&mut self, x: &T) -> (r: bool)
        ensures final(self).view() == old(self).view().remove(*x),
    { unimplemented!() }
    #[verifier::external_body]
    pub fn into_iter(self) -> (r: Vec<T>)
        ensures r@.no_duplicates(), forall|x: T| #[trigger] r@.contains(x) == self.view().contains(x),
    { unimplemented!() }
    #[verifier::external_body]
    pub fn contains(&self, x: &T) -> (r: bool)
        ensures r == self.view().contains(*x),
    { unimplemented!() }
}
// R3: `rustc_hash::FxHashMap as HashMap` -> this type, ASSUMED contract of a map lookup
#[verifier::external_body]
#[verifier::reject_recursive_types(K)]
#[verifier::reject_recursive_types(V)]
pub struct HashMap<K, V> { v: Vec<(K, V)> }
impl<K, V> HashMap<K, V> {
    pub uninterp spec fn view(&self) -> Map<K, V>;
    #[verifier::external_body]
    pub fn get(&self, k: &K) -> (r: Option<&V>)
        ensures
            self.view().contains_key(*k) ==> r == Some(&self.view()[*k]),
            !self.view().contains_key(*k) ==> r.is_none(),
    { unimplemented!() }
}
/// R17: `items.iter().copied()[.rev()]` -> the items front to back / back to front (ASSUMED meaning of
/// iter / copied / rev; which of the two is read from the source text)
#[verifier::external_body]
fn verif_items_rev<T: Copy>(items: &Vec<T>) -> (r: Vec<T>)
    ensures r@ == items@.reverse(),
{ unimplemented!() }
#[verifier::external_body]
fn verif_items_fwd<T: Copy>(items: &Vec<T>) -> (r: Vec<T>)
    ensures r@ == items@,
{ unimplemented!() }

//@ item parser/src/keys/mod.rs enum OsCode
//@@ keep-vis
//@ item keyberon/src/layout.rs enum Event
//@@ keep-vis
//@ item parser/src/cfg/defcfg.rs enum ReplayDelayBehaviour
//@@ keep-vis

//@ raw
// OsCode -> u16 is the real conversion chain: From<OsCode> for u16 -> as_u16 -> as_u16_linux
impl vstd::std_specs::convert::FromSpecImpl<OsCode> for u16 {
    open spec fn obeys_from_spec() -> bool { true }
    open spec fn from_spec(item: OsCode) -> Self { item as u16 }
}

//@ item parser/src/keys/linux.rs fn as_u16_linux in `OsCode`
//@@ wrap impl OsCode
//@@ sig Rconst `const fn` => `fn`
//@@ ret r
//@@ spec
    ensures r == self as u16,
//@ item parser/src/keys/mod.rs fn as_u16 in `OsCode`
//@@ wrap impl OsCode
//@@ ret r
//@@ spec
    ensures r == self as u16,
//@ item parser/src/keys/mod.rs fn from in `From<OsCode> for u16`
//@@ wrap impl From<OsCode> for u16

//@ item src/kanata/dynamic_macro.rs enum DynamicMacroItem
//@ item src/kanata/dynamic_macro.rs struct DynamicMacroReplayState
//@ item src/kanata/dynamic_macro.rs struct DynamicMacroRecordState
//@ item src/kanata/dynamic_macro.rs enum WaitingEventType
//@ item src/kanata/dynamic_macro.rs struct ReplayEvent
//@ item src/kanata/dynamic_macro.rs struct ReplayBehaviour

//@ raw
// ---------------------------------------------------------------------------------------
// Abstract view of a recorder: the sequence of key events typed so far (the one-event lag
// folded in), each with the delay that preceded the *next* event.
// ---------------------------------------------------------------------------------------
spec fn item_of(ev: (OsCode, WaitingEventType), delay: u16) -> DynamicMacroItem {
    match ev.1 {
        WaitingEventType::Press => DynamicMacroItem::Press((ev.0, delay)),
        WaitingEventType::Release => DynamicMacroItem::Release((ev.0, delay)),
    }
}
spec fn typed(s: DynamicMacroRecordState) -> Seq<DynamicMacroItem> {
    match s.waiting_event {
        Some(ev) => s.macro_items@.push(item_of(ev, s.current_delay)),
        None => s.macro_items@,
    }
}
/// is key k down after the events in `items`?
spec fn down_after(items: Seq<DynamicMacroItem>, k: OsCode) -> bool
    decreases items.len(),
{
    if items.len() == 0 {
        false
    } else {
        match items.last() {
            DynamicMacroItem::Press((o, _)) => if o == k { true } else { down_after(items.drop_last(), k) },
            DynamicMacroItem::Release((o, _)) => if o == k { false } else { down_after(items.drop_last(), k) },
            DynamicMacroItem::EndMacro(_) => down_after(items.drop_last(), k),
        }
    }
}
/// `rel` is exactly one zero-delay release for every key still down after `items`
spec fn rel_ok(items: Seq<DynamicMacroItem>, rel: Seq<DynamicMacroItem>) -> bool {
    &&& forall|i: int| 0 <= i < rel.len() ==> (#[trigger] rel[i] matches DynamicMacroItem::Release((k, d)) && d == 0 && down_after(items, k))
    &&& forall|k: OsCode| #[trigger] down_after(items, k) ==> rel.contains(DynamicMacroItem::Release((k, 0u16)))
    &&& forall|i: int, j: int| 0 <= i < j < rel.len() ==> rel[i] != rel[j]
}
spec fn closed_by(old_items: Seq<DynamicMacroItem>, new_items: Seq<DynamicMacroItem>) -> bool {
    &&& new_items.len() >= old_items.len()
    &&& new_items.subrange(0, old_items.len() as int) == old_items
    &&& rel_ok(old_items, new_items.subrange(old_items.len() as int, new_items.len() as int))
}
/// the recording that stop/begin hand back: typed events minus the last one (the stop key)
/// minus `n` more from the end
spec fn kept(s: DynamicMacroRecordState, n: int) -> Seq<DynamicMacroItem> {
    let t = typed(s);
    let t1 = if t.len() > 0 { t.drop_last() } else { t };
    let m = if t1.len() - n > 0 { t1.len() - n } else { 0 };
    t1.subrange(0, m)
}

// "Any key still down when recording stopped is released at the end of the replay":
// after appending a release for k, k is up, and other keys are unaffected.
proof fn lemma_release_appended(items: Seq<DynamicMacroItem>, k: OsCode, j: OsCode)
    ensures
        !down_after(items.push(DynamicMacroItem::Release((k, 0u16))), k),
        j != k ==> down_after(items.push(DynamicMacroItem::Release((k, 0u16))), j) == down_after(items, j),
{
    let x = items.push(DynamicMacroItem::Release((k, 0u16)));
    assert(x.drop_last() == items);
}
proof fn lemma_all_released(items: Seq<DynamicMacroItem>, rel: Seq<DynamicMacroItem>, k: OsCode)
    requires
        forall|i: int| 0 <= i < rel.len() ==> (#[trigger] rel[i] matches DynamicMacroItem::Release((kk, d)) && true),
        down_after(items, k) ==> rel.contains(DynamicMacroItem::Release((k, 0u16))),
    ensures
        !down_after(items + rel, k),
    decreases rel.len(),
{
    if rel.len() == 0 {
        assert(items + rel == items);
        if down_after(items, k) {
            let i = choose|i: int| 0 <= i < rel.len() && rel[i] == DynamicMacroItem::Release((k, 0u16));
        }
    } else {
        let all = items + rel;
        assert(all.drop_last() == items + rel.drop_last());
        assert(all.last() == rel.last());
        match rel.last() {
            DynamicMacroItem::Release((o, _)) => {
                if o != k {
                    let r2 = rel.drop_last();
                    assert forall|i: int| 0 <= i < r2.len() implies (#[trigger] r2[i] matches DynamicMacroItem::Release((kk, d)) && true) by {
                        assert(r2[i] == rel[i]);
                    }
                    if down_after(items, k) {
                        let i = choose|i: int| 0 <= i < rel.len() && rel[i] == DynamicMacroItem::Release((k, 0u16));
                        assert(i < rel.len() - 1);
                        assert(r2[i] == DynamicMacroItem::Release((k, 0u16)));
                    }
                    lemma_all_released(items, r2, k);
                }
            }
            _ => { assert(rel[rel.len() - 1] == rel.last()); }
        }
    }
}

//@ item src/kanata/dynamic_macro.rs fn new in `DynamicMacroRecordState`
//@@ wrap impl DynamicMacroRecordState
//@@ ret r
//@@ spec
    ensures r.starting_macro_id == macro_id, r.waiting_event.is_none(), r.macro_items@.len() == 0, r.current_delay == 0,

//@ item src/kanata/dynamic_macro.rs fn add_release_for_all_unreleased_presses in `DynamicMacroRecordState`
//@@ wrap impl DynamicMacroRecordState
//@@ sub R10 1 `for item in self.macro_items.iter()` => `for item in it: self.macro_items.iter()`
//@@ sub R10 1 `for osc in pressed_oscs.into_iter()` => `for osc in it2: pressed_oscs.into_iter()`
//@@ spec
    // appends exactly one zero-delay release per key still down, in some order; touches nothing else
    ensures
        closed_by(old(self).macro_items@, final(self).macro_items@),
        final(self).starting_macro_id == old(self).starting_macro_id,
        final(self).waiting_event == old(self).waiting_event,
        final(self).current_delay == old(self).current_delay,
//@@ before 1 `for item in it: self.macro_items.iter()`
        let ghost items0 = self.macro_items@;
        proof {
            assert(items0.subrange(0, 0) =~= Seq::<DynamicMacroItem>::empty());
        }
//@@ loop 1
            invariant
                self.macro_items@ == items0,
                it.seq().len() == items0.len(),
                forall|i: int| 0 <= i < items0.len() ==> *(#[trigger] it.seq()[i]) == items0[i],
                self.starting_macro_id == old(self).starting_macro_id,
                self.waiting_event == old(self).waiting_event,
                self.current_delay == old(self).current_delay,
                0 <= it.index@ <= items0.len(),
                forall|k: OsCode| #[trigger] pressed_oscs@.contains(k) == down_after(items0.subrange(0, it.index@ as int), k),
//@@ after 1 `DynamicMacroItem::EndMacro(_) => {}\n            };`
            proof {
                let i = it.index@ as int;
                let pre = items0.subrange(0, i);
                let nxt = items0.subrange(0, i + 1);
                assert(nxt.drop_last() =~= pre);
                assert(nxt.last() == items0[i]);
            }
//@@ before 1 `for osc in it2: pressed_oscs.into_iter()`
        proof {
            assert(items0.subrange(0, items0.len() as int) =~= items0);
        }
        let ghost down = pressed_oscs@;
        let ghost mut done: Seq<OsCode> = Seq::empty();
//@@ loop 2
            invariant
                self.starting_macro_id == old(self).starting_macro_id,
                self.waiting_event == old(self).waiting_event,
                self.current_delay == old(self).current_delay,
                it2.seq().no_duplicates(),
                forall|x: OsCode| #[trigger] it2.seq().contains(x) == down.contains(x),
                forall|k: OsCode| #[trigger] down.contains(k) == down_after(items0, k),
                0 <= it2.index@ <= it2.seq().len(),
                done =~= it2.seq().subrange(0, it2.index@ as int),
                it2.seq().subrange(0, it2.seq().len() as int) =~= it2.seq(),
                self.macro_items@.len() == items0.len() + done.len(),
                self.macro_items@.subrange(0, items0.len() as int) =~= items0,
                forall|j: int| 0 <= j < done.len() ==> #[trigger] self.macro_items@[items0.len() + j] == DynamicMacroItem::Release((done[j], 0u16)),
//@@ after 1 `self.macro_items.push(DynamicMacroItem::Release((osc, 0)));`
            proof {
                done = done.push(osc);
            }
            proof {
                assert(it2.seq().subrange(0, it2.index@ + 1) =~= it2.seq().subrange(0, it2.index@ as int).push(it2.seq()[it2.index@ as int]));
                assert(it2.seq().subrange(0, it2.seq().len() as int) =~= it2.seq());
            }
//@@ after 1 `self.macro_items.push(DynamicMacroItem::Release((osc, 0))); }`
        proof {
            assert forall|k: OsCode| #[trigger] done.contains(k) == down_after(items0, k) by {
                assert(down.contains(k) == down_after(items0, k));
            }
            lemma_closed(items0, self.macro_items@, done);
        }

//@ raw
proof fn lemma_closed(items0: Seq<DynamicMacroItem>, fin: Seq<DynamicMacroItem>, ks: Seq<OsCode>)
    requires
        fin.len() == items0.len() + ks.len(),
        fin.subrange(0, items0.len() as int) =~= items0,
        forall|j: int| 0 <= j < ks.len() ==> #[trigger] fin[items0.len() + j] == DynamicMacroItem::Release((ks[j], 0u16)),
        ks.no_duplicates(),
        forall|k: OsCode| #[trigger] ks.contains(k) == down_after(items0, k),
    ensures closed_by(items0, fin),
{
    let n0 = items0.len() as int;
    let rel = fin.subrange(n0, fin.len() as int);
    assert forall|i: int| 0 <= i < rel.len() implies (#[trigger] rel[i] matches DynamicMacroItem::Release((k, d)) && d == 0 && down_after(items0, k)) by {
        assert(rel[i] == fin[n0 + i]);
        assert(ks.contains(ks[i]));
    }
    assert forall|k: OsCode| #[trigger] down_after(items0, k) implies rel.contains(DynamicMacroItem::Release((k, 0u16))) by {
        assert(ks.contains(k));
        let i = choose|i: int| 0 <= i < ks.len() && ks[i] == k;
        assert(rel[i] == fin[n0 + i]);
    }
    assert forall|i: int, j: int| 0 <= i < j < rel.len() implies rel[i] != rel[j] by {
        assert(rel[i] == fin[n0 + i] && rel[j] == fin[n0 + j]);
        assert(ks[i] != ks[j]);
    }
}

//@ item src/kanata/dynamic_macro.rs fn add_event in `DynamicMacroRecordState`
//@@ wrap impl DynamicMacroRecordState
//@@ spec
    ensures
        // the event that was pending is now stored with the delay accumulated since it arrived,
        // the new one is pending, and the delay counter restarts
        final(self).macro_items@ == typed(*old(self)),
        final(self).waiting_event == Some((osc, evtype)),
        final(self).current_delay == 0,
        final(self).starting_macro_id == old(self).starting_macro_id,
        typed(*final(self)) == typed(*old(self)).push(item_of((osc, evtype), 0)),

//@ item src/kanata/dynamic_macro.rs fn key_event in `ReplayEvent`
//@@ wrap impl ReplayEvent
//@@ ret r
//@@ spec
    ensures r == self.0,
//@ item src/kanata/dynamic_macro.rs fn delay in `ReplayEvent`
//@@ wrap impl ReplayEvent
//@@ ret r
//@@ spec
    ensures r == self.1,

//@ item src/kanata/dynamic_macro.rs fn tick_record_state
//@@ spec
    ensures
        old(record_state).is_none() ==> final(record_state).is_none(),
        old(record_state).is_some() ==> final(record_state).is_some() && ({
            let a = old(record_state).unwrap(); let b = final(record_state).unwrap();
            &&& b.current_delay as int == (if a.current_delay < 65535 { a.current_delay + 1 } else { 65535 })
            &&& b.macro_items@ == a.macro_items@ && b.waiting_event == a.waiting_event && b.starting_macro_id == a.starting_macro_id
        }),

//@ raw
spec fn paced(b: ReplayBehaviour, recorded: u16) -> u16 {
    match b.delay { ReplayDelayBehaviour::Constant => 0u16, ReplayDelayBehaviour::Recorded => recorded }
}
spec fn next_wait(b: ReplayBehaviour, recorded: u16) -> u16 {
    match b.delay { ReplayDelayBehaviour::Constant => 5u16, ReplayDelayBehaviour::Recorded => recorded }
}

//@ item src/kanata/dynamic_macro.rs fn tick_replay_state
//@@ ret r
//@@ spec
    ensures
        old(replay_state).is_none() ==> r.is_none() && final(replay_state).is_none(),
        old(replay_state).is_some() ==> ({
            let a = old(replay_state).unwrap();
            let d = if a.delay_remaining > 0 { (a.delay_remaining - 1) as u16 } else { 0u16 };
            if d != 0 {
                // still waiting: nothing is emitted, nothing but the countdown changes
                &&& r.is_none() && final(replay_state).is_some()
                &&& final(replay_state).unwrap().delay_remaining == d
                &&& final(replay_state).unwrap().macro_items@ == a.macro_items@
                &&& final(replay_state).unwrap().active_macros@ == a.active_macros@
            } else if a.macro_items@.len() == 0 {
                // queue exhausted: replay ends and the state is cleared
                r.is_none() && final(replay_state).is_none()
            } else {
                // exactly the first queued item is consumed, in order
                let b = final(replay_state).unwrap();
                &&& final(replay_state).is_some()
                &&& b.macro_items@ == a.macro_items@.subrange(1, a.macro_items@.len() as int)
                &&& match a.macro_items@[0] {
                    DynamicMacroItem::Press((k, dl)) =>
                        r == Some(ReplayEvent(Event::Press(0, k as u16), paced(replay_behaviour, dl)))
                        && b.delay_remaining == next_wait(replay_behaviour, dl) && b.active_macros@ == a.active_macros@,
                    DynamicMacroItem::Release((k, dl)) =>
                        r == Some(ReplayEvent(Event::Release(0, k as u16), paced(replay_behaviour, dl)))
                        && b.delay_remaining == next_wait(replay_behaviour, dl) && b.active_macros@ == a.active_macros@,
                    DynamicMacroItem::EndMacro(id) =>
                        r.is_none() && b.delay_remaining == 5 && b.active_macros@ == a.active_macros@.remove(id),
                }
            }
        }),

//@ item src/kanata/dynamic_macro.rs fn begin_record_macro
//@@ ret r
//@@ spec
    ensures
        // C02: no precondition -- must not panic for ANY recorder state
        old(record_state).is_none() ==> r.is_none() && final(record_state).is_some() && ({
            let b = final(record_state).unwrap();
            b.starting_macro_id == macro_id && typed(b).len() == 0 && b.current_delay == 0
        }),
        old(record_state).is_some() ==> ({
            let a = old(record_state).unwrap();
            &&& r.is_some() && r.unwrap().0 == a.starting_macro_id
            &&& closed_by(kept(a, 0), r.unwrap().1@)
            &&& (a.starting_macro_id == macro_id ==> final(record_state).is_none())
            &&& (a.starting_macro_id != macro_id ==> final(record_state).is_some() && ({
                    let b = final(record_state).unwrap();
                    b.starting_macro_id == macro_id && typed(b).len() == 0 && b.current_delay == 0 }))
        }),

//@@ before 1 `state.add_release_for_all_unreleased_presses();`
    proof {
        let a = old(record_state).unwrap();
        let t = typed(a);
        let t1 = if t.len() > 0 { t.drop_last() } else { t };
        assert(state.macro_items@ =~= t1);
        assert(t1.subrange(0, t1.len() as int) =~= t1);
        assert(kept(a, 0) =~= t1);
    }

//@ item src/kanata/dynamic_macro.rs fn record_press
//@@ ret r
//@@ spec
    ensures
        old(record_state).is_none() ==> r.is_none() && final(record_state).is_none(),
        old(record_state).is_some() ==> ({
            let a = old(record_state).unwrap();
            if a.macro_items@.len() > 2 * (max_presses as int) {
                // "recording stops by itself at the configured size limit"
                &&& final(record_state).is_none()
                &&& r.is_some() && r.unwrap().0 == a.starting_macro_id
                &&& closed_by(a.macro_items@, r.unwrap().1@)
            } else {
                &&& r.is_none() && final(record_state).is_some()
                &&& typed(final(record_state).unwrap()) == typed(a).push(DynamicMacroItem::Press((osc, 0u16)))
                &&& final(record_state).unwrap().macro_items@ == typed(a)
                &&& final(record_state).unwrap().starting_macro_id == a.starting_macro_id
                &&& final(record_state).unwrap().current_delay == 0
            }
        }),

//@ item src/kanata/dynamic_macro.rs fn record_release
//@@ spec
    ensures
        old(record_state).is_none() ==> final(record_state).is_none(),
        old(record_state).is_some() ==> final(record_state).is_some() && ({
            let a = old(record_state).unwrap();
            &&& typed(final(record_state).unwrap()) == typed(a).push(DynamicMacroItem::Release((osc, 0u16)))
            &&& final(record_state).unwrap().macro_items@ == typed(a)
            &&& final(record_state).unwrap().starting_macro_id == a.starting_macro_id
            &&& final(record_state).unwrap().current_delay == 0
        }),

//@ item src/kanata/dynamic_macro.rs fn stop_macro
//@@ ret r
//@@ spec
    ensures
        // C02: no precondition -- must not panic for ANY recorder state
        final(record_state).is_none(),
        old(record_state).is_none() ==> r.is_none(),
        old(record_state).is_some() ==> ({
            let a = old(record_state).unwrap();
            &&& r.is_some() && r.unwrap().0 == a.starting_macro_id
            // typed events, minus the stop key, minus the truncated tail, then the releases
            &&& closed_by(kept(a, num_actions_to_remove as int), r.unwrap().1@)
        }),

//@@ before 1 `state.add_release_for_all_unreleased_presses();`
    proof {
        let a = old(record_state).unwrap();
        assert(state.macro_items@ =~= kept(a, num_actions_to_remove as int));
    }

//@ raw
// ---------------------------------------------------------------------------------------
// Lemma over the contracts: what is recorded is what is replayed, in order.
// replay_trace(items) = the Press/Release events tick_replay_state emits when called until
// the queue is empty (EndMacro markers emit nothing).
// ---------------------------------------------------------------------------------------
spec fn event_of(i: DynamicMacroItem) -> Option<Event> {
    match i {
        DynamicMacroItem::Press((k, _)) => Some(Event::Press(0, k as u16)),
        DynamicMacroItem::Release((k, _)) => Some(Event::Release(0, k as u16)),
        DynamicMacroItem::EndMacro(_) => None,
    }
}
/// one exec step of replay composed from the contract of tick_replay_state only
fn replay_step_emits_head(st: &mut Option<DynamicMacroReplayState>, b: ReplayBehaviour) -> (r: Option<ReplayEvent>)
    requires old(st).is_some(), old(st).unwrap().delay_remaining <= 1, old(st).unwrap().macro_items@.len() > 0,
    ensures
        final(st).is_some(),
        final(st).unwrap().macro_items@ == old(st).unwrap().macro_items@.drop_first(),
        match event_of(old(st).unwrap().macro_items@[0]) {
            Some(e) => r.is_some() && r.unwrap().0 == e,
            None => r.is_none(),
        },
{
    let r = tick_replay_state(st, b);
    proof {
        let a = old(st).unwrap();
        assert(a.macro_items@.subrange(1, a.macro_items@.len() as int) == a.macro_items@.drop_first());
    }
    r
}


// ---------------------------------------------------------------------------------------
// play_macro, nested arm (a FRAGMENT: the `Some(state) => { .. }` arm; the `None` arm builds the
// state inside a closure passed to Option::map and stays outside).  C19: "a macro never replays
// itself recursively" and nested play = the other macro's items, then its end marker, then the
// rest of the current replay.
// ---------------------------------------------------------------------------------------
//@ fragment src/kanata/dynamic_macro.rs fn play_macro block-after `Some(state) => {` as play_macro_nested
//@@ header
fn play_macro_nested(macro_id: u16, state: &mut DynamicMacroReplayState, recorded_macros: &HashMap<u16, Vec<DynamicMacroItem>>)
//@@ resub R17 1 /for item in items\.iter\(\)\.copied\(\)(?:\.(rev)\(\))?/ => `for item in it: verif_items_\1(items)` default `fwd`
//@@ spec
    ensures
        final(state).delay_remaining == old(state).delay_remaining,
        // already playing (it is its own ancestor): refused, nothing changes
        old(state).active_macros@.contains(macro_id) ==>
            final(state).active_macros@ == old(state).active_macros@ && final(state).macro_items@ == old(state).macro_items@,
        // unknown macro: nothing changes
        !old(state).active_macros@.contains(macro_id) && !recorded_macros@.contains_key(macro_id) ==>
            final(state).active_macros@ == old(state).active_macros@ && final(state).macro_items@ == old(state).macro_items@,
        // otherwise its items are played next, in recorded order, it counts as active until its end
        // marker - which comes right after its last item - and the interrupted replay continues
        !old(state).active_macros@.contains(macro_id) && recorded_macros@.contains_key(macro_id) ==>
            final(state).active_macros@ == old(state).active_macros@.insert(macro_id)
            && final(state).macro_items@ == recorded_macros@[macro_id]@ + seq![DynamicMacroItem::EndMacro(macro_id)] + old(state).macro_items@,
//@@ loop 1
        invariant
            it.seq() == items@.reverse(), 0 <= it.index@ <= items@.len(),
            state.delay_remaining == old(state).delay_remaining,
            state.active_macros@ == old(state).active_macros@.insert(macro_id),
            state.macro_items@ == items@.subrange(items@.len() - it.index@, items@.len() as int) + seq![DynamicMacroItem::EndMacro(macro_id)] + old(state).macro_items@,
//@@ after-re 1 /state\.macro_items\.push_front\(item\);/
    proof {
        let n = items@.len() as int;
        let i = it.index@ as int;
        assert(item == items@[n - 1 - i]);
        assert(items@.subrange(n - i - 1, n) =~= seq![item] + items@.subrange(n - i, n));
        assert(state.macro_items@ =~= items@.subrange(n - i - 1, n) + seq![DynamicMacroItem::EndMacro(macro_id)] + old(state).macro_items@);
    }

// ---------------------------------------------------------------------------------------
// play_macro, fresh replay (a FRAGMENT: the `None => { .. }` arm).  The closure handed to Option::map
// builds the replay state; it is given a hand-written `ensures` (R35) and is VERIFIED against it.
// ---------------------------------------------------------------------------------------
//@ raw
/// R36: `macro_items.clone().into()` (Vec -> VecDeque) -> this helper (ASSUMED: same items, same order)
#[verifier::external_body]
fn verif_to_deque(v: &Vec<DynamicMacroItem>) -> (r: VecDeque<DynamicMacroItem>)
    ensures r@ == v@,
{ unimplemented!() }

//@ fragment src/kanata/dynamic_macro.rs fn play_macro block-after `None => {` as play_macro_fresh
//@@ header
fn play_macro_fresh(macro_id: u16, replay_state: &mut Option<DynamicMacroReplayState>, recorded_macros: &HashMap<u16, Vec<DynamicMacroItem>>)
//@@ resub R35 1 /\.map\(\|macro_items\| \{/ => `.map(|macro_items: &Vec<DynamicMacroItem>| -> (st: DynamicMacroReplayState) ensures st.active_macros@ == Set::<u16>::empty().insert(macro_id), st.delay_remaining == 0, st.macro_items@ == macro_items@ {`
//@@ resub R36 1 /macro_items\.clone\(\)\.into\(\)/ => `verif_to_deque(macro_items)`
//@@ spec
    ensures
        // an unknown macro: nothing is replayed
        !recorded_macros@.contains_key(macro_id) ==> *final(replay_state) is None,
        // a recorded macro: it is replayed from its first item, it alone counts as active (so that it
        // cannot play itself), and the first item goes out on the next tick
        recorded_macros@.contains_key(macro_id) ==> *final(replay_state) is Some
            && (*final(replay_state)).unwrap().macro_items@ == recorded_macros@[macro_id]@
            && (*final(replay_state)).unwrap().active_macros@ == Set::<u16>::empty().insert(macro_id)
            && (*final(replay_state)).unwrap().delay_remaining == 0,
