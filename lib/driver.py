#!/usr/bin/env python3
"""check <Cxx> [--tier quick|thorough] [--replay <file>] [--keep]

Contract-based deductive verification driver (see /verif/DESIGN.md section 3).

exit 0  every obligation of the property discharged on /repo's working tree
exit 1  a named obligation got a *verifier verdict* of failure  -> VIOLATION line
exit 2  undecided (anchor lost, unsupported construct, timeout, tool crash,
        vacuity guard tripped) -> UNDECIDED line, never a VIOLATION
"""
import concurrent.futures as cf
import hashlib
import json
import os
import re
import shutil
import subprocess
import sys
import time

HERE = os.path.dirname(os.path.abspath(__file__))
VERIF = os.path.dirname(HERE)
sys.path.insert(0, HERE)

import verusgen  # noqa: E402
from rustcut import ExtractionLost  # noqa: E402
import props  # noqa: E402

REPO = os.environ.get('VERIF_REPO', '/repo')
CACHE = os.environ.get('VERIF_CACHE', '/var/tmp/kverif-cache')
WORKROOT = os.environ.get('VERIF_WORK', '/var/tmp/kverif-work')
OUT = os.environ.get('VERIF_OUT', VERIF)   # where evidence/ and replay/ are written (mutation runs redirect it)

ENV = dict(os.environ)
ENV['CARGO_NET_OFFLINE'] = 'true'
ENV.pop('RUSTUP_TOOLCHAIN', None)
# the front end of Verus (rustc) overflows its default stack on the largest generated unit (switch, ~2900 lines)
ENV.setdefault('RUST_MIN_STACK', str(256 * 1024 * 1024))


def log(*a):
    print(*a, file=sys.stderr, flush=True)


def sh(cmd, cwd=None, timeout=None, env=None, stdin=None):
    t0 = time.time()
    try:
        p = subprocess.run(cmd, cwd=cwd, env=env or ENV, stdout=subprocess.PIPE, stderr=subprocess.PIPE,
                           timeout=timeout, text=True, errors='replace', input=stdin)
        return p.returncode, p.stdout, p.stderr, time.time() - t0
    except subprocess.TimeoutExpired as e:
        out = e.stdout.decode(errors='replace') if isinstance(e.stdout, bytes) else (e.stdout or '')
        err = e.stderr.decode(errors='replace') if isinstance(e.stderr, bytes) else (e.stderr or '')
        return 'timeout', out, err, time.time() - t0


# ----------------------------------------------------------------------------------------
# Verus
# ----------------------------------------------------------------------------------------

def run_verus_file(path, rlimit=None, timeout=900, multiple_errors=10):
    cmd = ['bash', '-c',
           'ulimit -s unlimited 2>/dev/null; export RUST_MIN_STACK=1073741824; exec verus "$0" --output-json --time '
           '--multiple-errors %d --error-format=json --rlimit %s' % (multiple_errors, rlimit or 40), path]
    rc, out, err, wall = sh(cmd, cwd=os.path.dirname(path), timeout=timeout)
    res = {'rc': rc, 'wall_s': round(wall, 2), 'diagnostics': [], 'functions': {}, 'raw_err': ''}
    if rc == 'timeout':
        res['status'] = 'timeout'
        return res
    js = None
    try:
        js = json.loads(out[out.index('{'):])
    except Exception:
        pass
    for line in err.split('\n'):
        line = line.strip()
        if line.startswith('{'):
            try:
                d = json.loads(line)
            except Exception:
                continue
            if d.get('level') in ('error', 'warning') and d.get('spans'):
                # only spans inside the generated file can be mapped back (a failed trait-level
                # postcondition has its primary span inside vstd)
                base = os.path.basename(path)
                local = [s for s in d['spans'] if os.path.basename(s.get('file_name', '')) == base]
                sp = [s for s in local if s.get('is_primary')] or local
                if not sp:
                    res['diagnostics'].append({'level': d['level'], 'message': d['message'], 'line': 0, 'text': '', 'rendered': d.get('rendered', '')})
                    continue
                res['diagnostics'].append({'level': d['level'], 'message': d['message'],
                                           'line': sp[0]['line_start'], 'text': (sp[0].get('text') or [{}])[0].get('text', '').strip(),
                                           'rendered': d.get('rendered', '')})
            elif d.get('level') == 'error':
                res['diagnostics'].append({'level': 'error', 'message': d['message'], 'line': 0, 'text': '', 'rendered': d.get('rendered', '')})
        elif line:
            res['raw_err'] += line + '\n'
    if js is None:
        res['status'] = 'crash'
        return res
    vr = js.get('verification-results', {})
    res['verified'] = vr.get('verified', 0)
    res['errors'] = vr.get('errors', 0)
    res['vir_error'] = vr.get('encountered-vir-error', False)
    smt = js.get('times-ms', {}).get('smt', {})
    res['smt_ms'] = smt.get('smt-run', 0)
    for mod in smt.get('smt-run-module-times', []):
        for fb in mod.get('function-breakdown', []):
            name = fb['function'].split('::', 1)[1] if '::' in fb['function'] else fb['function']
            res['functions'][name] = {'success': fb.get('success', False), 'ms': fb.get('time', 0), 'rlimit': fb.get('rlimit', 0),
                                      'mode': fb.get('mode:', fb.get('mode', ''))}
    res['version'] = js.get('verus', {}).get('version', '')
    if vr.get('success'):
        res['status'] = 'ok'
    elif res['errors'] > 0 and not res['vir_error'] and 'verified' in vr:
        res['status'] = 'failed'
    else:
        res['status'] = 'rejected'   # rustc / VIR error: unsupported construct, type error ...
    return res


def verus_unit(unit, workdir):
    """Returns dict: status ok|failed|undecided, obligations[], failures[], ..."""
    spec = os.path.join(VERIF, 'contracts', unit + '.spec.rs')
    r = {'unit': unit, 'backend': 'verus', 'obligations': [], 'failures': [], 'undecided': None}
    try:
        g = verusgen.build(REPO, spec)
    except ExtractionLost as e:
        r['undecided'] = 'extraction lost: %s' % e
        return r
    except FileNotFoundError as e:
        r['undecided'] = 'source file missing: %s' % e
        return r
    path = os.path.join(workdir, unit + '.rs')
    open(path, 'w').write(g.text())
    r['generated'] = path
    r['rewrites'] = g.rewrites
    r['trusted'] = g.trusted
    r['items'] = [{k: d[k] for k in ('name', 'kind', 'path', 'src_line', 'sha256') if k in d} for d in g.items]
    # vacuity twin: every contracted exec fn gets `ensures false` appended; each must FAIL
    spec_items = [d['name'] for d in g.items if d.get('has_spec')]
    extra = {n: ['    ensures false,'] if True else [] for n in spec_items}
    try:
        gv = verusgen.build(REPO, spec, extra_spec=_vacuity_extra(spec, spec_items))
        vpath = os.path.join(workdir, unit + '_vacuity.rs')
        open(vpath, 'w').write(gv.text())
    except ExtractionLost as e:
        r['undecided'] = 'extraction lost (vacuity twin): %s' % e
        return r
    # reachability twin: an unprovable probe `assert(verif_reach(k))` at the entry of every contracted
    # function, before every inserted proof block and at the start of every annotated loop body.  Each
    # probe must FAIL: one that verifies sits at a point whose context is contradictory (e.g. an
    # inconsistent assumed contract of a stub), i.e. everything "proved" after it is vacuous.
    try:
        gr = verusgen.build(REPO, spec, reach=True)
        rpath = os.path.join(workdir, unit + '_reach.rs')
        open(rpath, 'w').write(gr.text())
    except ExtractionLost as e:
        r['undecided'] = 'extraction lost (reach twin): %s' % e
        return r
    with cf.ThreadPoolExecutor(3) as ex:
        f1 = ex.submit(run_verus_file, path)
        f2 = ex.submit(run_verus_file, vpath)
        f3 = ex.submit(run_verus_file, rpath, None, 900, 2000)
        res, vres, rres = f1.result(), f2.result(), f3.result()
    r['reach'] = {'probes': len(gr.reach), 'reached': 0, 'unreached': []}
    if rres['status'] in ('timeout', 'crash'):
        r['undecided'] = r['undecided'] or 'reach twin: verus %s' % rres['status']
    elif rres['status'] == 'rejected':
        r['undecided'] = r['undecided'] or 'reach twin: verus rejected the probe file: %s' % '; '.join(d['message'] for d in rres['diagnostics'][:2])
    else:
        hit = set()
        for d in rres['diagnostics']:
            m_ = re.search(r'verif_reach\((\d+)\)', d.get('text', '') or '') or re.search(r'assert\(verif_reach\((\d+)\)\)', d.get('rendered', '') or '')
            if d['level'] == 'error' and m_:
                hit.add(int(m_.group(1)))
        r['reach']['reached'] = len(hit)
        r['reach']['unreached'] = ['%s: %s' % (fn_, desc) for (k_, fn_, desc) in gr.reach if k_ not in hit]
    r['wall_s'] = res['wall_s']
    r['smt_ms'] = res.get('smt_ms', 0)
    r['version'] = res.get('version', '')
    if res['status'] in ('timeout', 'crash', 'rejected'):
        msgs = '; '.join(d['message'] for d in res['diagnostics'][:3]) or res['raw_err'][:300]
        r['undecided'] = 'verus %s: %s' % (res['status'], msgs)
        r['diagnostics'] = res['diagnostics'][:10]
        # an `assert(..) by(compute_only)` that evaluates to false is a verdict on the enclosing
        # proof function, although Verus then stops before looking at the rest of the unit
        for d in res['diagnostics']:
            if d['level'] == 'error' and 'expression simplifies to false' in d['message'] and d['line']:
                it, org = g.locate(d['line'])
                name = _enclosing_fn(g, d['line'])
                r['obligations'].append({'id': '%s/%s' % (unit, name), 'backend': 'verus', 'ok': False, 'ms': 0, 'kind': 'proof'})
                r['failures'].append({'obligation': '%s/%s' % (unit, name), 'function': name,
                                      'details': [{'message': d['message'] + ' (assert by(compute_only) evaluated to false)', 'gen_line': d['line'],
                                                   'origin': list(org), 'text': d['text'], 'rendered': d['rendered']}]})
        return r
    # attribute diagnostics to items
    fails = {}
    for d in res['diagnostics']:
        if d['level'] != 'error' or not d['line']:
            continue
        it, org = g.locate(d['line'])
        name = it['name'] if it else _enclosing_fn(g, d['line'])
        fails.setdefault(name, []).append({'message': d['message'], 'gen_line': d['line'], 'origin': list(org),
                                           'text': d['text'], 'rendered': d['rendered']})
    # resource-limit / solver-crash failures are undecided, never violations: drop them from the
    # failure set and remember them
    rl_fns = set()
    for name, fl in list(fails.items()):
        if fl and all(re.search(r'resource limit|rlimit|solver|z3 (crash|exit)|timed? ?out', f['message'], flags=re.I) for f in fl):
            r['undecided'] = 'verus resource limit / solver problem in %s: %s' % (name, fl[0]['message'][:120])
            rl_fns.add(name)
            del fails[name]
    for dgn in res['diagnostics']:
        if dgn['level'] == 'error' and re.search(r'resource limit|rlimit exceeded', dgn['message'], flags=re.I):
            r['undecided'] = r['undecided'] or 'verus: %s' % dgn['message'][:160]
    fnres = res['functions']
    gen_fns = _all_fn_names(g)
    seen_short = set()
    for full, fr in sorted(fnres.items()):
        short = full.split('::')[-1]
        if short not in gen_fns:
            continue   # derived Clone impls, consts ...
        seen_short.add(short)
        okf = bool(fr['success']) and short not in fails
        ob = {'id': '%s/%s' % (unit, short), 'backend': 'verus', 'ok': okf, 'ms': fr['ms'], 'kind': gen_fns[short], 'verus_name': full}
        r['obligations'].append(ob)
        if not okf and (short in rl_fns or (r['undecided'] and short not in fails)):
            # unsuccessful without a verdict we can point at (resource limit): undecided
            ob['note'] = 'undecided (resource limit / no attributable verdict)'
            r['undecided'] = r['undecided'] or 'verus: %s unsuccessful without an attributable verdict' % short
            continue
        if not okf and short not in fails:
            # solver said "not verified" but no diagnostic maps into this function of the generated
            # file (e.g. trait-level postcondition whose span is inside vstd): still a verdict
            pass
        if not okf:
            r['failures'].append({'obligation': ob['id'], 'function': short, 'details': fails.get(short, [])})
    for short in gen_fns:
        if short in seen_short:
            continue
        # no SMT query of its own (e.g. by(compute_only)): failed iff a diagnostic points into it
        okf = short not in fails
        ob = {'id': '%s/%s' % (unit, short), 'backend': 'verus', 'ok': okf, 'ms': 0, 'kind': gen_fns[short]}
        r['obligations'].append(ob)
        if not okf:
            r['failures'].append({'obligation': ob['id'], 'function': short, 'details': fails.get(short, [])})
    if res['status'] == 'failed' and not r['failures']:
        # verus reported errors that could not be attributed to a function of the unit
        r['undecided'] = r['undecided'] or 'verus reported %d error(s) not attributable to a function: %s' % (
            res.get('errors', 0), '; '.join(d['message'] for d in res['diagnostics'][:3]))
    # failures not attributed to a known fn
    known = set(gen_fns)
    for name, fl in fails.items():
        if name not in known:
            r['failures'].append({'obligation': '%s/%s' % (unit, name), 'function': name, 'details': fl})
    # vacuity verdicts
    r['vacuity'] = []
    if vres['status'] in ('timeout', 'crash', 'rejected'):
        r['undecided'] = r['undecided'] or 'vacuity twin: verus %s' % vres['status']
    else:
        vf = vres['functions']
        for n in spec_items:
            fr = None
            for k, v in vf.items():
                if k == n or k.endswith('::' + n):
                    fr = v
                    break
            passed_false = fr is not None and fr['success']
            r['vacuity'].append({'fn': n, 'ensures_false_rejected': not passed_false})
            if passed_false and not r['failures']:
                r['undecided'] = r['undecided'] or 'vacuity guard: `ensures false` verified for %s (contradictory precondition?)' % n
    if r.get('reach') and r['reach']['unreached'] and not r['failures']:
        # (with a genuine failure in the unit, probes after the failing point may legitimately be masked)
        r['undecided'] = r['undecided'] or 'vacuity guard: %d reachability probe(s) verified instead of failing (contradictory context): %s' % (
            len(r['reach']['unreached']), '; '.join(r['reach']['unreached'][:3]))
    return r


def _vacuity_extra(spec_path, names):
    return {n: ['    ensures false,'] for n in names}


def _all_fn_names(g):
    """name -> kind for every exec/proof fn in the generated file that Verus actually verifies
    (spec fns and external_body stubs - assumed contracts - are excluded: they are not obligations)."""
    out = {}
    prev_attr = ''
    for l in g.lines:
        st = l.strip()
        if st.startswith('#['):
            prev_attr += st
            continue
        m = re.match(r'\s*(?:pub(?:\([^)]*\))?\s+)?(?:broadcast\s+)?(?:(proof|exec|spec|open spec|closed spec|uninterp spec)\s+)?fn\s+([A-Za-z0-9_]+)', l)
        if m and not st.startswith('//'):
            kind = m.group(1) or 'exec'
            if 'spec' not in kind and 'external_body' not in prev_attr and m.group(2) != 'main':
                out[m.group(2)] = kind
        if st and not st.startswith('//') and st not in ('/*+spec*/', '/*-spec*/'):
            prev_attr = ''
    return out


def _enclosing_fn(g, line):
    for k in range(line - 1, -1, -1):
        m = re.match(r'\s*(?:pub(?:\([^)]*\))?\s+)?(?:broadcast\s+)?(?:(?:proof|exec)\s+)?fn\s+([A-Za-z0-9_]+)', g.lines[k])
        if m:
            return m.group(1)
    return '?'


# ----------------------------------------------------------------------------------------
# Kani
# ----------------------------------------------------------------------------------------

def ensure_vendor():
    """One-line-patched copy of backtrace 0.3.74 so the parser crate compiles under Kani
    (tooling only: nothing verified calls into it)."""
    vdir = os.path.join(CACHE, 'vendor', 'backtrace')
    if os.path.exists(os.path.join(vdir, 'Cargo.toml')):
        return vdir
    import glob
    cands = glob.glob(os.path.expanduser('~/.cargo/registry/src/*/backtrace-0.3.74'))
    if not cands:
        return None
    os.makedirs(os.path.dirname(vdir), exist_ok=True)
    tmp = vdir + '.tmp%d' % os.getpid()
    shutil.copytree(cands[0], tmp)
    p = os.path.join(tmp, 'src', 'types.rs')
    s = open(p).read()
    s = s.replace('use std::prelude::v1::*;', 'use std::prelude::v1::{String, Vec, Option, Some, None, Into, From};')
    open(p, 'w').write(s)
    try:
        os.rename(tmp, vdir)
    except OSError:
        shutil.rmtree(tmp, ignore_errors=True)
    return vdir


def make_scratch(tag):
    os.makedirs(WORKROOT, exist_ok=True)
    d = os.path.join(WORKROOT, '%s-%d' % (tag, os.getpid()))
    if os.path.exists(d):
        shutil.rmtree(d)
    os.makedirs(d)
    return d


def copy_repo(dst, harness_dir=None):
    rc, out, err, _ = sh(['rsync', '-a', '--delete', '--exclude', '/target', '--exclude', '.git', REPO + '/', dst + '/'])
    if rc != 0:
        raise RuntimeError('rsync failed: ' + err)
    vdir = ensure_vendor()
    os.makedirs(os.path.join(dst, '.cargo'), exist_ok=True)
    cfg = '[net]\noffline = true\n'
    if vdir:
        cfg += '[patch.crates-io]\nbacktrace = { path = "%s" }\n' % vdir
    open(os.path.join(dst, '.cargo', 'config.toml'), 'w').write(cfg)
    if harness_dir:
        # replay runs use a private copy of the harness dir (concrete-playback edits it)
        for root, _, files in os.walk(dst):
            for fn in files:
                if fn.endswith('.rs'):
                    p = os.path.join(root, fn)
                    s = open(p, errors='replace').read()
                    if '/verif/kani/harness/' in s:
                        open(p, 'w').write(s.replace('/verif/kani/harness/', harness_dir.rstrip('/') + '/'))


CRATES = {
    'keyberon': {'dir': 'keyberon', 'pkg': 'kanata-keyberon'},
    'parser': {'dir': 'parser', 'pkg': 'kanata-parser'},
}


def kani_group(crate, harnesses, scratch, jobs, tier):
    """Run a list of harness dicts of one crate in a single cargo-kani invocation."""
    cdir = os.path.join(scratch, 'repo', CRATES[crate]['dir'])
    flags = set()
    for h in harnesses:
        for f in h.get('flags', []):
            flags.add(f)
    tgt = os.path.join(CACHE, 'target-' + crate + ''.join('-' + f for f in sorted(flags)))
    tmo = max(h.get('timeout', 1200) for h in harnesses)
    js_path = os.path.join(scratch, 'kani-%s-%d.json' % (crate, abs(hash(tuple(h['name'] for h in harnesses))) % 100000))
    cmd = ['cargo', 'kani', '-Z', 'unstable-options', '-Z', 'function-contracts', '-Z', 'stubbing']
    for f in sorted(flags):
        cmd += ['-Z', f]
    cmd += ['--target-dir', tgt, '--exact', '-j', str(jobs), '--output-format', 'terse',
            '--harness-timeout', '%ds' % tmo, '--export-json', js_path]
    for h in harnesses:
        cmd += ['--harness', h['full']]
    # memory cap per process (a CBMC that exhausts memory becomes "CBMC failed" = undecided
    # instead of taking the machine down)
    capped = ['bash', '-c', 'ulimit -v %d; exec "$@"' % (int(os.environ.get('VERIF_KANI_MEM_GB', '20')) * 1024 * 1024), 'kani'] + cmd
    rc, out, err, wall = sh(capped, cwd=cdir, timeout=tmo * max(1, (len(harnesses) + jobs - 1) // jobs) + 900)
    res = {'crate': crate, 'cmd': ' '.join(cmd), 'wall_s': round(wall, 1), 'rc': rc, 'harness': {}}
    tail = (out + '\n' + err)[-6000:]
    if rc == 'timeout':
        res['error'] = 'cargo kani timed out'
        return res
    if not os.path.exists(js_path):
        res['error'] = 'cargo kani produced no result file (build error?)\n' + tail
        return res
    try:
        js = json.load(open(js_path))
    except Exception as e:
        res['error'] = 'unreadable kani json: %s' % e
        return res
    res['kani_version'] = js.get('metadata', {}).get('kani_version')
    res['cbmc_version'] = js.get('tools', {}).get('cbmc')
    stats = {c['harness_id']: (c.get('cbmc_stats') or {}) for c in js.get('cbmc', []) if c.get('harness_id')}
    errs = {c['harness_id']: c for c in js.get('error_details', []) if c.get('harness_id')}
    for vr in js.get('verification_results', {}).get('results', []):
        hid = vr['harness_id']
        res['harness'][hid] = {
            'status': vr['status'], 'duration_ms': vr.get('duration_ms', 0),
            'checks': vr.get('checks') or [], 'solver_s': (stats.get(hid) or {}).get('runtime_solver_s', 0) or 0,
            'error': errs.get(hid, {}),
        }
    res['tail'] = tail
    return res


def classify_kani(h, hr):
    """-> (verdict, obligations, failed_checks, note); verdict in ok|violation|undecided"""
    if hr is None:
        return 'undecided', [], [], 'harness did not run (not found / build error)'
    checks = hr['checks']
    obl = []
    failed = []
    undet = []
    covers_unsat = []
    for c in checks:
        st = c.get('status', '').lower()
        desc = c.get('description', '')
        cat = c.get('category', '')
        if cat == 'cover' or st in ('satisfied', 'unsatisfiable', 'covered', 'uncovered'):
            if st in ('unsatisfiable', 'uncovered', 'unreachable'):
                covers_unsat.append(c)
            obl.append(c)
            continue
        obl.append(c)
        if st == 'failure':
            failed.append(c)
        elif st in ('undetermined', 'error'):
            undet.append(c)
    status = hr['status'].lower()
    err = hr.get('error') or {}
    errtxt = ' '.join(str(err.get(k, '')) for k in ('error_type', 'exit_status', 'failed_properties_type')).lower()
    if 'timeout' in errtxt or 'timed_out' in errtxt or status in ('timeout', 'timedout'):
        return 'undecided', obl, [], 'harness timeout'
    if h.get('expect') == 'fail':
        # negative control / must-fail twin
        if failed:
            return 'ok', obl, [], 'negative control failed as required'
        return 'undecided', obl, [], 'vacuity guard: negative control did not fail'
    unwind_fail = [c for c in failed if 'unwinding assertion' in c.get('description', '')]
    real_fail = [c for c in failed if c not in unwind_fail]
    if real_fail:
        return 'violation', obl, real_fail, ''
    if unwind_fail:
        return 'undecided', obl, [], 'unwinding assertion failed (bound too small for this tree)'
    if covers_unsat:
        return 'undecided', obl, [], 'vacuity guard: cover not reachable: %s' % covers_unsat[0].get('description', '')
    if status == 'success' and not undet:
        if not obl:
            return 'undecided', obl, [], 'vacuity guard: zero checks'
        return 'ok', obl, [], ''
    return 'undecided', obl, [], 'kani status %s (%d undetermined)' % (hr['status'], len(undet))


def kani_replay(crate, h, scratch_root):
    """Obtain a concrete counterexample for harness h and run it natively against the real
    crate.  Returns dict(found, test_code, run_output, reproduced)."""
    out = {'found': False, 'reproduced': False}
    sc = os.path.join(scratch_root, 'replay')
    os.makedirs(sc, exist_ok=True)
    hdir = os.path.join(sc, 'harness')
    if os.path.exists(hdir):
        shutil.rmtree(hdir)
    shutil.copytree(os.path.join(VERIF, 'kani', 'harness'), hdir)
    rdir = os.path.join(sc, 'repo')
    os.makedirs(rdir, exist_ok=True)
    copy_repo(rdir, harness_dir=hdir)
    cdir = os.path.join(rdir, CRATES[crate]['dir'])
    tgt = os.path.join(CACHE, 'target-' + crate + ''.join('-' + f for f in sorted(h.get('flags', []))))
    cmd = ['cargo', 'kani', '-Z', 'unstable-options', '-Z', 'function-contracts', '-Z', 'stubbing', '-Z', 'concrete-playback']
    for f in h.get('flags', []):
        cmd += ['-Z', f]
    cmd += ['--target-dir', tgt, '--exact', '--harness', h['full'], '--concrete-playback=print',
            '--harness-timeout', '%ds' % h.get('timeout', 1200)]
    rc, o, e, w = sh(cmd, cwd=cdir, timeout=h.get('timeout', 1200) + 600)
    out['kani_output_tail'] = (o + e)[-3000:]
    # the printed unit test
    m = re.search(r'(#\[test\]\s*fn (kani_concrete_playback_[A-Za-z0-9_]+)\(\)\s*\{.*?\n\s*\})\s*\n\s*```', o + e, flags=re.S)
    if not m:
        m = re.search(r'(#\[test\]\s*fn (kani_concrete_playback_[A-Za-z0-9_]+)\(\)\s*\{.*?kani::concrete_playback_run\([^;]*;\s*\})', o + e, flags=re.S)
    src = None
    if m:
        src = (m.group(2), m.group(1))
        # append it to the (private copy of the) harness file that defines the harness
        for root, _, files in os.walk(hdir):
            for fn in files:
                fp = os.path.join(root, fn)
                s_ = open(fp).read()
                if re.search(r'\b' + re.escape(h['name']) + r'\b', s_):
                    open(fp, 'w').write(s_ + '\n' + src[1] + '\n')
    if not src:
        return out
    out['found'] = True
    out['test_name'], out['test_code'] = src
    cmd = ['cargo', 'kani', 'playback', '-Z', 'concrete-playback', '--', src[0]]
    rc, o, e, w = sh(cmd, cwd=cdir, timeout=1200)
    full = o + e
    keep = [l for l in full.split('\n') if 'panicked at' in l or 'assertion' in l or 'test result' in l or l.startswith('test ')]
    out['run_output'] = '\n'.join(keep[:20]) + '\n...\n' + full[-1500:]
    out['reproduced'] = (rc != 0 and rc != 'timeout' and ('panicked' in (o + e) or 'FAILED' in (o + e)))
    return out


# ----------------------------------------------------------------------------------------
# known findings
# ----------------------------------------------------------------------------------------

def load_known():
    p = os.path.join(VERIF, 'known_findings.json')
    if not os.path.exists(p):
        return []
    return json.load(open(p)).get('findings', [])


def match_known(known, prop, obligation):
    for k in known:
        if k.get('status') == 'open' and k.get('property') == prop and k.get('obligation') == obligation:
            return k
    return None


# ----------------------------------------------------------------------------------------
# main
# ----------------------------------------------------------------------------------------

def main(argv):
    if len(argv) < 2:
        print(__doc__)
        return 2
    prop = argv[1]
    tier = os.environ.get('VERIF_TIER', 'quick')
    keep = False
    replay = None
    i = 2
    while i < len(argv):
        if argv[i] == '--tier':
            tier = argv[i + 1]
            i += 2
        elif argv[i] == '--replay':
            replay = argv[i + 1]
            i += 2
        elif argv[i] == '--keep':
            keep = True
            i += 1
        else:
            i += 1
    if tier not in ('quick', 'thorough'):
        tier = 'quick'
    seed = int(os.environ.get('VERIF_SEED', '0') or 0)
    if replay:
        return do_replay(prop, replay)
    if prop not in props.PROPS:
        print('unknown or not-applicable property %s' % prop)
        return 2
    P = props.PROPS[prop]
    t0 = time.time()
    scratch = make_scratch(prop)
    os.makedirs(os.path.join(OUT, 'evidence'), exist_ok=True)
    os.makedirs(os.path.join(OUT, 'replay'), exist_ok=True)
    results = {'verus': [], 'kani': []}
    undecided = []
    violations = []   # (obligation id, detail dict)
    try:
        # ---- Verus units (parallel) + Kani groups
        verus_units = [u for u in P.get('verus', []) if tier == 'thorough' or u.get('tier', 'quick') == 'quick']
        kani_hs = [h for h in P.get('kani', []) if tier == 'thorough' or h.get('tier', 'quick') == 'quick']
        if os.environ.get('VERIF_DEBUG_SKIP_KANI'):
            kani_hs = []   # debugging aid only; never used by the registered commands
        if tier == 'thorough':
            # thorough replaces a quick harness by its thorough variant when `replaces` is given
            repl = set(h['replaces'] for h in kani_hs if h.get('replaces'))
            kani_hs = [h for h in kani_hs if h['name'] not in repl]
        futures = {}
        with cf.ThreadPoolExecutor(8) as ex:
            for u in verus_units:
                futures[ex.submit(verus_unit, u['unit'], scratch)] = ('verus', u)
            by_crate = {}
            for h in kani_hs:
                # one cargo-kani invocation per (crate, flag set): flags change how the whole crate is compiled
                by_crate.setdefault((h['crate'], tuple(sorted(h.get('flags', [])))), []).append(h)
            if by_crate:
                # private snapshot of the harness modules: a run is not disturbed by edits under
                # /verif/kani/harness while it is in flight
                hsnap = os.path.join(scratch, 'harness')
                shutil.copytree(os.path.join(VERIF, 'kani', 'harness'), hsnap)
                if tier == 'thorough':
                    # deeper exploration: raise the bounds of the bounded harnesses (the harness text
                    # is written against the constants, so this is the only edit)
                    for fn_, subs in props.THOROUGH_BOUNDS.items():
                        fp = os.path.join(hsnap, fn_)
                        txt = open(fp).read()
                        for a_, b_ in subs:
                            if a_ not in txt:
                                undecided.append('thorough bound substitution lost: %s' % a_)
                            txt = txt.replace(a_, b_)
                        open(fp, 'w').write(txt)
                copy_repo(os.path.join(scratch, 'repo'), harness_dir=hsnap)
            ncr = max(1, len(by_crate))
            for (crate, _fl), hs in by_crate.items():
                futures[ex.submit(kani_group, crate, hs, scratch, max(1, 14 // ncr), tier)] = ('kani', (crate, hs))
            for fut in cf.as_completed(futures):
                kind, meta = futures[fut]
                try:
                    r = fut.result()
                except Exception as e:  # tool crash -> undecided
                    undecided.append('%s crashed: %r' % (kind, e))
                    continue
                results[kind].append((meta, r))
        obligations = []
        functions_under_contract = []
        trusted = []
        rewrites = []
        bounds = []
        solver_s = 0.0
        samples = []
        # a Verus unit that could not be decided (anchor lost, construct outside the subset, resource
        # limit) hands over to its Kani fallback harnesses: they cannot turn "undecided" into "held",
        # but a counterexample from them is a verdict
        fb = []
        for (u, r) in results['verus']:
            if r.get('undecided') and u.get('fallback'):
                for hn in u['fallback']:
                    h = props.find_harness(hn)
                    if h and h['name'] not in set(x['name'] for x in kani_hs) and h['name'] not in set(x['name'] for x in fb):
                        fb.append(h)
        if fb:
            if not os.path.exists(os.path.join(scratch, 'repo')):
                hsnap = os.path.join(scratch, 'harness')
                if not os.path.exists(hsnap):
                    shutil.copytree(os.path.join(VERIF, 'kani', 'harness'), hsnap)
                copy_repo(os.path.join(scratch, 'repo'), harness_dir=hsnap)
            byc = {}
            for h in fb:
                byc.setdefault((h['crate'], tuple(sorted(h.get('flags', [])))), []).append(h)
            for (crate, _fl), hs in byc.items():
                try:
                    results['kani'].append(((crate, hs), kani_group(crate, hs, scratch, 12, tier)))
                    kani_hs = kani_hs + hs
                except Exception as e:
                    undecided.append('fallback kani crashed: %r' % e)
        for (u, r) in results['verus']:
            if r.get('undecided'):
                undecided.append('verus unit %s: %s' % (u['unit'], r['undecided']))
            only = u.get('only')   # restrict which functions count for this property
            for ob in r['obligations']:
                fn = ob['id'].split('/', 1)[1]
                if only and fn not in only:
                    continue
                obligations.append(ob)
            for f in r['failures']:
                if only and f['function'] not in only:
                    continue
                violations.append((f['obligation'], {'backend': 'verus', 'unit': u['unit'], 'function': f['function'],
                                                     'details': f['details'], 'cex_harnesses': u.get('cex', {}).get(f['function'], u.get('cex', {}).get('*', []))}))
            for it in r.get('items', []):
                if it['kind'] == 'fn' and (not only or it['name'] in only):
                    functions_under_contract.append('%s:%d %s (verus, extracted; sha256 %s)' % (it['path'], it['src_line'], it['name'], it['sha256'][:12]))
            trusted += ['verus/%s: %s' % (u['unit'], t) for t in r.get('trusted', [])]
            rewrites += r.get('rewrites', [])
            solver_s += r.get('smt_ms', 0) / 1000.0
            if r.get('vacuity') is not None:
                samples.append({'unit': u['unit'], 'vacuity_twins_rejected': sum(1 for v in r['vacuity'] if v['ensures_false_rejected']),
                                'of': len(r['vacuity'])})
            if r.get('reach'):
                samples.append({'unit': u['unit'], 'reachability_probes_failed_as_required': r['reach']['reached'], 'of': r['reach']['probes']})
        # stubs used by the harnesses of this run are part of the trusted base
        hnames = set(h['name'] for h in kani_hs)
        hdir = os.path.join(VERIF, 'kani', 'harness')
        for fn in sorted(os.listdir(hdir)):
            txt = open(os.path.join(hdir, fn)).read()
            for m in re.finditer(r'((?:#\[kani::[a-z_]+\([^\n]*\)\]\s*)+)fn ([A-Za-z0-9_]+)', txt):
                if m.group(2) in hnames:
                    for st in re.findall(r'#\[kani::stub\(([^\n]*)\)\]', m.group(1)):
                        trusted.append('kani/%s: stub %s (harness %s)' % (fn, st, m.group(2)))
        for ((crate, hs), r) in results['kani']:
            if r.get('error'):
                undecided.append('kani %s: %s' % (crate, r['error'][-800:]))
                continue
            for h in hs:
                hr = r['harness'].get(h['full'])
                verdict, obl, failed, note = classify_kani(h, hr)
                oid = 'kani/%s/%s' % (crate, h['name'])
                solver_s += (hr or {}).get('solver_s', 0) or 0
                obligations.append({'id': oid, 'backend': 'kani/cbmc', 'ok': verdict == 'ok', 'checks': len(obl),
                                    'kind': h.get('kind', 'bounded'), 'bound': h.get('bound', ''), 'expect': h.get('expect', 'pass'),
                                    'ms': (hr or {}).get('duration_ms', 0), 'note': note, 'covers': h.get('covers', '')})
                if h.get('kind') == 'bounded':
                    bounds.append('%s: %s%s' % (h['name'], h.get('bound', ''), (' [thorough tier: ' + props.THOROUGH_NOTE + ']') if tier == 'thorough' and h['name'].startswith(('c05_b', 'c06_b', 'c17_b')) and h['crate'] == 'keyberon' else ''))
                for fn in h.get('functions', []):
                    s = '%s (kani, in place%s)' % (fn, '' if h.get('kind') == 'complete' else ', bounded')
                    if s not in functions_under_contract:
                        functions_under_contract.append(s)
                if verdict == 'violation':
                    violations.append((oid, {'backend': 'kani', 'crate': crate, 'harness': h,
                                             'failed_checks': failed}))
                elif verdict == 'undecided':
                    undecided.append('%s: %s' % (oid, note))
        # ---- decide
        known = load_known()
        new_viol = []
        known_lines = []
        for oid, det in violations:
            k = match_known(known, prop, oid)
            if k:
                known_lines.append('KNOWN-FINDING: property=%s %s' % (prop, k.get('what', oid)))
            else:
                new_viol.append((oid, det))
        replay_path = None
        if new_viol:
            replay_path = write_violation(prop, new_viol, scratch, tier)
        n_ob = len(obligations)
        n_ok = sum(1 for o in obligations if o['ok'])
        wall = time.time() - t0
        level = P['level']
        ev = {
            'property_id': prop, 'tier': tier, 'seed': seed, 'level': level,
            'coverage': {
                'obligations': n_ob, 'discharged': n_ok,
                'checker_cmd': P.get('checker_cmd', 'verus <generated>.rs --output-json --time  |  cargo kani -Z function-contracts -Z stubbing --harness <h>'),
                'trusted_base': sorted(set(trusted + P.get('trusted_base', []))),
                'explanation': P['explanation'],
                'functions_under_contract': functions_under_contract,
                'obligation_list': obligations,
                'bounded_standins': bounds,
                'proved_unbounded_or_complete': [o['id'] for o in obligations if o['ok'] and (o['backend'] == 'verus' or o.get('kind') == 'complete')],
                'rewrites_applied': rewrites,
                'solver_seconds': round(solver_s, 2),
                'back_ends': sorted(set(o['backend'] for o in obligations)),
                'samples': samples + [o for o in obligations[:5]],
                'undecided': undecided,
                'exhaustive': False,
            },
            'assumptions': P.get('assumptions', []) + props.GLOBAL_ASSUMPTIONS,
            'wall_s': round(wall, 1),
            'violations': len(new_viol),
        }
        json.dump(ev, open(os.path.join(OUT, 'evidence', prop + '.json'), 'w'), indent=1)
        for l in known_lines:
            print(l)
        print('property=%s tier=%s obligations=%d discharged=%d undecided=%d violations=%d wall=%.0fs'
              % (prop, tier, n_ob, n_ok, len(undecided), len(new_viol), wall))
        if new_viol:
            nf = '' if any(d.get('replayed') for _, d in new_viol) else ' no-failing-input-found'
            print('VIOLATION property=%s replay=%s%s' % (prop, replay_path, nf))
            return 1
        if undecided or n_ob == 0:
            for u in undecided[:10]:
                print('UNDECIDED property=%s reason=%s' % (prop, u.replace('\n', ' ')[:400]))
            if n_ob == 0 and not undecided:
                print('UNDECIDED property=%s reason=zero obligations generated' % prop)
            return 2
        return 0
    finally:
        if not keep:
            shutil.rmtree(scratch, ignore_errors=True)


def write_violation(prop, viols, scratch, tier):
    """Write the replay file.  For Kani failures replay the concrete counterexample natively;
    for Verus failures run the paired counterexample-search harnesses."""
    rep = {'property': prop, 'tier': tier, 'time': time.strftime('%Y-%m-%dT%H:%M:%S'), 'violations': []}
    replays_done = 0
    for oid, det in viols:
        entry = {'obligation': oid, 'backend': det['backend']}
        if det['backend'] == 'kani' and replays_done >= 2:
            entry['failed_checks'] = det['failed_checks']
            entry['replay'] = {'found': False, 'skipped': 'replay budget: first two violations of this run are replayed'}
            rep['violations'].append(entry)
            continue
        if det['backend'] == 'kani':
            replays_done += 1
            h = det['harness']
            entry['failed_checks'] = det['failed_checks']
            try:
                rp = kani_replay(h['crate'], h, scratch)
            except Exception as e:
                rp = {'found': False, 'error': repr(e)}
            entry['replay'] = rp
            det['replayed'] = bool(rp.get('found') and rp.get('reproduced'))
        else:
            entry['function'] = det['function']
            entry['verifier_output'] = [d.get('rendered') or d.get('message') for d in det['details']]
            entry['failed_at'] = [{'message': d['message'], 'origin': d['origin'], 'text': d['text']} for d in det['details']]
            entry['replay'] = {'found': False}
            for hn in det.get('cex_harnesses', []):
                h = props.find_harness(hn)
                if not h:
                    continue
                try:
                    if not os.path.exists(os.path.join(scratch, 'repo')):
                        copy_repo(os.path.join(scratch, 'repo'))
                    r = kani_group(h['crate'], [h], scratch, 4, tier)
                    hr = r.get('harness', {}).get(h['full'])
                    verdict, obl, failed, note = classify_kani(h, hr)
                    if verdict == 'violation':
                        rp = kani_replay(h['crate'], h, scratch)
                        rp['harness'] = hn
                        rp['failed_checks'] = failed
                        entry['replay'] = rp
                        if rp.get('found') and rp.get('reproduced'):
                            det['replayed'] = True
                            break
                except Exception as e:
                    entry['replay'] = {'found': False, 'error': repr(e)}
        if not det.get('replayed'):
            entry['note'] = 'no-failing-input-found: the verifier rejected the named obligation but produced no input that replays'
        rep['violations'].append(entry)
    name = '%s-%s.json' % (prop, hashlib.sha1(json.dumps([v[0] for v in viols]).encode()).hexdigest()[:10])
    path = os.path.join(OUT, 'replay', name)
    json.dump(rep, open(path, 'w'), indent=1)
    return path


def do_replay(prop, path):
    """Re-execute the stored counterexample(s) natively against /repo's CURRENT working tree.
    exit 1 = a stored failing input still fails; exit 0 = none does (or there is no input to run:
    then the stored verifier output is printed and the exit code is 1, because the obligation
    failed without a replayable input)."""
    rep = json.load(open(path))
    print(json.dumps({'property': rep['property'], 'obligations': [v['obligation'] for v in rep['violations']]}, indent=1))
    rc = 0
    scratch = make_scratch('replay-' + prop)
    try:
        for v in rep['violations']:
            rp = v.get('replay', {})
            if rp.get('test_code') and rp.get('test_name'):
                hname = (rp.get('harness') or v['obligation'].split('/')[-1])
                h = props.find_harness(hname)
                if not h:
                    print('--- %s: harness %s no longer registered' % (v['obligation'], hname))
                    continue
                hdir = os.path.join(scratch, 'harness')
                if os.path.exists(hdir):
                    shutil.rmtree(hdir)
                shutil.copytree(os.path.join(VERIF, 'kani', 'harness'), hdir)
                for fn in os.listdir(hdir):
                    fp = os.path.join(hdir, fn)
                    txt = open(fp).read()
                    if re.search(r'\b' + re.escape(h['name']) + r'\b', txt):
                        open(fp, 'w').write(txt + '\n' + rp['test_code'] + '\n')
                rdir = os.path.join(scratch, 'repo')
                copy_repo(rdir, harness_dir=hdir)
                cdir = os.path.join(rdir, CRATES[h['crate']]['dir'])
                code, o, e, w = sh(['cargo', 'kani', 'playback', '-Z', 'concrete-playback', '--', rp['test_name']], cwd=cdir, timeout=1800)
                full = o + e
                keep = [l for l in full.split('\n') if 'panicked at' in l or 'assertion' in l or 'test result' in l or l.startswith('test ')]
                print('--- %s: concrete counterexample (Kani playback test) run natively against the current tree:' % v['obligation'])
                print(rp['test_code'])
                print('\n'.join(keep[:12]))
                if code != 0 and ('panicked' in full or 'FAILED' in full):
                    print('=> still fails')
                    rc = 1
                else:
                    print('=> does not fail on the current tree')
            elif rp.get('skipped'):
                print('--- %s: not replayed at the time (%s)' % (v['obligation'], rp['skipped']))
            else:
                print('--- %s: no failing input was found; verifier output at the time:' % v['obligation'])
                for o in v.get('verifier_output', []) or [json.dumps(v.get('failed_checks', ''))]:
                    print(o)
                rc = 1
    finally:
        shutil.rmtree(scratch, ignore_errors=True)
    return rc


if __name__ == '__main__':
    sys.exit(main(sys.argv))
