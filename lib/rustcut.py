"""Item cutter for rustfmt-formatted Rust source.

No parser dependency: a small lexer that knows comments, strings, raw strings,
char literals and lifetimes, plus brace matching.  Every function here works on
the text of a file from /repo's working tree; nothing is typed by hand.

If an anchor cannot be found the caller gets ExtractionLost, which the driver
turns into exit code 2 (undecided), never into a violation.
"""
import re


class ExtractionLost(Exception):
    pass


def _skip_string(s, i):
    # s[i] == '"'
    i += 1
    n = len(s)
    while i < n:
        c = s[i]
        if c == '\\':
            i += 2
            continue
        if c == '"':
            return i + 1
        i += 1
    return n


def _skip_raw_string(s, i):
    # s[i] == 'r' followed by #*"
    j = i + 1
    hashes = 0
    while j < len(s) and s[j] == '#':
        hashes += 1
        j += 1
    if j >= len(s) or s[j] != '"':
        return None
    end = s.find('"' + '#' * hashes, j + 1)
    if end < 0:
        return len(s)
    return end + 1 + hashes


def tokens(s, start=0, end=None):
    """Yield (kind, pos, endpos) for code-relevant tokens: kinds are
    'open' '(' '[' '{', 'close', 'word', 'punct', 'str', 'comment'."""
    i = start
    n = len(s) if end is None else end
    while i < n:
        c = s[i]
        if c.isspace():
            i += 1
            continue
        if s.startswith('//', i):
            j = s.find('\n', i)
            j = n if j < 0 or j > n else j
            yield ('comment', i, j)
            i = j
            continue
        if s.startswith('/*', i):
            depth = 1
            j = i + 2
            while j < n and depth:
                if s.startswith('/*', j):
                    depth += 1
                    j += 2
                elif s.startswith('*/', j):
                    depth -= 1
                    j += 2
                else:
                    j += 1
            yield ('comment', i, j)
            i = j
            continue
        if c == '"':
            j = _skip_string(s, i)
            yield ('str', i, j)
            i = j
            continue
        if c in 'rb' and i + 1 < n:
            # raw / byte strings
            k = i
            if s.startswith('br', i):
                k = i + 1
            if s[k] == 'r' and k + 1 < n and s[k + 1] in '#"':
                j = _skip_raw_string(s, k)
                if j is not None:
                    yield ('str', i, j)
                    i = j
                    continue
            if c == 'b' and s[i + 1] == '"':
                j = _skip_string(s, i + 1)
                yield ('str', i, j)
                i = j
                continue
            if c == 'b' and s[i + 1] == "'":
                i += 1
                c = "'"
        if c == "'":
            # char literal or lifetime
            if i + 2 < n and s[i + 1] == '\\':
                j = s.find("'", i + 2)
                # handle '\''
                if s[i + 2] == "'":
                    j = s.find("'", i + 3)
                yield ('str', i, j + 1)
                i = j + 1
                continue
            if i + 2 < n and s[i + 2] == "'":
                yield ('str', i, i + 3)
                i += 3
                continue
            # multi-byte char literal e.g. '⇪'
            m = re.match(r"'[^'\\\n]{1,4}'", s[i:i + 8])
            if m and not re.match(r"'[A-Za-z_][A-Za-z0-9_]*", s[i:i + 8]):
                yield ('str', i, i + m.end())
                i += m.end()
                continue
            # lifetime
            m = re.match(r"'[A-Za-z_][A-Za-z0-9_]*", s[i:])
            if m:
                yield ('word', i, i + m.end())
                i += m.end()
                continue
            yield ('punct', i, i + 1)
            i += 1
            continue
        if c in '([{':
            yield ('open', i, i + 1)
            i += 1
            continue
        if c in ')]}':
            yield ('close', i, i + 1)
            i += 1
            continue
        if c.isalnum() or c == '_':
            m = re.match(r'[A-Za-z0-9_]+', s[i:n])
            yield ('word', i, i + m.end())
            i += m.end()
            continue
        yield ('punct', i, i + 1)
        i += 1


def match_close(s, open_pos):
    """Position just past the bracket matching s[open_pos]."""
    depth = 0
    for kind, a, b in tokens(s, open_pos):
        if kind == 'open':
            depth += 1
        elif kind == 'close':
            depth -= 1
            if depth == 0:
                return b
    raise ExtractionLost('unbalanced bracket at %d' % open_pos)


def body_open(s, start, stop_at_semicolon=True):
    """First '{' at bracket depth 0 at or after start (the body of an item or
    of a loop header).  Returns None if ';' comes first (item without body)."""
    depth = 0
    for kind, a, b in tokens(s, start):
        if kind == 'open':
            if s[a] == '{' and depth == 0:
                return a
            depth += 1
        elif kind == 'close':
            depth -= 1
            if depth < 0:
                return None
        elif kind == 'punct' and s[a] == ';' and depth == 0 and stop_at_semicolon:
            return None
    return None


def line_of(s, pos):
    return s.count('\n', 0, pos) + 1


def _line_start(s, pos):
    j = s.rfind('\n', 0, pos)
    return j + 1


def find_item(s, kind, name, within=None):
    """Locate an item.  kind in fn|enum|struct|const|type|impl|static.
    `within` = (start, end) span to search in (e.g. an impl body).
    Returns (start, end): start at the beginning of the line holding the item's
    first keyword (visibility included, attributes/doc comments excluded)."""
    lo, hi = within if within else (0, len(s))
    if kind == 'impl':
        pat = re.compile(r'^[ \t]*(?:unsafe\s+)?impl\b[^\n{;]*?' + name + r'[^\n{;]*', re.M)
    elif kind == 'fn':
        pat = re.compile(
            r'^[ \t]*(?:pub(?:\([a-z:]+\))?\s+)?(?:const\s+)?(?:unsafe\s+)?fn\s+' + re.escape(name) + r'\b', re.M)
    elif kind in ('const', 'static'):
        pat = re.compile(r'^[ \t]*(?:pub(?:\([a-z:]+\))?\s+)?' + kind + r'\s+' + re.escape(name) + r'\b', re.M)
    else:
        pat = re.compile(r'^[ \t]*(?:pub(?:\([a-z:]+\))?\s+)?' + kind + r'\s+' + re.escape(name) + r'\b', re.M)
    # only accept matches that are in code (not in comments/strings)
    code_spans = None
    for m in pat.finditer(s, lo, hi):
        st = m.start()
        if _in_comment_or_string(s, st + len(m.group(0)) - 1, lo):
            continue
        # find end
        kwpos = st
        if kind in ('const', 'static', 'type'):
            # up to ';' at depth 0
            depth = 0
            for k, a, b in tokens(s, kwpos):
                if k == 'open':
                    depth += 1
                elif k == 'close':
                    depth -= 1
                elif k == 'punct' and s[a] == ';' and depth == 0:
                    return (st, b)
            raise ExtractionLost('no end for %s %s' % (kind, name))
        bo = body_open(s, kwpos)
        if bo is None:
            # tuple struct `struct X(u16);`
            if kind == 'struct':
                depth = 0
                for k, a, b in tokens(s, kwpos):
                    if k == 'open':
                        depth += 1
                    elif k == 'close':
                        depth -= 1
                    elif k == 'punct' and s[a] == ';' and depth == 0:
                        return (st, b)
            continue
        return (st, match_close(s, bo))
    raise ExtractionLost('item not found: %s %s' % (kind, name))


def _in_comment_or_string(s, pos, lo=0):
    # cheap: look at the current line only for // comments; block comments and
    # multi-line strings are rare in the files we cut, and a false item match
    # inside one would fail brace matching / verification loudly anyway.
    ls = _line_start(s, pos)
    line = s[ls:pos]
    return '//' in line


def attrs_before(s, start):
    """Return the attribute / doc-comment lines immediately above an item
    (so callers can read e.g. #[repr(u16)])."""
    out = []
    ls = _line_start(s, start)
    while ls > 0:
        prev_end = ls - 1
        prev_start = _line_start(s, prev_end)
        line = s[prev_start:prev_end].strip()
        if line.startswith('#[') or line.startswith('///') or line.startswith('//'):
            out.append(line)
            ls = prev_start
        else:
            break
    return list(reversed(out))


def impl_body(s, span):
    bo = body_open(s, span[0])
    return (bo + 1, span[1] - 1)


def fn_parts(text):
    """Split a function item's text into (signature, body_with_braces)."""
    bo = body_open(text, 0)
    if bo is None:
        raise ExtractionLost('function without body')
    return text[:bo], text[bo:]


def loops(text):
    """Positions of the body-opening '{' of each loop in a function text, in
    source order: list of (keyword_pos, brace_pos)."""
    out = []
    toks = list(tokens(text))
    for idx, (k, a, b) in enumerate(toks):
        if k == 'word' and text[a:b] in ('while', 'for', 'loop'):
            # 'for' in `impl X for Y` / HRTB not expected inside fn bodies
            bo = body_open(text, b, stop_at_semicolon=True)
            if bo is None:
                continue
            out.append((a, bo))
    return out


def dedent(text):
    lines = text.split('\n')
    ind = None
    for l in lines:
        if l.strip():
            n = len(l) - len(l.lstrip())
            ind = n if ind is None else min(ind, n)
    ind = ind or 0
    return '\n'.join(l[ind:] if len(l) >= ind else l for l in lines)
