#!/usr/bin/env python3
"""Confirm sub-agent mutants independently in a scratch worktree and file them under /verif/seeded/.
For each: patch applies to clean HEAD; full suite passes with it; demo fails with it, passes without."""
import json, os, re, shutil, subprocess, sys, time

WT = '/tmp/confirm-wt'
TGT = '/tmp/confirm-target'
K = ('kanata-keyberon', [])
P = ('kanata-parser', [])
M = ('kanata', ['--lib', '--features', 'simulated_output'])
# id, source dir, property, [(demo file, append target, package spec, filter)]
T = [
 ('C02-m1', '/tmp/mut-C02/mutants/1', 'C02', [('demo_test.rs', 'src/tests/sim_tests/mod.rs', M, 'mutant_demo_1')]),
 ('C02-m2', '/tmp/mut-C02/mutants/2', 'C02', [('demo_test.rs', 'src/tests/sim_tests/mod.rs', M, 'mutant_demo_2')]),
 ('C02-m3', '/tmp/mut-C02/mutants/3', 'C02', [('demo_test.rs', 'src/tests/sim_tests/mod.rs', M, 'mutant_demo_3')]),
 ('C03-m4', '/tmp/mut-C02/mutants/4', 'C03', [('demo_test.rs', 'parser/src/cfg/sexpr.rs', P, 'mutant_demo_4')]),
 ('C03-m5', '/tmp/mut-C02/mutants/5', 'C03', [('demo_test.rs', 'parser/src/cfg/sexpr.rs', P, 'mutant_demo_5')]),
 ('C05-m1', '/tmp/mut-C05/mutants/1', 'C05', [('demo_test.rs', 'keyberon/src/layout.rs', K, 'mut_c05_m1')]),
 ('C05-m2', '/tmp/mut-C05/mutants/2', 'C05', [('demo_test.rs', 'keyberon/src/layout.rs', K, 'mut_c05_m2')]),
 ('C05-m3', '/tmp/mut-C05/mutants/3', 'C05', [('demo_test.rs', 'src/tests/sim_tests/release_sim_tests.rs', M, 'mut_c05_m3')]),
 ('C06-m1', '/tmp/mut-C06/mutants/1', 'C06', [('demo_test.rs', 'keyberon/src/layout.rs', K, 'c06_mut1')]),
 ('C06-m2', '/tmp/mut-C06/mutants/2', 'C06', [('demo_test.rs', 'keyberon/src/layout.rs', K, 'c06_mut2')]),
 ('C06-m3', '/tmp/mut-C06/mutants/3', 'C06', [('demo_test.rs', 'keyberon/src/layout.rs', K, 'c06_mut3')]),
 ('C09-m1', '/tmp/mut-C09/mutants/1', 'C09', [('demo_test.rs', 'keyberon/src/layout.rs', K, 'mut1_demo')]),
 ('C09-m2', '/tmp/mut-C09/mutants/2', 'C09', [('demo_test.rs', 'keyberon/src/layout.rs', K, 'mut2_demo')]),
 ('C09-m3', '/tmp/mut-C09/mutants/3', 'C09', [('demo_test.rs', 'src/tests/sim_tests/chord_sim_tests.rs', M, 'mut3_demo')]),
 ('C09-m4', '/tmp/mut-C09/mutants/4', 'C09', [('demo_test.rs', 'src/tests/sim_tests/chord_sim_tests.rs', M, 'mut4_demo')]),
 ('C10-m1', '/tmp/mut-C10/mutants/1', 'C10', [('demo_test.rs', 'keyberon/src/action/switch.rs', K, 'c10_mutant1')]),
 ('C10-m2', '/tmp/mut-C10/mutants/2', 'C10', [('demo_test.rs', 'keyberon/src/action/switch.rs', K, 'c10_mutant2')]),
 ('C10-m3', '/tmp/mut-C10/mutants/3', 'C10', [('demo_test.rs', 'keyberon/src/action/switch.rs', K, 'c10_mutant3')]),
 ('C11-m1', '/tmp/mut-C11/mutants/1', 'C11', [('demo_test.rs', 'parser/src/cfg/tests.rs', P, 'c11_demo')]),
 ('C11-m2', '/tmp/mut-C11/mutants/2', 'C11', [('demo_test.rs', 'src/tests/sim_tests/mod.rs', M, 'c11_demo')]),
 ('C11-m3', '/tmp/mut-C11/mutants/3', 'C11', [('demo_test.rs', 'src/kanata/output_logic.rs', M, 'c11_demo')]),
 ('C17-m1', '/tmp/mut-C17/mutants/1', 'C17', [('demo_test.rs', 'keyberon/src/layout.rs', K, 'c17_m1')]),
 ('C17-m2', '/tmp/mut-C17/mutants/2', 'C17', [('demo_test.rs', 'keyberon/src/layout.rs', K, 'c17_m2')]),
 ('C17-m3', '/tmp/mut-C17/mutants/3', 'C17', [('demo_test.rs', 'keyberon/src/layout.rs', K, 'c17_m3')]),
 ('C19-m1', '/tmp/mut-C19/mutants/1', 'C19', [('demo_test.rs', 'src/tests/sim_tests/macro_sim_tests.rs', M, 'c19_m1')]),
 ('C19-m2', '/tmp/mut-C19/mutants/2', 'C19', [('demo_test.rs', 'src/tests/sim_tests/macro_sim_tests.rs', M, 'c19_m2')]),
 ('C19-m3', '/tmp/mut-C19/mutants/3', 'C19', [('demo_test.rs', 'src/tests/sim_tests/macro_sim_tests.rs', M, 'c19_m3')]),
 # ---- round 2 (targeted at functions under contract; first-round changes excluded)
 ('C10-r2m1', '/tmp/mut-R2a/mutants/1', 'C10', [('demo_test.rs', 'keyberon/src/action/switch.rs', K, 'mutdemo_r2a_1')]),
 ('C10-r2m2', '/tmp/mut-R2a/mutants/2', 'C10', [('demo_test.rs', 'keyberon/src/action/switch.rs', K, 'mutdemo_r2a_2')]),
 ('C10-r2m3', '/tmp/mut-R2a/mutants/3', 'C10', [('demo_test.rs', 'keyberon/src/action/switch.rs', K, 'mutdemo_r2a_3')]),
 ('C10-r2m4', '/tmp/mut-R2a/mutants/4', 'C10', [('demo_test.rs', 'src/tests/sim_tests/switch_sim_tests.rs', M, 'mutdemo_r2a_4')]),
 ('C19-r2m1', '/tmp/mut-R2b/mutants/1', 'C19', [('demo_test.rs', 'src/tests/sim_tests/macro_sim_tests.rs', M, 'mutdemo1_')]),
 ('C19-r2m2', '/tmp/mut-R2b/mutants/2', 'C19', [('demo_test.rs', 'src/tests/sim_tests/macro_sim_tests.rs', M, 'mutdemo2_')]),
 ('C19-r2m3', '/tmp/mut-R2b/mutants/3', 'C19', [('demo_test.rs', 'src/tests/sim_tests/macro_sim_tests.rs', M, 'mutdemo3_')]),
 ('C11-r2m4', '/tmp/mut-R2b/mutants/4', 'C11', [('demo_test.rs', 'parser/src/cfg/tests.rs', P, 'mutdemo4_')]),
 ('C11-r2m5', '/tmp/mut-R2b/mutants/5', 'C11', [('demo_test.rs', 'src/tests/sim_tests/mod.rs', M, 'mutdemo5_')]),
 ('C06-r2m1', '/tmp/mut-R2c/mutants/1', 'C06', [('demo_test.rs', 'keyberon/src/layout.rs', K, 'mut_demo_c06_no_lingering')]),
 ('C06-r2m2', '/tmp/mut-R2c/mutants/2', 'C06', [('demo_test.rs', 'keyberon/src/layout.rs', K, 'mut_demo_c06_repress_of_first')]),
 ('C17-r2m3', '/tmp/mut-R2c/mutants/3', 'C17', [('demo_test.rs', 'keyberon/src/layout.rs', K, 'mut_demo_c17_count_ends')]),
 ('C17-r2m4', '/tmp/mut-R2c/mutants/4', 'C17', [('demo_test.rs', 'keyberon/src/layout.rs', K, 'mut_demo_c17_eager_every_tap')]),
 ('C05-r2m5', '/tmp/mut-R2c/mutants/5', 'C05', [('demo_test.rs', 'src/tests/sim_tests/release_sim_tests.rs', M, 'mut_demo_c05_except_keys')]),
 ('C05-r2m6', '/tmp/mut-R2c/mutants/6', 'C05', [('demo_test.rs', 'keyberon/src/layout.rs', K, 'mut_demo_c05_permissive_hold')]),
 ('C09-r2m1', '/tmp/mut-R2d/mutants/1', 'C09', [('demo_test.rs', 'src/tests/sim_tests/chord_sim_tests.rs', M, 'mut1_chords_v1')]),
 ('C09-r2m2', '/tmp/mut-R2d/mutants/2', 'C09', [('demo_test.rs', 'src/tests/sim_tests/chord_sim_tests.rs', M, 'mut2_key_after')]),
 ('C09-r2m3', '/tmp/mut-R2d/mutants/3', 'C09', [('demo_test.rs', 'src/tests/sim_tests/chord_sim_tests.rs', M, 'mut3_held_chord')]),
 ('C02-r2m4', '/tmp/mut-R2d/mutants/4', 'C02', [('demo_test.rs', 'src/tests/sim_tests/mod.rs', M, 'mut4_tap_dance_eager')]),
 ('C02-r2m5', '/tmp/mut-R2d/mutants/5', 'C02', [('demo_test.rs', 'src/tests/sim_tests/mod.rs', M, 'mut5_dynamic_macro')]),
 ('C02-r2m6', '/tmp/mut-R2d/mutants/6', 'C02', [('demo_test.rs', 'src/tests/sim_tests/mod.rs', M, 'mut6_largest')]),
 # ---- round 3 ("two cooperating sites")
 ('C06-r3m1', '/tmp/mut-R3/mutants/1', 'C06', [('demo_test.rs', 'src/tests/sim_tests/oneshot_tests.rs', M, 'r3m1_')]),
 ('C02-r3m2', '/tmp/mut-R3/mutants/2', 'C02', [('demo_test.rs', 'src/tests/sim_tests/layer_sim_tests.rs', M, 'r3m2_')]),
 ('C10-r3m3', '/tmp/mut-R3/mutants/3', 'C10', [('demo_test.rs', 'src/tests/sim_tests/switch_sim_tests.rs', M, 'r3m3_')]),
 ('C19-r3m4', '/tmp/mut-R3/mutants/4', 'C19', [('demo_test.rs', 'src/tests/sim_tests/macro_sim_tests.rs', M, 'r3m4_')]),
 ('C05-r3m5', '/tmp/mut-R3/mutants/5', 'C05', [('demo_test.rs', 'src/tests/sim_tests/macro_sim_tests.rs', M, 'r3m5_')]),
 ('C03-r3m6', '/tmp/mut-R3/mutants/6', 'C03', [('demo_test.rs', 'parser/src/cfg/sexpr.rs', P, 'r3m6_')]),
 # ---- C14 (after the property was claimed for its table-completeness half)
 ('C14-m1', '/tmp/mut-C14/mutants/1', 'C14', [('demo_test.rs', 'src/tests/sim_tests/repeat_sim_tests.rs', M, 'c14_demo_repeat_tap_hold_timeout_action')]),
 ('C14-m2', '/tmp/mut-C14/mutants/2', 'C14', [('demo_test.rs', 'src/tests/sim_tests/repeat_sim_tests.rs', M, 'c14_demo_repeat_switch_case_after_break_case')]),
 ('C14-m3', '/tmp/mut-C14/mutants/3', 'C14', [('demo_test.rs', 'src/tests/sim_tests/repeat_sim_tests.rs', M, 'c14_demo_repeat_unshift_on_other_physical_key')]),
 ('C14-m4', '/tmp/mut-C14/mutants/4', 'C14', [('demo_test.rs', 'src/tests/sim_tests/repeat_sim_tests.rs', M, 'c14_demo_repeat_override_output_of_key_first_seen_as_override_output')]),
 ('C14-m5', '/tmp/mut-C14/mutants/5', 'C14', [('demo_test.rs', 'src/tests/sim_tests/repeat_sim_tests.rs', M, 'c14_demo_repeat_key_pressed_on_lower_held_layer_shadowed_by_upper')]),
 # ---- round 4: the parser-side switch compiler (after C10-A6)
 ('C10-r4m1', '/tmp/mut-R4/mutants/1', 'C10', [('demo_test.rs', 'src/tests/sim_tests/switch_sim_tests.rs', M, 'r4m1_')]),
 ('C10-r4m2', '/tmp/mut-R4/mutants/2', 'C10', [('demo_test.rs', 'src/tests/sim_tests/switch_sim_tests.rs', M, 'r4m2_')]),
 ('C10-r4m3', '/tmp/mut-R4/mutants/3', 'C10', [('demo_test.rs', 'src/tests/sim_tests/switch_sim_tests.rs', M, 'r4m3_')]),
 ('C10-r4m4', '/tmp/mut-R4/mutants/4', 'C10', [('demo_test.rs', 'src/tests/sim_tests/switch_sim_tests.rs', M, 'r4m4_')]),
 ('C10-r4m5', '/tmp/mut-R4/mutants/5', 'C10', [('demo_test.rs', 'src/tests/sim_tests/switch_sim_tests.rs', M, 'r4m5_')]),
 # ---- round 5: the execution side of tap-hold / one-shot / tap-dance in Layout, and handle_repeat_actual
 ('C05-r5m1', '/tmp/mut-R5/mutants/1', 'C05', [('demo_test.rs', 'keyberon/src/layout.rs', K, 'r5m1_')]),
 ('C05-r5m2', '/tmp/mut-R5/mutants/2', 'C05', [('demo_test.rs', 'keyberon/src/layout.rs', K, 'r5m2_')]),
 ('C06-r5m3', '/tmp/mut-R5/mutants/3', 'C06', [('demo_test.rs', 'keyberon/src/layout.rs', K, 'r5m3_')]),
 ('C17-r5m4', '/tmp/mut-R5/mutants/4', 'C17', [('demo_test.rs', 'keyberon/src/layout.rs', K, 'r5m4_')]),
 ('C14-r5m5', '/tmp/mut-R5/mutants/5', 'C14', [('demo_test.rs', 'src/tests/sim_tests/repeat_sim_tests.rs', M, 'r5m5_')]),
 ('C14-r5m6', '/tmp/mut-R5/mutants/6', 'C14', [('demo_test.rs', 'src/tests/sim_tests/repeat_sim_tests.rs', M, 'r5m6_')]),
 # ---- round 6: the functions that came under contract last (layers, seqs, reload, sexpr, holdtap units)
 ('C08-r6m1', '/tmp/mut-R6/mutants/1', 'C08', [('demo_test.rs', 'src/tests/sim_tests/macro_sim_tests.rs', M, 'r6m1_')]),
 ('C04-r6m2', '/tmp/mut-R6/mutants/2', 'C04', [('demo_test.rs', 'src/tests/sim_tests/macro_sim_tests.rs', M, 'r6m2_')]),
 ('C05-r6m3', '/tmp/mut-R6/mutants/3', 'C05', [('demo_test.rs', 'keyberon/src/layout.rs', K, 'r6m3_')]),
 ('C04-r6m4', '/tmp/mut-R6/mutants/4', 'C04', [('demo_test.rs', 'src/tests/sim_tests/layer_sim_tests.rs', M, 'r6m4_')]),
 ('C15-r6m5', '/tmp/mut-R6/mutants/5', 'C15', [('demo_test.rs', 'src/kanata/mod.rs', M, 'r6m5_')]),
 ('C15-r6m6', '/tmp/mut-R6/mutants/6', 'C15', [('demo_test.rs', 'src/kanata/mod.rs', M, 'r6m6_')]),
 ('C03-r6m7', '/tmp/mut-R6/mutants/7', 'C03', [('demo_test.rs', 'parser/src/cfg/sexpr.rs', P, 'r6m7_')]),
 # ---- round 7: tick_wt TapDance arm, add_kc_output / table builder, output-chord arm, play_macro
 ('C17-r7m1', '/tmp/mut-R7/mutants/1', 'C17', [('demo_test.rs', 'keyberon/src/layout.rs', K, 'r7m1_')]),
 ('C17-r7m2', '/tmp/mut-R7/mutants/2', 'C17', [('demo_test.rs', 'keyberon/src/layout.rs', K, 'r7m2_')]),
 ('C14-r7m3', '/tmp/mut-R7/mutants/3', 'C14', [('demo_test.rs', 'src/tests/sim_tests/repeat_sim_tests.rs', M, 'r7m3_')]),
 ('C14-r7m4', '/tmp/mut-R7/mutants/4', 'C14', [('demo_test.rs', 'src/tests/sim_tests/repeat_sim_tests.rs', M, 'r7m4_')]),
 ('C04-r7m5', '/tmp/mut-R7/mutants/5', 'C04', [('demo_test.rs', 'keyberon/src/layout.rs', K, 'r7m5_')]),
 ('C19-r7m6', '/tmp/mut-R7/mutants/6', 'C19', [('demo_test.rs', 'src/tests/sim_tests/macro_sim_tests.rs', M, 'r7m6_')]),
 # ---- round 8: parser/src/cfg/key_override.rs (C13, claimed late)
 ('C13-r8m1', '/tmp/mut-R8/mutants/1', 'C13', [('demo_test.rs', 'src/tests/sim_tests/override_tests.rs', M, 'r8m1_')]),
 ('C13-r8m2', '/tmp/mut-R8/mutants/2', 'C13', [('demo_test.rs', 'src/tests/sim_tests/override_tests.rs', M, 'r8m2_')]),
 ('C13-r8m3', '/tmp/mut-R8/mutants/3', 'C13', [('demo_test.rs', 'parser/src/cfg/key_override.rs', P, 'r8m3_')]),
 ('C13-r8m4', '/tmp/mut-R8/mutants/4', 'C13', [('demo_test.rs', 'src/tests/sim_tests/override_tests.rs', M, 'r8m4_')]),
 ('C13-r8m5', '/tmp/mut-R8/mutants/5', 'C13', [('demo_test.rs', 'src/tests/sim_tests/override_tests.rs', M, 'r8m5_')]),
 # ---- round 9: what came under contract last (tick_wt whole, custom tap-hold closures, get_active_chord, parse_switch, chords-v2 table, Custom arm)
 ('C05-r9m1', '/tmp/mut-R9/mutants/1', 'C05', [('demo_test.rs', 'keyberon/src/layout.rs', K, 'r9m1_')]),
 ('C05-r9m2', '/tmp/mut-R9/mutants/2', 'C05', [('demo_test.rs', 'src/tests/sim_tests/release_sim_tests.rs', M, 'r9m2_')]),
 ('C05-r9m3', '/tmp/mut-R9/mutants/3', 'C05', [('demo_test.rs', 'src/tests/sim_tests/release_sim_tests.rs', M, 'r9m3_')]),
 ('C09-r9m4', '/tmp/mut-R9/mutants/4', 'C09', [('demo_test.rs', 'src/tests/sim_tests/chord_sim_tests.rs', M, 'r9m4_')]),
 ('C10-r9m5', '/tmp/mut-R9/mutants/5', 'C10', [('demo_test.rs', 'src/tests/sim_tests/switch_sim_tests.rs', M, 'r9m5_')]),
 ('C14-r9m6', '/tmp/mut-R9/mutants/6', 'C14', [('demo_test.rs', 'src/tests/sim_tests/repeat_sim_tests.rs', M, 'r9m6_')]),
 ('C06-r9m7', '/tmp/mut-R9/mutants/7', 'C06', [('demo_test.rs', 'src/tests/sim_tests/oneshot_tests.rs', M, 'r9m7_')]),
]
ENV = dict(os.environ, CARGO_TARGET_DIR=TGT, CARGO_NET_OFFLINE='true')


def sh(cmd, cwd=WT):
    p = subprocess.run(cmd, cwd=cwd, env=ENV, stdout=subprocess.PIPE, stderr=subprocess.STDOUT, text=True, errors='replace')
    return p.returncode, p.stdout


def clean():
    sh(['git', 'checkout', '--', '.'])
    sh(['git', 'clean', '-fdq'])


def results(out):
    return re.findall(r'test result: (\w+)\. (\d+) passed; (\d+) failed', out)


def main():
    only = sys.argv[1:]
    if not os.path.exists(WT):
        subprocess.run(['git', '-C', '/repo', 'worktree', 'add', '-q', '--detach', WT, 'HEAD'], check=True)
    for (mid, src, prop, demos) in T:
        if only and mid not in only:
            continue
        dst = '/verif/seeded/' + mid
        if os.path.exists(os.path.join(dst, 'meta.json')) and not only:
            continue
        clean()
        meta = {'id': mid, 'breaks_property': prop, 'source': 'independent sub-agent given only the property text and its own worktree', 'ran': []}
        rc, out = sh(['git', 'apply', '--check', os.path.join(src, 'patch.diff')])
        meta['patch_applies'] = rc == 0
        if rc != 0:
            meta['error'] = out[-500:]
        else:
            sh(['git', 'apply', os.path.join(src, 'patch.diff')])
            rc, out = sh(['cargo', 'test', '--workspace', '--no-fail-fast', '--offline'])
            rs = results(out)
            meta['suite_with_patch'] = {'rc': rc, 'passed': sum(int(r[1]) for r in rs), 'failed': sum(int(r[2]) for r in rs)}
            meta['ran'].append('git apply patch.diff && cargo test --workspace --no-fail-fast --offline -> %s' % meta['suite_with_patch'])
            demo_with, demo_without = [], []
            for (df, target, (pkg, extra), flt) in demos:
                open(os.path.join(WT, target), 'a').write('\n' + open(os.path.join(src, df)).read())
            for (df, target, (pkg, extra), flt) in demos:
                cmd = ['cargo', 'test', '-p', pkg] + extra + ['--offline', flt]
                rc, out = sh(cmd)
                rs = results(out)
                demo_with.append({'cmd': ' '.join(cmd), 'rc': rc, 'passed': sum(int(r[1]) for r in rs), 'failed': sum(int(r[2]) for r in rs),
                                  'first_failure': (re.findall(r"panicked at[^\n]*\n[^\n]*", out) or [''])[0][:300]})
            sh(['git', 'apply', '-R', os.path.join(src, 'patch.diff')])
            for (df, target, (pkg, extra), flt) in demos:
                cmd = ['cargo', 'test', '-p', pkg] + extra + ['--offline', flt]
                rc, out = sh(cmd)
                rs = results(out)
                demo_without.append({'cmd': ' '.join(cmd), 'rc': rc, 'passed': sum(int(r[1]) for r in rs), 'failed': sum(int(r[2]) for r in rs)})
            meta['demo_with_patch'] = demo_with
            meta['demo_without_patch'] = demo_without
            meta['demo_install'] = [{'file': df, 'append_to': target} for (df, target, _, _) in demos]
            meta['confirmed'] = (meta['suite_with_patch']['failed'] == 0 and meta['suite_with_patch']['passed'] >= 280
                                 and all(d['failed'] > 0 for d in demo_with)
                                 and all(d['failed'] == 0 and d['passed'] > 0 for d in demo_without))
        os.makedirs(dst, exist_ok=True)
        for f in os.listdir(src):
            if f.endswith('.log'):
                continue
            shutil.copy(os.path.join(src, f), os.path.join(dst, f))
        # needs-to-manifest: first lines of the relevant notes section
        notes = open(os.path.join(src, 'notes.md')).read()
        m = re.search(r'(?is)(what is needed to manifest|needs? to manifest|needed to manifest)[^\n]*\n(.*?)(\n## |\Z)', notes)
        meta['needs_to_manifest'] = (m.group(2).strip()[:900] if m else 'see notes.md')
        json.dump(meta, open(os.path.join(dst, 'meta.json'), 'w'), indent=1)
        print(mid, 'confirmed' if meta.get('confirmed') else 'NOT CONFIRMED', meta.get('suite_with_patch'), flush=True)
    clean()


if __name__ == '__main__':
    main()
