#!/usr/bin/env python3
"""Fill the seeded-change detection table in DESIGN.md from seeded/*/meta.json + detection.json."""
import json, os, re
V = os.path.dirname(os.path.dirname(os.path.abspath(__file__)))
rows = []
for d in sorted(os.listdir(os.path.join(V, 'seeded'))):
    sd = os.path.join(V, 'seeded', d)
    if not os.path.exists(os.path.join(sd, 'meta.json')):
        continue
    meta = json.load(open(os.path.join(sd, 'meta.json')))
    det = json.load(open(os.path.join(sd, 'detection.json'))) if os.path.exists(os.path.join(sd, 'detection.json')) else {}
    notes = open(os.path.join(sd, 'notes.md')).read() if os.path.exists(os.path.join(sd, 'notes.md')) else ''
    title = (re.search(r'^#\s*(.+)$', notes, flags=re.M) or [None, ''])[1][:110]
    res = []
    for k, v in sorted(det.items()):
        if v['exit'] == 1:
            res.append('**caught** by %s: %s' % (k, ', '.join('`%s`' % o for o in v['failed_obligations'][:3])))
        elif v['exit'] == 0:
            res.append('missed by %s' % k)
        else:
            res.append('undecided (exit %s) by %s' % (v['exit'], k))
    rows.append('| %s | %s | %s | %s |' % (d, meta['breaks_property'], title.replace('|', '/'), '; '.join(res) or 'not run'))
table = '| seeded change | property | what it is | result |\n|---|---|---|---|\n' + '\n'.join(rows)
p = os.path.join(V, 'DESIGN.md')
s = open(p).read()
if 'DETECTION_TABLE' in s:
    s = s.replace('DETECTION_TABLE', '<!-- DETECTION:BEGIN -->\n' + table + '\n<!-- DETECTION:END -->')
else:
    s = re.sub(r'<!-- DETECTION:BEGIN -->.*?<!-- DETECTION:END -->', lambda m: '<!-- DETECTION:BEGIN -->\n' + table + '\n<!-- DETECTION:END -->', s, flags=re.S)
open(p, 'w').write(s)
caught = sum(1 for r in rows if '**caught**' in r)
print('%d seeded changes, %d caught' % (len(rows), caught))
