#!/usr/bin/env python3
"""Regenerate MANIFEST.json from lib/props.py + lib/na.py (so it is always valid and current)."""
import json, os, sys
HERE = os.path.dirname(os.path.abspath(__file__))
sys.path.insert(0, HERE)
import props, na

checks = []
for pid in sorted(props.PROPS):
    P = props.PROPS[pid]
    c = {
        'property_id': pid,
        'quick_cmd': 'bin/check %s --tier quick' % pid,
        'thorough_cmd': 'bin/check %s --tier thorough' % pid,
        'evidence_file': 'evidence/%s.json' % pid,
        'replay_cmd_template': 'bin/check %s --replay {path}' % pid,
        'engine': 'contracts',
        'level_claimed': {'category': P['level'], 'text': P['level_text'], 'design_ref': P.get('design_ref', 'DESIGN.md section 4')},
        'level_note': P['level_note'],
        'technique': P['technique'],
    }
    checks.append(c)
m = {
    'version': 1,
    'setup_cmd': 'bin/setup',
    'hooks': na.HOOKS,
    'engines': [{'name': 'contracts', 'path': 'lib/driver.py', 'serves_properties': sorted(props.PROPS),
                 'kind_free_text': 'contract-based deductive verification: Verus (Z3) on functions extracted mechanically from /repo each run + Kani (CBMC) harnesses and function contracts on the real crates'}],
    'checks': checks,
    'not_applicable': [{'property_id': k, 'reason': v} for k, v in sorted(na.NOT_APPLICABLE.items()) if k not in props.PROPS],
    'notes': na.NOTES,
}
json.dump(m, open(os.path.join(HERE, '..', 'MANIFEST.json'), 'w'), indent=1)
print('MANIFEST.json: %d checks, %d not applicable' % (len(checks), len(m['not_applicable'])))
