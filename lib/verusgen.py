"""Generate a single-file Verus input from /repo source + a side-car contract file.

The side-car (contracts/<unit>.spec.rs) never contains executable function
bodies from the repository; it holds spec functions, lemmas, assumed contracts
for external code, and per-item `requires/ensures/invariant/decreases/proof`
text keyed by item name, loop ordinal and source-text anchors.

Directives (a line starting with `//@`):

  //@ unit <name>
  //@ raw                      text up to the next directive is emitted verbatim
  //@ item <path> <kind> <name> [in <impl-regex>] [as <newname>]
        kind: fn enum struct const type
     //@@ wrap <header>        emit inside `<header> { ... }` (e.g. `impl OpCode`)
     //@@ attr <text>          attribute line emitted before the item
     //@@ ret <ident>          name the return value: `-> T` becomes `-> (ident: T)`
     //@@ spec                 following lines go between signature and body
     //@@ loop <n>             following lines go between the n-th loop header and its body
     //@@ before <n> `<anchor>`  following lines are inserted before the n-th occurrence of anchor
     //@@ after <n> `<anchor>`   ... after it
     //@@ sub <tag> <count> `<from>` => `<to>`     literal rewrite, must apply exactly <count> times
     //@@ resub <tag> <count> /<regex>/ => `<to>`
     //@@ sig `<from>` => `<to>`   rewrite applied to the signature only (logged as rewrite)
     //@@ keep-derives         keep #[derive(..)] line of enum/struct (default: derives are
                               replaced by what the side-car gives with //@@ attr)
  //@ enumvals <path> <enum-name> <constname>
        emits `spec fn <constname>() -> Seq<int>` listing the discriminants read from source

Global rewrite R1 (delete log::*! statements) is applied to every fn item.
"""
import hashlib
import os
import re

from rustcut import (ExtractionLost, attrs_before, body_open, dedent, find_item,
                     fn_parts, impl_body, line_of, loops, match_close, tokens)


class SpecError(Exception):
    pass


LOG_RE = re.compile(r'^[ \t]*log::(?:trace|debug|info|warn|error)!\(', re.M)


def remove_log_statements(text, rewrites, where):
    out = []
    pos = 0
    while True:
        m = LOG_RE.search(text, pos)
        if not m:
            out.append(text[pos:])
            break
        par = text.index('(', m.start())
        end = match_close(text, par)
        # expect `;` right after
        j = end
        while j < len(text) and text[j] in ' \t':
            j += 1
        if j < len(text) and text[j] == ';':
            j += 1
            # statement form: drop the whole statement including newline
            if j < len(text) and text[j] == '\n':
                j += 1
            out.append(text[pos:m.start()])
            rewrites.append({'tag': 'R1', 'where': where,
                             'before': text[m.start():j].strip()[:160], 'after': ''})
            pos = j
        else:
            # expression position (e.g. last expr in a block): replace by ()
            out.append(text[pos:m.start()])
            out.append(' ' * (len(m.group(0)) - len(m.group(0).lstrip())) + '()')
            rewrites.append({'tag': 'R1', 'where': where,
                             'before': text[m.start():end].strip()[:160], 'after': '()'})
            pos = end
    return ''.join(out)


def replace_macro_statements(text, mname, repl, tag, rewrites, where):
    """`name!( ... );` or `name!( ... )` in statement position -> repl (error-path macros whose
    expansion formats a message: the message is dropped, the control flow is kept by repl)."""
    rx = re.compile(r'\b' + re.escape(mname) + r'!\(')
    out, pos, n = [], 0, 0
    while True:
        m = rx.search(text, pos)
        if not m:
            out.append(text[pos:])
            break
        par = text.index('(', m.start())
        end = match_close(text, par)
        j = end
        while j < len(text) and text[j] in ' \t':
            j += 1
        if j < len(text) and text[j] == ';':
            j += 1
        out.append(text[pos:m.start()])
        out.append(repl)
        rewrites.append({'tag': tag, 'where': where, 'before': ' '.join(text[m.start():j].split())[:160], 'after': repl})
        pos = j
        n += 1
    if n == 0:
        raise ExtractionLost('%s: rewrite %s: no `%s!(..)` statement found' % (where, tag, mname))
    return ''.join(out)


def _cfg_eval(pred, cfg):
    """Evaluate a cfg predicate string under cfg = {'target_os': 'linux', 'features': set(), 'flags': set()}"""
    pred = pred.strip()
    m = re.match(r'^(any|all|not)\s*\((.*)\)$', pred, flags=re.S)
    if m:
        # split args at depth 0
        args, depth, cur = [], 0, ''
        for ch in m.group(2):
            if ch == '(':
                depth += 1
            elif ch == ')':
                depth -= 1
            if ch == ',' and depth == 0:
                args.append(cur)
                cur = ''
            else:
                cur += ch
        if cur.strip():
            args.append(cur)
        vals = [_cfg_eval(a, cfg) for a in args]
        if m.group(1) == 'any':
            return any(vals)
        if m.group(1) == 'all':
            return all(vals)
        return not vals[0]
    m = re.match(r'^([a-z_]+)\s*=\s*"([^"]*)"$', pred)
    if m:
        if m.group(1) == 'feature':
            return m.group(2) in cfg['features']
        return cfg.get(m.group(1)) == m.group(2)
    return pred in cfg['flags']


CFG = {'target_os': 'linux', 'target_family': 'unix', 'features': set(), 'flags': {'unix'}}


def apply_cfg(text, rewrites, where, cfg=None):
    """R6: resolve statement-level #[cfg(..)] attributes inside an item for the single
    configuration that is verified (target_os = "linux", listed features)."""
    cfg = cfg or CFG
    out = []
    pos = 0
    pat = re.compile(r'#\[cfg\(')
    while True:
        m = pat.search(text, pos)
        if not m:
            out.append(text[pos:])
            break
        close = match_close(text, m.end() - 1)       # matching ')'
        pred = text[m.end():close - 1]
        j = close
        while j < len(text) and text[j] in ' \t':
            j += 1
        if j >= len(text) or text[j] != ']':
            out.append(text[pos:close])
            pos = close
            continue
        attr_end = j + 1
        keep = _cfg_eval(pred, cfg)
        # the attributed statement / block
        k = attr_end
        while k < len(text) and text[k].isspace():
            k += 1
        mkw = re.match(r'(if|match|while|for|loop|unsafe)\b', text[k:])
        if text[k] == '{':
            stmt_end = match_close(text, k)
        elif mkw:
            # a block-like statement (no trailing `;`): it ends with its block, plus `else` chains
            bo_ = body_open(text, k, stop_at_semicolon=False)
            stmt_end = match_close(text, bo_)
            while True:
                me = re.match(r'\s*else\b', text[stmt_end:])
                if not me:
                    break
                bo_ = body_open(text, stmt_end + me.end(), stop_at_semicolon=False)
                stmt_end = match_close(text, bo_)
        else:
            depth = 0
            stmt_end = None
            for kind, a, b in tokens(text, k):
                if kind == 'open':
                    depth += 1
                elif kind == 'close':
                    depth -= 1
                    if depth < 0:
                        stmt_end = a
                        break
                elif kind == 'punct' and text[a] == ';' and depth == 0:
                    stmt_end = b
                    break
                elif kind == 'punct' and text[a] == ',' and depth == 0:
                    stmt_end = b
                    break
            if stmt_end is None:
                stmt_end = len(text)
        out.append(text[pos:m.start()])
        if keep:
            out.append(text[k:stmt_end])
        rewrites.append({'tag': 'R6', 'where': where, 'before': '#[cfg(%s)] %s' % (pred, text[k:stmt_end].strip()[:80]),
                         'after': 'kept' if keep else 'dropped'})
        pos = stmt_end
    return ''.join(out)


class Item:
    def __init__(self, path, kind, name, within=None, newname=None, line=0):
        self.path, self.kind, self.name = path, kind, name
        self.within, self.newname = within, newname
        self.wrap = None
        self.attrs = []
        self.ret = None
        self.spec = []
        self.loops = {}
        self.loops_at = []
        self.inserts = []  # (mode, n, anchor, lines, sidecar_line)
        self.subs = []     # (tag, count, kind, from, to)
        self.sigsubs = []
        self.keep_derives = False
        self.keep_vis = False
        self.no_derives = False
        self.keep_variants = None
        self.keep_fields = None
        self.add_fields = []
        self.pre = []
        self.line = line
        self.fragment = None   # (mode, anchor): 'block-after' | 'head-until'
        self.header = []
        self.tail = []
        self.prefix = []
        self.distribute_guard = None
        self.macro_stmts = []  # (tag, macro name, replacement statement)


class Unit:
    def __init__(self, name):
        self.name = name
        self.parts = []  # ('raw', text, sidecar_line) | ('item', Item) | ('enumvals', path, enum, constname)


_BT = r'`((?:[^`\\]|\\.)*)`'


def _unq(s):
    return s.replace('\\`', '`').replace('\\n', '\n')


def parse_sidecar(path):
    unit = None
    cur = None      # list that content lines are appended to
    item = None
    with open(path) as f:
        lines = f.read().split('\n')
    for ln, line in enumerate(lines, 1):
        st = line.strip()
        if st.startswith('//@@'):
            if item is None:
                raise SpecError('%s:%d: //@@ outside item' % (path, ln))
            d = st[4:].strip()
            w = d.split(None, 1)
            key = w[0]
            rest = w[1] if len(w) > 1 else ''
            if key == 'wrap':
                item.wrap = rest
                cur = None
            elif key == 'attr':
                item.attrs.append(rest)
                cur = None
            elif key == 'ret':
                item.ret = rest.strip()
                cur = None
            elif key == 'pre':
                cur = item.pre
            elif key == 'spec':
                cur = item.spec
            elif key == 'loop':
                n = int(rest)
                cur = item.loops.setdefault(n, [])
            elif key == 'loop-at':
                m = re.match(_BT + r'\s*$', rest)
                if not m:
                    raise SpecError('%s:%d: bad loop-at' % (path, ln))
                cur = []
                item.loops_at.append((_unq(m.group(1)), cur, ln))
            elif key in ('before', 'after'):
                m = re.match(r'(\d+)\s+' + _BT + r'\s*$', rest)
                if not m:
                    raise SpecError('%s:%d: bad %s' % (path, ln, key))
                cur = []
                item.inserts.append((key, int(m.group(1)), _unq(m.group(2)), cur, ln))
            elif key in ('before-re', 'after-re'):
                # anchor given as a regular expression (for statements whose arguments may change)
                m = re.match(r'(\d+)\s+/((?:[^/\\]|\\.)*)/\s*$', rest)
                if not m:
                    raise SpecError('%s:%d: bad %s' % (path, ln, key))
                cur = []
                item.inserts.append((key[:-3], int(m.group(1)), re.compile(m.group(2), re.S), cur, ln))
            elif key == 'sub':
                m = re.match(r'(\S+)\s+(\d+)\s+' + _BT + r'\s*=>\s*' + _BT + r'\s*$', rest)
                if not m:
                    raise SpecError('%s:%d: bad sub' % (path, ln))
                item.subs.append((m.group(1), int(m.group(2)), 'lit', _unq(m.group(3)), _unq(m.group(4))))
                cur = None
            elif key == 'resub':
                # optional trailing: default `X` = what an unmatched optional group expands to
                m = re.match(r'(\S+)\s+(\d+|\+|\*)\s+/((?:[^/\\]|\\.)*)/\s*=>\s*' + _BT + r'(?:\s+default\s+' + _BT + r')?\s*$', rest)
                if not m:
                    raise SpecError('%s:%d: bad resub' % (path, ln))
                item.subs.append((m.group(1), {'+': -1, '*': -2}.get(m.group(2)) or int(m.group(2)), 're' if m.group(5) is None else ('re', _unq(m.group(5))), m.group(3), _unq(m.group(4))))
                cur = None
            elif key == 'sig':
                m = re.match(r'(\S+)\s+' + _BT + r'\s*=>\s*' + _BT + r'\s*$', rest)
                if not m:
                    raise SpecError('%s:%d: bad sig' % (path, ln))
                item.sigsubs.append((m.group(1), _unq(m.group(2)), _unq(m.group(3))))
                cur = None
            elif key == 'keep-variants':
                item.keep_variants = rest.split()
                cur = None
            elif key == 'keep-fields':
                item.keep_fields = rest.split()
                cur = None
            elif key == 'add-field':
                item.add_fields.append(rest)
                cur = None
            elif key == 'no-derives':
                item.no_derives = True
                cur = None
            elif key == 'keep-vis':
                item.keep_vis = True
                cur = None
            elif key == 'keep-derives':
                item.keep_derives = True
                cur = None
            elif key == 'distribute-guard':
                item.distribute_guard = rest.strip() or 'R23'
                cur = None
            elif key == 'header':
                cur = item.header
            elif key == 'tail':
                cur = item.tail
            elif key == 'prefix':
                cur = item.prefix
            elif key == 'macro-stmt':
                m = re.match(r'(\S+)\s+(\S+)\s*=>\s*' + _BT + r'\s*$', rest)
                if not m:
                    raise SpecError('%s:%d: bad macro-stmt' % (path, ln))
                item.macro_stmts.append((m.group(1), m.group(2), _unq(m.group(3))))
                cur = None
            else:
                raise SpecError('%s:%d: unknown directive %s' % (path, ln, key))
            continue
        if st.startswith('//@'):
            d = st[3:].strip()
            w = d.split()
            if not w:
                continue
            if w[0] == 'unit':
                unit = Unit(w[1])
                cur = None
                item = None
            elif w[0] == 'raw':
                cur = []
                item = None
                unit.parts.append(('raw', cur, ln))
            elif w[0] == 'item':
                m = re.match(r'item\s+(\S+)\s+(\S+)\s+(\S+)(?:\s+in\s+`([^`]*)`)?(?:\s+as\s+(\S+))?\s*$', d)
                if not m:
                    raise SpecError('%s:%d: bad item' % (path, ln))
                item = Item(m.group(1), m.group(2), m.group(3), m.group(4), m.group(5), ln)
                unit.parts.append(('item', item))
                cur = None
            elif w[0] == 'fragment':
                # //@ fragment <path> fn <name> [in `impl`] block-after|head-until `anchor` as <newname>
                m = re.match(r'fragment\s+(\S+)\s+fn\s+(\S+)(?:\s+in\s+`([^`]*)`)?\s+(block-after|head-until|stmt-at|expr-after)\s+' + _BT + r'(?:\s+until\s+' + _BT + r')?\s+as\s+(\S+)\s*$', d)
                if not m:
                    raise SpecError('%s:%d: bad fragment' % (path, ln))
                item = Item(m.group(1), 'fn', m.group(2), m.group(3), m.group(7), ln)
                item.fragment = (m.group(4), _unq(m.group(5)), _unq(m.group(6)) if m.group(6) else None)
                unit.parts.append(('item', item))
                cur = None
            elif w[0] == 'enumconst':
                # //@ enumconst <path> <enum> <Variant> <constname>: the discriminant of one named variant,
                # read from the enum body, as `spec fn constname() -> int`
                unit.parts.append(('enumconst', w[1], w[2], w[3], w[4]))
                cur = None
                item = None
            elif w[0] == 'enumvals':
                unit.parts.append(('enumvals', w[1], w[2], w[3]))
                cur = None
                item = None
            elif w[0] in ('strtable', 'strtable-variants'):
                # //@ strtable <path> <fn> <enum-path> <enum> <name-regex> <constname>
                # strtable: discriminants of the variants the names map to (sorted by name);
                # strtable-variants: the variants themselves, as Seq<enum> (independent of numbering)
                unit.parts.append(('strtable', w[1], w[2], w[3], w[4], w[5], w[6], w[0] == 'strtable-variants'))
                cur = None
                item = None
            elif w[0] == 'end':
                cur = None
                item = None
            else:
                raise SpecError('%s:%d: unknown directive %s' % (path, ln, w[0]))
            continue
        if cur is not None:
            cur.append((line, ln))
    if unit is None:
        raise SpecError('%s: no //@ unit' % path)
    return unit


def read_enum_discriminants(src, enum_name):
    span = find_item(src, 'enum', enum_name)
    text = src[span[0]:span[1]]
    bo = text.index('{')
    body = text[bo + 1:-1]
    out = []
    # strip comments
    clean = []
    for k, a, b in tokens(body):
        pass
    body_nc = re.sub(r'//[^\n]*', '', body)
    body_nc = re.sub(r'#\[[^\]]*\]', '', body_nc)
    nxt = 0
    for ent in body_nc.split(','):
        ent = ent.strip()
        if not ent:
            continue
        m = re.match(r'^([A-Za-z_][A-Za-z0-9_]*)\s*(?:=\s*(0x[0-9a-fA-F_]+|[0-9_]+))?$', ent)
        if not m:
            raise ExtractionLost('enum %s: cannot read variant %r' % (enum_name, ent[:40]))
        if m.group(2) is not None:
            v = int(m.group(2).replace('_', ''), 0)
        else:
            v = nxt
        out.append((m.group(1), v))
        nxt = v + 1
    return out, line_of(src, span[0])


class Generated:
    def __init__(self):
        self.lines = []       # text lines
        self.origin = []      # per line: ('src', path, line) | ('spec', sidecar, line) | ('gen',)
        self.items = []       # dicts: name, path, src_line, gen_first, gen_last, sha256
        self.rewrites = []
        self.trusted = []

    def add(self, text, origin_fn):
        for i, l in enumerate(text.split('\n')):
            self.lines.append(l)
            self.origin.append(origin_fn(i))

    def text(self):
        return '\n'.join(self.lines) + '\n'

    def locate(self, gen_line):
        """Map a generated-file line to (item name or None, origin)."""
        it = None
        for d in self.items:
            if d['gen_first'] <= gen_line <= d['gen_last']:
                it = d
                break
        org = self.origin[gen_line - 1] if 0 < gen_line <= len(self.origin) else ('gen',)
        return it, org


def _apply_inserts(text, inserts, where):
    """inserts: list of (pos, text) -> apply from the end."""
    for pos, ins in sorted(inserts, key=lambda x: -x[0]):
        text = text[:pos] + ins + text[pos:]
    return text


def _nth(text, anchor, n, where):
    """Start/end of the n-th occurrence of anchor; whitespace runs in the anchor match any
    whitespace (so re-indentation by rustfmt does not lose it)."""
    if hasattr(anchor, 'finditer'):
        pat, anchor = anchor, '/' + anchor.pattern + '/'
    else:
        parts = [re.escape(x) for x in anchor.split()]
        pat = re.compile(r'\s+'.join(parts))
    ms = list(pat.finditer(text))
    if len(ms) < n:
        raise ExtractionLost('%s: anchor `%s` (occurrence %d) not found' % (where, anchor, n))
    return ms[n - 1].start(), ms[n - 1].end()


MARK_OPEN = '/*+spec*/'
MARK_CLOSE = '/*-spec*/'


def build(repo, sidecar_path, extra_spec=None, reach=False):
    """extra_spec: optional dict item-name -> list of extra spec lines (used for vacuity twins)."""
    unit = parse_sidecar(sidecar_path)
    g = Generated()
    g.unit = unit.name
    sc = os.path.relpath(sidecar_path, '/verif') if sidecar_path.startswith('/verif') else sidecar_path
    g.add('// GENERATED by /verif/lib/verusgen.py from %s and the working tree of %s -- do not edit' % (sc, repo),
          lambda i: ('gen',))
    g.add('#![allow(unused, non_camel_case_types, non_snake_case, non_upper_case_globals, dead_code)]\nuse vstd::prelude::*;\nverus! {', lambda i: ('gen',))
    g.reach = []   # reach twin: (k, fn name, description)
    if reach:
        g.add('pub uninterp spec fn verif_reach(k: int) -> bool;', lambda i: ('gen',))
    def _rp(fn_name, desc):
        # a reachability probe: an assertion that can never be proved, so it FAILS wherever control
        # can arrive with a consistent context; a probe that does not fail marks a vacuous point
        k = len(g.reach)
        g.reach.append((k, fn_name, desc))
        return '\n' + MARK_OPEN + '\n    proof { assert(verif_reach(%d)); }\n' % k + MARK_CLOSE + '\n'
    srcs = {}
    open_wrap = None
    for part in unit.parts:
        if part[0] == 'raw':
            if open_wrap:
                g.add('}', lambda i: ('gen',))
                open_wrap = None
            lines = part[1]
            for (l, ln) in lines:
                g.lines.append(l)
                g.origin.append(('spec', sc, ln))
            continue
        if part[0] == 'enumvals':
            if open_wrap:
                g.add('}', lambda i: ('gen',))
                open_wrap = None
            _, path, enum, cname = part
            src = srcs.setdefault(path, open(os.path.join(repo, path)).read())
            vals, l0 = read_enum_discriminants(src, enum)
            g.items.append({'name': cname, 'kind': 'enumvals', 'path': path, 'src_line': l0,
                            'gen_first': len(g.lines) + 1, 'gen_last': len(g.lines) + 3,
                            'sha256': hashlib.sha256(repr(vals).encode()).hexdigest(), 'count': len(vals)})
            g.add('spec fn %s() -> Seq<int> { seq![%s] }' % (cname, ', '.join('%dint' % v for _, v in vals)),
                  lambda i: ('src', path, l0))
            g.enumvals = getattr(g, 'enumvals', {})
            g.enumvals[cname] = vals
            continue
        if part[0] == 'enumconst':
            if open_wrap:
                g.add('}', lambda i: ('gen',))
                open_wrap = None
            _, path, enum, variant, cname = part
            src = srcs.setdefault(path, open(os.path.join(repo, path)).read())
            vals, l0 = read_enum_discriminants(src, enum)
            d_ = dict(vals)
            if variant not in d_:
                raise ExtractionLost('%s: enum %s has no variant %s' % (path, enum, variant))
            g.items.append({'name': cname, 'kind': 'enumconst', 'path': path, 'src_line': l0,
                            'gen_first': len(g.lines) + 1, 'gen_last': len(g.lines) + 1,
                            'sha256': hashlib.sha256(('%s::%s=%d' % (enum, variant, d_[variant])).encode()).hexdigest()})
            g.add('spec fn %s() -> int { %dint }  // %s::%s, read from %s' % (cname, d_[variant], enum, variant, path), lambda i: ('src', path, l0))
            continue
        if part[0] == 'strtable':
            if open_wrap:
                g.add('}', lambda i: ('gen',))
                open_wrap = None
            _, path, fnname, epath, enum, rx, cname = part[:7]
            as_variants = len(part) > 7 and part[7]
            src = srcs.setdefault(path, open(os.path.join(repo, path)).read())
            esrc = srcs.setdefault(epath, open(os.path.join(repo, epath)).read())
            vals, _l0 = read_enum_discriminants(esrc, enum)
            disc = dict(vals)
            span = find_item(src, 'fn', fnname)
            body = src[span[0]:span[1]]
            l0 = line_of(src, span[0])
            rows = []
            for m in re.finditer(r'((?:"(?:[^"\\\\]|\\\\.)*"\s*\|?\s*)+)=>\s*(?:Some\(\s*)?' + re.escape(enum) + r'::([A-Za-z0-9_]+)\s*\)?\s*,', body):
                for nm in re.findall(r'"((?:[^"\\\\]|\\\\.)*)"', m.group(1)):
                    if re.fullmatch(rx, nm):
                        if m.group(2) not in disc:
                            raise ExtractionLost('%s: %s::%s not found in enum' % (path, enum, m.group(2)))
                        rows.append((nm, m.group(2), disc[m.group(2)]))
            if not rows:
                raise ExtractionLost('%s: no arm of fn %s matches /%s/' % (path, fnname, rx))
            rows.sort()
            g.items.append({'name': cname, 'kind': 'strtable', 'path': path, 'src_line': l0,
                            'gen_first': len(g.lines) + 1, 'gen_last': len(g.lines) + 2,
                            'sha256': hashlib.sha256(repr(rows).encode()).hexdigest(), 'count': len(rows)})
            g.add('// names read from the match arms of fn %s: %s' % (fnname, ', '.join('%s=>%s' % (r[0], r[1]) for r in rows)), lambda i: ('src', path, l0))
            if as_variants:
                g.add('spec fn %s() -> Seq<%s> { seq![%s] }' % (cname, enum, ', '.join('%s::%s' % (enum, r[1]) for r in rows)), lambda i: ('src', path, l0))
            else:
                g.add('spec fn %s() -> Seq<int> { seq![%s] }' % (cname, ', '.join('%dint' % r[2] for r in rows)), lambda i: ('src', path, l0))
            continue
        item = part[1]
        src = srcs.setdefault(item.path, open(os.path.join(repo, item.path)).read())
        within = None
        if item.within:
            ispan = find_item(src, 'impl', item.within)
            within = impl_body(src, ispan)
        span = find_item(src, item.kind, item.name, within)
        raw = src[span[0]:span[1]]
        src_line0 = line_of(src, span[0])
        where = '%s:%d %s %s' % (item.path, src_line0, item.kind, item.name)
        if item.fragment:
            # a FRAGMENT of the function: one balanced block (or the statements before an anchor),
            # wrapped in a synthetic signature given by the side-car.  Everything else of the
            # function is dropped and that is logged; the fragment text itself is subject to the
            # same splice check as a whole function.
            mode, anchor, until = item.fragment
            fbo = body_open(raw, 0)
            # an anchor written `re:<regex>` is a regular expression (the block opened by the LAST `{` of the match)
            a0, a1 = _nth(raw, re.compile(anchor[3:]) if anchor.startswith('re:') else anchor, 1, where)
            if mode == 'block-after':
                ob = raw.rindex('{', a0, a1)
                cb = match_close(raw, ob)
                inner = raw[ob + 1:cb - 1]
                if until:
                    # only the statements of the block before `until` (the rest of the block is dropped)
                    u0, _u1 = _nth(inner, until, 1, where)
                    inner = inner[:u0]
                f0 = ob
            elif mode == 'stmt-at':
                # one block-like statement (if / match / for / while / loop), from its keyword at the
                # anchor to the end of its block including `else` chains
                if re.match(r'(if|match|while|for|loop|unsafe)\b', raw[a0:]):
                    bo_ = body_open(raw, a0, stop_at_semicolon=False)
                    se = match_close(raw, bo_)
                    while True:
                        me = re.match(r'\s*else\b', raw[se:])
                        if not me:
                            break
                        bo_ = body_open(raw, se + me.end(), stop_at_semicolon=False)
                        se = match_close(raw, bo_)
                else:
                    # an expression statement: up to its `;` at bracket depth 0
                    depth_, se = 0, None
                    for kind_, ta_, tb_ in tokens(raw, a0):
                        if kind_ == 'open':
                            depth_ += 1
                        elif kind_ == 'close':
                            depth_ -= 1
                        elif kind_ == 'punct' and raw[ta_] == ';' and depth_ == 0:
                            se = tb_
                            break
                    if se is None:
                        raise ExtractionLost('%s: statement at `%s` has no end' % (where, anchor))
                inner = '\n' + raw[a0:se] + '\n'
                f0 = a0
            elif mode == 'expr-after':
                # the body of an EXPRESSION closure (`|d| *d = duration`): from the end of the anchor
                # (the closure's parameter list) to the `)` closing the call it is an argument of, or
                # to a `,` at bracket depth 0; it becomes one statement of the synthetic function
                depth_, se = 0, None
                for kind_, ta_, tb_ in tokens(raw, a1):
                    if kind_ == 'open':
                        depth_ += 1
                    elif kind_ == 'close':
                        if depth_ == 0:
                            se = ta_
                            break
                        depth_ -= 1
                    elif kind_ == 'punct' and raw[ta_] in ',;' and depth_ == 0:
                        se = ta_
                        break
                if se is None:
                    raise ExtractionLost('%s: expression after `%s` has no end' % (where, anchor))
                inner = '\n' + raw[a1:se].strip() + ';\n'
                f0 = a1
            else:
                inner = raw[fbo + 1:a0]
                f0 = fbo
            src_line0 = line_of(src, span[0] + f0)
            where = '%s:%d fragment %s of fn %s' % (item.path, src_line0, item.newname, item.name)
            header = '\n'.join(l for l, _ in item.header).rstrip()
            tail = '\n'.join(l for l, _ in item.tail)
            g.rewrites.append({'tag': 'Rfrag', 'where': where,
                               'before': 'fn %s: everything outside the %s `%s`%s' % (item.name, {'block-after': 'block opened by', 'stmt-at': 'statement starting at', 'expr-after': 'closure expression after'}.get(mode, 'statements before'), anchor, (' and, inside it, everything from `%s` on' % until) if until else ''),
                               'after': 'dropped; the fragment is wrapped in the synthetic signature `%s`%s' % (' '.join(header.split()), (' and followed by `%s`' % tail.strip()) if tail.strip() else '')})
            prefix = '\n'.join(l for l, _ in item.prefix)
            if prefix.strip():
                g.rewrites[-1]['after'] += '; the fragment is the body of `%s .. }`' % ' '.join(prefix.split())
            raw = header + ' {' + ('\n' + prefix if prefix.strip() else '') + dedent(inner.rstrip('\n')) + ('\n' + tail if tail.strip() else '') + '\n}'
        sha = hashlib.sha256(raw.encode()).hexdigest()
        text = dedent(raw)
        if item.keep_variants is not None and item.kind == 'enum':
            # R7 for enums: keep only the variants the extracted functions name; every other variant
            # is represented by one catch-all (the extracted code treats them uniformly via `_`)
            bo = body_open(text, 0)
            inner = re.sub(r'//[^\n]*', '', text[bo + 1:text.rindex('}')])
            parts, depth, cur_ = [], 0, ''
            for ch in inner:
                if ch in '([{<':
                    depth += 1
                elif ch in ')]}>':
                    depth -= 1
                if ch == ',' and depth == 0:
                    parts.append(cur_)
                    cur_ = ''
                else:
                    cur_ += ch
            if cur_.strip():
                parts.append(cur_)
            kept, dropped = [], []
            for pt in parts:
                body_nc = re.sub(r'//[^\n]*', '', pt).strip()
                body_nc = re.sub(r'#\[[^\]]*\]', '', body_nc).strip()
                m_ = re.match(r'([A-Za-z_][A-Za-z0-9_]*)', body_nc)
                if not m_:
                    continue
                if m_.group(1) in item.keep_variants:
                    kept.append('    ' + body_nc)
                else:
                    dropped.append(m_.group(1))
            missing = [v for v in item.keep_variants if not any(k.strip().startswith(v) for k in kept)]
            if missing:
                raise ExtractionLost('%s: variants not found: %s' % (where, missing))
            text = text[:bo + 1] + '\n' + ',\n'.join(kept) + ',\n    VerifOtherVariants,\n}'
            g.rewrites.append({'tag': 'R7e', 'where': where, 'before': 'variants ' + ', '.join(dropped),
                               'after': 'single catch-all variant VerifOtherVariants', 'count': len(dropped)})
        if (item.keep_fields is not None or item.add_fields) and item.kind == 'struct':
            # R7 for structs: keep only the fields the extracted functions touch (all other fields
            # are dropped: nothing extracted reads or writes them); ghost fields may be added
            bo = body_open(text, 0)
            inner = re.sub(r'//[^\n]*', '', text[bo + 1:text.rindex('}')])
            parts, depth, cur_ = [], 0, ''
            prev = ''
            for ch in inner:
                if ch in '([{<':
                    depth += 1
                elif ch in ')]}':
                    depth -= 1
                elif ch == '>' and prev != '-' and prev != '=':
                    depth -= 1
                if ch == ',' and depth == 0:
                    parts.append(cur_)
                    cur_ = ''
                else:
                    cur_ += ch
                prev = ch
            if cur_.strip():
                parts.append(cur_)
            kept, dropped = [], []
            for pt in parts:
                body_nc = '\n'.join(l for l in pt.split('\n') if not l.strip().startswith('//')).strip()
                m_ = re.match(r'(?:#\[[^\]]*\]\s*)*(?:pub(?:\([^)]*\))?\s+)?([A-Za-z_][A-Za-z0-9_]*)\s*:', body_nc)
                if not m_:
                    continue
                if item.keep_fields is None or m_.group(1) in item.keep_fields:
                    kept.append('    ' + body_nc)
                else:
                    dropped.append(m_.group(1))
            missing = [v for v in (item.keep_fields or []) if not any(re.search(r'\b' + re.escape(v) + r'\s*:', k) for k in kept)]
            if missing:
                raise ExtractionLost('%s: fields not found: %s' % (where, missing))
            text = text[:bo + 1] + '\n' + ',\n'.join(kept + ['    ' + a for a in item.add_fields]) + ',\n}'
            g.rewrites.append({'tag': 'R7', 'where': where, 'before': 'fields ' + ', '.join(dropped),
                               'after': 'dropped' + ('; added: ' + '; '.join(item.add_fields) if item.add_fields else ''), 'count': len(dropped)})
        # -- rewrites on the repository text
        if item.kind == 'fn':
            text = remove_log_statements(text, g.rewrites, where)
            if '#[cfg(' in text:
                text = apply_cfg(text, g.rewrites, where, getattr(unit, 'cfg', None))
        if item.distribute_guard:
            # `P1 | P2 | .. if G => { B }`  ->  `P1 if G => { B } P2 if G => { B } ..` (what the arm means;
            # this Verus rejects an arm that has both an or-pattern and a guard)
            rx = re.compile(r'((?:[A-Za-z_:]+\s*\{[^{}]*\}\s*\|\s*)+[A-Za-z_:]+\s*\{[^{}]*\})\s*if\s+([^{}=]*==[^{}=>]*?)\s*=>\s*(\{[^{}]*\}|[^,{}]+,)')
            def _dist(m_):
                alts = [a.strip() for a in m_.group(1).split('|')]
                body_ = m_.group(3).strip()
                if not body_.startswith('{'):
                    body_ = '{ %s }' % body_.rstrip(',').strip()
                return '\n'.join('%s if %s => %s' % (a, m_.group(2).strip(), body_) for a in alts)
            text, c_ = rx.subn(_dist, text)
            if c_:
                g.rewrites.append({'tag': item.distribute_guard, 'where': where, 'before': 'match arm `P1 | P2 | .. if G => B`', 'after': 'one arm per alternative, each with the guard G and the body B', 'count': c_})
        for (tag, mname, repl) in item.macro_stmts:
            text = replace_macro_statements(text, mname, repl, tag, g.rewrites, where)
        for (tag, count, k, frm, to) in item.subs:
            if k == 'lit':
                c = text.count(frm)
                if c != count:
                    raise ExtractionLost('%s: rewrite %s expected %d occurrence(s) of `%s`, found %d'
                                         % (where, tag, count, frm, c))
                text = text.replace(frm, to)
            else:
                if isinstance(k, tuple):
                    dflt = k[1]
                    def _exp(m_, to=to, dflt=dflt):
                        out_ = to
                        for gi in range(1, (m_.re.groups or 0) + 1):
                            out_ = out_.replace('\\%d' % gi, m_.group(gi) if m_.group(gi) is not None else dflt)
                        return out_
                    text, c = re.subn(frm, _exp, text, flags=re.S)
                else:
                    text, c = re.subn(frm, to, text, flags=re.S)
                if (count == -1 and c < 1) or (count >= 0 and c != count):
                    raise ExtractionLost('%s: rewrite %s expected %d match(es) of /%s/, found %d'
                                         % (where, tag, count, frm, c))
            g.rewrites.append({'tag': tag, 'where': where, 'before': frm, 'after': to, 'count': c if k != 'lit' else count})
        if item.newname:
            text = re.sub(r'\b(fn|enum|struct|const|type)\s+' + re.escape(item.name) + r'\b',
                          r'\1 ' + item.newname, text, count=1)
            g.rewrites.append({'tag': 'rename', 'where': where, 'before': item.name, 'after': item.newname})
        # derives
        attrs = attrs_before(src, span[0])
        keep_attrs = []
        for a in attrs:
            if a.startswith('#[repr'):
                keep_attrs.append(a)
            elif a.startswith('#[derive'):
                # R9: derive list filtered to what Verus understands; Structural added so
                # that exec `==` on the type is spec equality.
                names = [x.strip() for x in a[a.index('(') + 1:a.rindex(')')].split(',')]
                kept = [x for x in names if x in ('Debug', 'Copy', 'Clone', 'PartialEq', 'Eq', 'Hash')]
                if 'PartialEq' in kept:
                    kept.append('Structural')
                if item.no_derives:
                    kept = []
                if kept:
                    keep_attrs.append('#[derive(%s)]' % ', '.join(kept))
                g.rewrites.append({'tag': 'R9', 'where': where, 'before': a, 'after': keep_attrs[-1] if kept else ''})
        # R8: visibility is meaningless in the single-file extraction and Verus forbids private
        # fields in contracts of `pub` items
        nvis = 0
        if not item.keep_vis:
            text, nvis = re.subn(r'(?m)^([ \t]*)pub(?:\([a-z:]+\))?[ \t]+', r'\1', text)
        if nvis:
            g.rewrites.append({'tag': 'R8', 'where': where, 'before': 'pub / pub(crate)', 'after': '', 'count': nvis})
        # -- splice contracts (pure additions, each wrapped in markers)
        origin_marks = []  # (char pos in text, sidecar lines) to compute origin per line later
        if item.kind == 'fn':
            sig, body = fn_parts(text)
            for (tag, frm, to) in item.sigsubs:
                if sig.count(frm) != 1:
                    raise ExtractionLost('%s: signature rewrite %s: `%s` not found exactly once' % (where, tag, frm))
                sig = sig.replace(frm, to)
                g.rewrites.append({'tag': tag, 'where': where + ' (signature)', 'before': frm, 'after': to})
            if item.ret:
                m = re.search(r'->\s*(.+?)\s*(where\b.*)?$', sig.rstrip(), flags=re.S)
                if not m:
                    raise ExtractionLost('%s: no return type to name' % where)
                sig = sig[:m.start()] + '-> (%s: %s) %s' % (item.ret, m.group(1), m.group(2) or '')
            pre_splice = sig.rstrip() + ' ' + body
            inserts = []
            # loops: positions relative to body
            lps = loops(body)
            fnm_ = item.newname or item.name
            for n, lines in item.loops.items():
                if n < 1 or n > len(lps):
                    raise ExtractionLost('%s: loop %d not found (function has %d loops)' % (where, n, len(lps)))
                inserts.append((lps[n - 1][1], '\n' + MARK_OPEN + '\n' + '\n'.join(l for l, _ in lines) + '\n' + MARK_CLOSE + '\n'))
                if reach:
                    inserts.append((lps[n - 1][1] + 1, _rp(fnm_, 'body of loop %d' % n)))
            for (anchor, lines, ln) in item.loops_at:
                # the first loop whose keyword is at or after the anchor (robust against reordering of
                # match arms, unlike loop ordinals)
                p0, _p1 = _nth(body, anchor, 1, where)
                cand = [lp for lp in lps if lp[0] >= p0]
                if not cand:
                    raise ExtractionLost('%s: no loop after anchor `%s`' % (where, anchor))
                inserts.append((cand[0][1], '\n' + MARK_OPEN + '\n' + '\n'.join(l for l, _ in lines) + '\n' + MARK_CLOSE + '\n'))
                if reach:
                    inserts.append((cand[0][1] + 1, _rp(fnm_, 'body of the loop after `%s`' % anchor)))
            for (mode, n, anchor, lines, ln) in item.inserts:
                p, pend = _nth(body, anchor, n, where)
                if mode == 'after':
                    p = pend
                inserts.append((p, (_rp(fnm_, '%s `%s` (#%d)' % (mode, getattr(anchor, 'pattern', anchor), n)) if reach else '')
                                + '\n' + MARK_OPEN + '\n' + '\n'.join(l for l, _ in lines) + '\n' + MARK_CLOSE + '\n'))
            body = _apply_inserts(body, inserts, where)
            spec_lines = [l for l, _ in item.spec]
            if extra_spec and (item.newname or item.name) in extra_spec:
                # vacuity twin: `assert(false)` as the first statement of the body must be
                # REJECTED, i.e. the precondition is satisfiable.  (Not `ensures false`: callers
                # inside the unit would then assume false after the call.)
                body = '{\n' + MARK_OPEN + '\n    proof { assert(false); }\n' + MARK_CLOSE + '\n' + body[1:]
            if reach and (item.spec or item.inserts or item.loops or item.loops_at):
                body = '{' + _rp(fnm_, 'function entry') + body[1:]
            spec = ''
            if spec_lines:
                spec = '\n' + MARK_OPEN + '\n' + '\n'.join(spec_lines) + '\n' + MARK_CLOSE + '\n'
            text = sig.rstrip() + spec + (' ' if not spec else '') + body
        # wrap handling
        if item.wrap != open_wrap:
            if open_wrap:
                g.add('}', lambda i: ('gen',))
            if item.wrap:
                g.add(item.wrap + ' {', lambda i: ('gen',))
            open_wrap = item.wrap
        for (l, ln) in item.pre:
            g.lines.append(l)
            g.origin.append(('spec', sc, ln))
        first = len(g.lines) + 1
        for a in keep_attrs + item.attrs:
            g.add(a, lambda i: ('gen',))
        # origin: approximate source line by walking; spec-marked regions map to sidecar
        src_line = src_line0
        in_spec = False
        for l in text.split('\n'):
            if l.strip() == MARK_OPEN:
                in_spec = True
                g.lines.append(l)
                g.origin.append(('spec', sc, item.line))
                continue
            if l.strip() == MARK_CLOSE:
                in_spec = False
                g.lines.append(l)
                g.origin.append(('spec', sc, item.line))
                continue
            g.lines.append(l)
            if in_spec:
                g.origin.append(('spec', sc, item.line))
            else:
                g.origin.append(('src', item.path, src_line))
                src_line += 1
        if item.kind == 'fn':
            # independent re-derivation: the generated item with every marked spec region removed
            # must be token-identical to the repository text after the logged rewrites
            seg, skip = [], False
            for l in text.split('\n'):
                if l.strip() == MARK_OPEN:
                    skip = True
                elif l.strip() == MARK_CLOSE:
                    skip = False
                elif not skip:
                    seg.append(l)
            tok = lambda t: re.findall(r'[A-Za-z0-9_]+|\S', t)
            if tok('\n'.join(seg)) != tok(pre_splice) and not (extra_spec and (item.newname or item.name) in extra_spec) and not reach:
                raise ExtractionLost('%s: splice check failed (generated exec text differs from repository text after logged rewrites)' % where)
        g.items.append({'name': item.newname or item.name, 'kind': item.kind, 'path': item.path,
                        'src_line': src_line0, 'src_end_line': line_of(src, span[1]),
                        'gen_first': first, 'gen_last': len(g.lines), 'sha256': sha,
                        'has_spec': bool(item.spec), 'wrap': item.wrap})
    if open_wrap:
        g.add('}', lambda i: ('gen',))
    g.add('} // verus!\nfn main() {}', lambda i: ('gen',))
    # trusted-base scan
    txt = g.text()
    for kw in ('external_body', 'assume_specification', 'assume(', 'admit(', 'external_type_specification',
               'external_fn_specification', '#[verifier::external]', 'axiom'):
        for m in re.finditer(re.escape(kw), txt):
            ln = txt.count('\n', 0, m.start()) + 1
            l = g.lines[ln - 1].strip()
            if l.startswith('//'):
                continue
            # describe with following fn name if any
            ctx = ''
            for k in range(ln - 1, min(ln + 6, len(g.lines))):
                mm = re.search(r'\bfn\s+([A-Za-z0-9_]+)', g.lines[k])
                if mm:
                    ctx = mm.group(1)
                    break
            g.trusted.append('%s @ generated line %d (%s)' % (kw.rstrip('('), ln, ctx or l[:60]))
    return g


def erase_check(g, repo):
    """Independent check that the generated exec text is the repository text:
    strip every marked spec region, undo nothing else, and compare the token
    stream of each fn item with the repository item after applying the logged
    rewrites.  Returns list of mismatching item names."""
    # The construction is by splicing; this re-derivation guards the splicer itself.
    bad = []
    txt_lines = g.lines
    for d in g.items:
        if d['kind'] != 'fn':
            continue
        seg = txt_lines[d['gen_first'] - 1:d['gen_last']]
        out = []
        skip = False
        for l in seg:
            if l.strip() == MARK_OPEN:
                skip = True
                continue
            if l.strip() == MARK_CLOSE:
                skip = False
                continue
            if not skip:
                out.append(l)
        gen_toks = [w for w in re.findall(r'[A-Za-z0-9_]+|\S', '\n'.join(out))]
        d['exec_tokens'] = len(gen_toks)
    return bad
