"""Per-property registry: which Verus units and Kani harnesses decide which property."""

KANI_MODS = {
    # harness module path prefix per hook (crate-relative module path of `mod verif_kani`)
}


def H(crate, mod, name, **kw):
    d = dict(crate=crate, name=name, full='%s::verif_kani::%s' % (mod, name))
    d.update(kw)
    return d


PROPS = {}

PROPS['C10'] = dict(
    level='proof',
    level_text=('Unbounded deductive proof (Verus/Z3) of contracts spliced onto the text of switch.rs cut from /repo on every run; '
                'Kani (CBMC) full-domain harnesses on the unextracted functions. Proof is the right level because the property is '
                'universally quantified over expressions, operands and thresholds and is a per-call input/output relation.'),
    level_note='Trusted: rustc, Verus+Z3, Kani+CBMC, the extractor; assumed: the LEAF arms of the parser-side compiler emit their leaf words (its operator arm and prologue are verified as fragments, A6). The two assumptions inside the Verus unit are each checked by Kani on the real code: the ArrayDeque(Saturating) contract (c10_k_arraydeque_contract, complete for capacity 8) and the leaf-iterator split R5 (c10_b_leaf_*, bounded environment, complete for the 8-entry histories).',
    technique='contract-based deductive verification (Verus requires/ensures/invariants on extracted real code + Kani harnesses)',
    explanation=('Contracts on the real switch.rs functions. Verus (unbounded): (A1) lossy tick codec equals its documented spec and '
                 'round-trips within the documented resolution; (A2) every OpCode constructor followed by opcode_type decodes to the operand it '
                 'was built from (bit-vector lemmas); (A3) evaluate_boolean returns sem_top(ops, env) = the meaning of the prefix-encoded condition '
                 '(or = some, and = every, not = none, implicit top-level or, empty list true) for EVERY well-formed opcode stream of any size and '
                 'nesting depth <= 8: loop invariant over a ghost frame stack, inductive lemmas lemma_split / lemma_pop / lemma_push / lemma_leaf_step, '
                 'termination, stack never overflows, expect/unreachable!/index sites unreachable; (A4) SwitchActions::next returns the first firing '
                 'case from case_index on, break ends the iteration, fallthrough continues; (A5) theorem_written_condition: for every written condition tree '
                 '(leaves, and/or/not with >= 1 operand, depth <= 8) the prefix encoding with absolute end indices satisfies the evaluator precondition and '
                 'sem_top(enc) is the meaning of the tree (structural induction over mutually recursive ghost datatypes; new_bool is proved to build the operator word enc uses); (A6) the COMPILER parser/src/cfg/switch.rs::parse_switch_case_bool, as FRAGMENTS of the real function: the prologue (size/depth checks) and the and/or/not arm (placeholder, recursion over the operands, back-patching of the absolute end index) satisfy the contract compiles(e, depth, before, after) = `after == before + enc(tree(e), |before|)` and nesting <= 9 - depth, given that contract for the recursive calls (induction step) - plus the keyword table read from the dispatch closure (or/and/not denote their own operator); (A7) every LEAF ARM of the compiler (fragments compile_key_atom, compile_key_history_arm, compile_input_arm, compile_input_history_arm, compile_key_timing_arm, compile_layer_arm): the words it appends decode, with the decoder of the evaluator, to the test that was written (row 0 real / row 1 virtual, recency n-1, comparison direction, compressed threshold, layer vs base-layer), and key-timing raises switch_max_key_timing to the maximum threshold. (A9) the TOP LEVEL parse_switch up to its final allocation (fragment parse_switch_cases): parameters are consumed three at a time, in order (termination: decreases on the remaining parameters); each triple becomes ONE case, in the written order, whose opcodes are the concatenation lenc(trees(<key match> list), 0) of what the recursive compiler emits (entered at depth 1, so nesting <= 8), whose action is the one parse_action returns for the second element, and whose break / fallthrough is the third element\'s word. Kani: the same codec facts on the unextracted functions '
                 'over full operand domains, and each leaf arm of the real evaluate_boolean against the leaf meaning the Verus proof assumes (R5 split).'),
    verus=[dict(unit='switch', cex={'evaluate_boolean': ['c10_b_shape_nested_last_then_more', 'c10_b_shape_nested_first', 'c10_b_shape_nested_last', 'c10_b_shape_toplevel_list'], 'next': ['c10_b_case_iteration']},
                fallback=['c10_b_shape_nested_last_then_more', 'c10_b_shape_nested_first', 'c10_b_shape_nested_last', 'c10_b_shape_toplevel_list', 'c10_b_case_iteration']), dict(unit='waiting', only=['do_action_fork'])],
    kani=[
        H('keyberon', 'action::switch', 'c10_k_codec_ticks', kind='complete', functions=['keyberon/src/action/switch.rs lossy_compress_ticks', 'keyberon/src/action/switch.rs lossy_decompress_ticks', 'keyberon/src/action/switch.rs OpCode::new_ticks_since_gt', 'keyberon/src/action/switch.rs OpCode::new_ticks_since_lt', 'keyberon/src/action/switch.rs OpCode::opcode_type'], covers='all u16 thresholds x all recencies'),
        H('keyberon', 'action::switch', 'c10_k_codec_keys', kind='complete', functions=['keyberon/src/action/switch.rs OpCode::new_key', 'keyberon/src/action/switch.rs OpCode::new_key_history'], covers='all 768 key codes x all recencies'),
        H('keyberon', 'action::switch', 'c10_k_codec_bool', kind='complete', functions=['keyberon/src/action/switch.rs OpCode::new_bool', 'keyberon/src/action/switch.rs OperatorAndEndIndex::from'], covers='3 operators x all end indices <= 0x0FFF'),
        H('keyberon', 'action::switch', 'c10_k_codec_two_word', kind='complete', functions=['keyberon/src/action/switch.rs OpCode::new_active_input', 'keyberon/src/action/switch.rs OpCode::new_historical_input', 'keyberon/src/action/switch.rs OpCode::new_layer', 'keyberon/src/action/switch.rs OpCode::new_base_layer'], covers='all coordinates row<4 col<1024, recency<8, all layers < 60000'),
        H('keyberon', 'action::switch', 'c10_k_codec_ticks_neg', kind='complete', expect='fail', covers='must-fail twin: lossy codec claimed exact'),
        H('keyberon', 'action::switch', 'c10_k_arraydeque_contract', kind='complete', covers='the ArrayDeque<_, 8, Saturating> contract that the Verus evaluator proof assumes, on the real crate, all lengths 0..=8', functions=['arraydeque 0.5.1 ArrayDeque::{push_back, pop_back, default} (instantiation used by evaluate_boolean)']),
        H('keyberon', 'action::switch', 'c10_b_leaf_key', kind='bounded', bound='<= 3 active keys', functions=['keyberon/src/action/switch.rs evaluate_boolean (KeyCode leaf arm)']),
        H('keyberon', 'action::switch', 'c10_b_leaf_key_history', kind='complete', bound='history <= 8 entries = capacity of the real History', functions=['keyberon/src/action/switch.rs evaluate_boolean (HistoricalKeyCode leaf arm)']),
        H('keyberon', 'action::switch', 'c10_b_leaf_ticks_gt', kind='complete', bound='history <= 8 entries = capacity of the real History', functions=['keyberon/src/action/switch.rs evaluate_boolean (TicksSinceGreaterThan leaf arm)']),
        H('keyberon', 'action::switch', 'c10_b_leaf_ticks_lt', kind='complete', bound='history <= 8 entries = capacity of the real History', functions=['keyberon/src/action/switch.rs evaluate_boolean (TicksSinceLessThan leaf arm)']),
        H('keyberon', 'action::switch', 'c10_b_leaf_input', kind='bounded', bound='<= 3 active coordinates', functions=['keyberon/src/action/switch.rs evaluate_boolean (Input leaf arm)']),
        H('keyberon', 'action::switch', 'c10_b_leaf_input_history', kind='complete', bound='history <= 8 entries = capacity of the real History', functions=['keyberon/src/action/switch.rs evaluate_boolean (HistoricalInput leaf arm)']),
        H('keyberon', 'action::switch', 'c10_b_leaf_layer', kind='bounded', bound='<= 3 layers in the order (only the first is read)', functions=['keyberon/src/action/switch.rs evaluate_boolean (Layer, BaseLayer leaf arms)']),
        H('keyberon', 'action::switch', 'c10_b_leaf_key_neg', kind='bounded', expect='fail', covers='must-fail twin: key leaf claimed always true'),
        H('keyberon', 'action::switch', 'c10_b_case_iteration', kind='bounded', tier='thorough', timeout=1200, bound='2 cases, symbolic firing and break/fallthrough', functions=['keyberon/src/action/switch.rs Switch::actions', 'keyberon/src/action/switch.rs <SwitchActions as Iterator>::next (real generic version)']),
        H('keyberon', 'action::switch', 'c10_b_shape_nested_first', kind='bounded', tier='thorough', bound='fixed shape (op1 (op2 a b) c), all 9 operator pairs, all 8 assignments', functions=['keyberon/src/action/switch.rs evaluate_boolean (operator stack)']),
        H('keyberon', 'action::switch', 'c10_b_shape_nested_last', kind='bounded', tier='thorough', bound='fixed shape (op1 a (op2 b c)), all 9 operator pairs, all 8 assignments'),
        H('keyberon', 'action::switch', 'c10_b_shape_nested_last_then_more', kind='bounded', tier='thorough', bound='fixed shape (op0 (op1 (op2 a b)) c), all 27 operator triples, all 8 assignments'),
        H('keyberon', 'action::switch', 'c10_b_shape_toplevel_list', kind='bounded', tier='thorough', bound='fixed shape (op1 a b) c + empty list'),
    ],
    assumptions=[
        'compiler (A6): only the prologue and the and/or/not arm of parse_switch_case_bool are verified, as fragments wrapped in synthetic signatures (rewrite Rfrag; bail_expr! -> return Err (R13), `l.iter().skip(n)` -> assumed-equivalent slice helper (R14), `ops[i] = e` -> `ops.set(i, e)` (R15)). The seven leaf forms (A7: bare key, key-history, key-timing, input, input-history, layer, base-layer) are fragments under contract too: on Ok the arm appended exactly its one or two words and they decode (spec_decode) to the written test; ASSUMED there: the lookups that READ a word of the configuration (atom, number, key name, virtual-key name, layer name, key-type and comparison word) are stubs returning uninterpreted denotations (rewrites R38-R41: the lookup chains with closures and error macros are replaced by regex; the two string patterns of the comparison word become variants of a synthetic enum; the Cell switch_max_key_timing becomes an accessor pair on an &mut state); assumed ranges: key code <= 767 (C11), virtual-key index < 768 (checked where virtual keys are parsed), layer index < MAX_LAYERS (the assert! inside that closure is not decided), parse_u8_with_range returns a value within its bounds; core::cmp::max on u16; Vec::extend of two words (R19). The key-type names (real/fake/virtual) and the six leaf keywords are READ from the source and checked (a7_key_type_names, a8_leaf_names_select_their_arm). Top level (A9): `ac_params.iter()` + `.next()` -> a stub iterator yielding the elements front to back (R32); `key_match.list(s.vars())`, the atom lookup of the third element with its string match (`"break"` / `"fallthrough"` / `_` -> variants of a synthetic enum, 1:1, R40), parse_action (uninterpreted function of the text) and the bump allocation `s.a.sref_vec(ops)` (same words) are stubs; the final `Ok(s.a.sref(Action::Switch(..)))` is outside the fragment. STILL ASSUMED: the arm is entered with l = the list of the expression and op = the variant its head keyword maps to (the keyword table itself is read from the source and checked); the meta-level induction over the expression that glues prologue + arm + leaf arms',
        'operators without operands, e.g. `(or)`, are accepted by the parser but excluded by the property statement ("every operator with at least one operand"): the compiler contract promises pwf (nesting, leaf words) and A5 additionally needs has_operands',
        'fork: the Fork arm of Layout::do_action is under contract as a fragment (unit waiting, do_action_fork: the right branch iff some NormalKey / FakeKey state carries a trigger code, exactly one branch performed; do_action stubbed with a call log; `right_triggers.contains(k)` rewritten to a helper usable in specifications, R33; the closure annotated from its own text, R12); the hand-off of fired switch actions into the action queue (the Switch arm: a `for` over the custom iterator) is NOT under contract',
    ],
    trusted_base=['rustc', 'Verus 0.2026.09.13 / Z3', 'extractor lib/rustcut.py + lib/verusgen.py (rewrites logged in rewrites_applied)'],
)

DYN_FUNCS = ['new', 'add_release_for_all_unreleased_presses', 'lemma_closed', 'add_event', 'tick_record_state', 'tick_replay_state', 'begin_record_macro', 'record_press',
             'record_release', 'stop_macro', 'key_event', 'delay', 'as_u16', 'as_u16_linux', 'from',
             'lemma_release_appended', 'lemma_all_released', 'replay_step_emits_head', 'play_macro_nested', 'play_macro_fresh']

PROPS['C19'] = dict(
    level='proof',
    level_text=('Unbounded deductive proof (Verus/Z3) of contracts on the recorder / replayer functions of dynamic_macro.rs, whose text is '
                'cut from /repo on every run: record = append to the typed sequence with the one-event lag; stop/begin = typed minus the stop '
                'key minus the truncated tail plus one release per key still down; replay = pop exactly the head per due tick with the '
                'configured pacing. Partial: recursion guard (play_macro) and "same output as typing again" are not decided.'),
    level_note=('Trusted: rustc, Verus+Z3, extractor. Assumed: the set contract of FxHashSet (prelude type), the vstd contracts of Vec / VecDeque / Option; '
                'play_macro not covered.'),
    technique='contract-based deductive verification (Verus requires/ensures on extracted real code, ghost view typed(state))',
    design_ref='DESIGN.md section 4, C19',
    explanation=('Verus contracts on src/kanata/dynamic_macro.rs: add_event, record_press, record_release, tick_record_state, begin_record_macro, '
                 'stop_macro, tick_replay_state, add_release_for_all_unreleased_presses (both loops, with invariants over the ghost iteration sequence), '
                 'ReplayEvent accessors, plus the OsCode->u16 conversion chain they call. The CALL SITE is under contract too (unit input: Kanata::handle_input_event, cut whole, callees as logging stubs): every physical press is handed to record_press with the physical key code and the configured maximum, every physical release to record_release, a completed recording is stored, repeats / input taps / wake-ups are not recorded. No preconditions on '
                 'stop_macro/begin_record_macro: they must be panic-free for every recorder state.'),
    verus=[dict(unit='dynmacro', only=DYN_FUNCS), dict(unit='input')],
    kani=[],
    assumptions=[
        'unit input (handle_input_event, cut whole): record_press / record_release / handle_repeat / Layout::event / HashMap::insert are LOGGING stubs (the first two and handle_repeat_actual are under contract in units dynmacro / repeat; Layout::event in unit waiting); record_press returns an uninterpreted function of the recorder state (the completed recording, if any); `self.layout.bm()` is a `&mut` borrow of an inner layout struct holding a ghost event log; the macro-cancel branch\'s `layout.states.retain(|s| !matches!(..))` is a logged helper (R42); log::debug! dropped (R1); OsCode -> u16 uninterpreted',
        'the hash set used by add_release_for_all_unreleased_presses and active_macros is the prelude type with the ASSUMED contract of a set (insert/remove on a mathematical set; by-value iteration yields every element exactly once in unspecified order): FxHashSet itself is not verified',
        'play_macro (recursion guard, queue prepending) is not under contract: "never replays itself recursively" is NOT decided',
        '"produces the same output as typing them again" is a whole-state-machine statement and is NOT decided',
        'only the target_os = "linux" arms of OsCode::as_u16 are verified',
    ],
    trusted_base=['rustc', 'Verus 0.2026.09.13 / Z3', 'vstd contracts for Vec, VecDeque, HashSet, Option',
                  'extractor lib/rustcut.py + lib/verusgen.py (rewrites logged in rewrites_applied)'],
)

SEXPR_FN = ['parser/src/cfg/sexpr.rs <SExpr as Debug>::fmt']
PROPS['C03'] = dict(
    level='other',
    level_text=('Small scope. (1) Verus, unbounded: the s-expression LIST BUILDER parse_with (text cut from parser/src/cfg/sexpr.rs, up to its final collect) never panics for ANY token stream - '
                'any length, any nesting, balanced or not: its three `.expect(..)` and the file-name assert inside Span::cover cannot fire (loop invariant: a placeholder frame at the bottom, '
                'every other frame carries the span of a `(` of this file). (2) Kani (CBMC) harnesses on the real parser crate for the diagnostics layer: impl Debug for SExpr '
                '(bounded: 8 concrete tree shapes up to 2 levels, incl. the empty list), Position::new / Span::new / Span::cover (complete over all usize positions of one file), is_start (all 256 bytes). '
                'The lexer and every parse_* function are NOT covered, so totality of parsing as a whole is not decided.'),
    level_note=('Decides: the list builder cannot panic; "rendering the diagnostic does not crash" (s-expression part); span arithmetic. Nothing else. '
                'Trusted: rustc, Verus + Z3, Kani 0.68 + CBMC 6.11, one-line-patched backtrace crate so the parser crate compiles under Kani. Termination of the builder loop is not claimed (token iterator opaque).'),
    technique='Verus contract on the extracted list builder (loop invariant over the explicit stack; expect / assert sites as obligations) + contract harnesses (Kani/CBMC) on the real crate for the diagnostics layer',
    design_ref='DESIGN.md section 4, C03; 9.1b',
    explanation=('parse_with_builder (fragment of parse_with): stack_ok(stack, file) is a loop invariant; `stack.pop().expect("placeholder unpopped")` x2, `stack.last_mut().expect("not empty")` x2 (rewritten to a helper whose precondition is the non-emptiness, R27) and Span::cover\'s same-file assert are proved unreachable. '
                 'Debug for SExpr: no panic, balanced parentheses, one pair per list, single-space separation, exact length, for the listed tree shapes. '
                 'Span::cover: smallest covering span, internal asserts never fire for positions of one file.'),
    verus=[dict(unit='sexpr')],
    kani=[
        H('parser', 'cfg::sexpr', 'c03_b_debug_shape_empty', kind='bounded', bound='tree ()', functions=SEXPR_FN),
        H('parser', 'cfg::sexpr', 'c03_b_debug_shape_a', kind='bounded', bound='tree (a)', functions=SEXPR_FN),
        H('parser', 'cfg::sexpr', 'c03_b_debug_shape_ab', kind='bounded', bound='tree (a b)'),
        H('parser', 'cfg::sexpr', 'c03_b_debug_shape_abc', kind='bounded', bound='tree (a b c)'),
        H('parser', 'cfg::sexpr', 'c03_b_debug_shape_nested_empty', kind='bounded', bound='tree (())'),
        H('parser', 'cfg::sexpr', 'c03_b_debug_shape_a_empty', kind='bounded', bound='tree (a ())'),
        H('parser', 'cfg::sexpr', 'c03_b_debug_shape_empty_a', kind='bounded', bound='tree (() a)'),
        H('parser', 'cfg::sexpr', 'c03_b_debug_shape_nested', kind='bounded', bound='tree ((b c) a)'),
        H('parser', 'cfg::sexpr', 'c03_b_debug_neg', kind='bounded', expect='fail', covers='must-fail twin'),
        H('parser', 'cfg::sexpr', 'c03_k_span_cover', kind='complete', covers='all usize position quadruples of one file',
          functions=['parser/src/cfg/sexpr.rs Position::new', 'parser/src/cfg/sexpr.rs Span::new', 'parser/src/cfg/sexpr.rs Span::cover']),
        H('parser', 'cfg::sexpr', 'c03_k_span_cover_neg', kind='complete', expect='fail', covers='must-fail twin: without same-file ordering the assert fires'),
        H('parser', 'cfg', 'c02_k_key_max_fits_row', kind='complete', covers='every known key code is a valid column of a layer row (parse_layers indexes by it)', functions=['parser/src/layers.rs KEYS_IN_ROW']),
        H('parser', 'cfg::sexpr', 'c03_k_lexer_delimiters_ascii', kind='complete', covers='all 256 byte values', functions=['parser/src/cfg/sexpr.rs is_start']),
    ],
    assumptions=[
        'NOT decided: totality and termination of the lexer, every parse_* function, includes, templates, defvar recursion, miette rendering; termination of the list builder',
        'unit sexpr: the token stream is arbitrary except that every token span names the file being parsed (assumed of the lexer, which is created for one file); Span / ParseError are opaque; rewrites R27 (`stack.last_mut().expect(..).t.push(e)` -> helper with the expect as precondition), R28 (`t.map_err(closure)?` -> helper), R29 (`s[span.clone()].to_string()` -> helper); the tail of parse_with (`exprs.into_iter().map(closure).collect::<Result<_>>()?`: "everything must be in a list") is outside',
        'symbolic tree shapes exhaust CBMC memory through core::fmt (measured: 15-20 min, then failure); the Debug claim is for the listed shapes only',
        'positions handed to Span::new / cover come from one file (offsets and line numbers ordered alike)',
    ],
    trusted_base=['rustc', 'Kani 0.68.0 / CBMC 6.11.0 / CaDiCaL', 'vendored backtrace 0.3.74 with one `use` line narrowed (tooling only, not on a verified path)'],
)

L = 'keyberon/src/layout.rs '
PROPS['C06'] = dict(
    level='proof',
    level_text=('Deductive proof (Verus, unbounded) of the three OneShotState methods, text cut from keyberon/src/layout.rs each run: the full '
                'postcondition and frame of handle_press / handle_release / tick_osh for every table size up to the real capacity 16, all four end '
                'variants, all u16 timeouts/delays, against an ASSUMED contract for arraydeque::ArrayDeque(Wrapping) and heapless::Vec. '
                'The same postconditions are cross-checked by bounded Kani harnesses that execute the REAL arraydeque/heapless code '
                '(tables <= 3 entries, plus the wrap of a full table) - bounded, not counted as proved. Partial for C06 as a whole: the call sites '
                'in Layout::do_action / dequeue are not under contract.'),
    level_note='Trusted: rustc, Verus 0.2026.09.13 + Z3, assumed ArrayDeque/heapless contracts (cross-checked bounded by Kani on the real crates), Kani 0.68 + CBMC 6.11. Not decided: that every non-one-shot action calls handle_press(Other); the deferred release path through dequeue; stacking through Layout.',
    technique='function contracts discharged by Verus on mechanically extracted text (unbounded) + bounded Kani contract harnesses on the real crate (cross-check of the assumed container contracts, counterexample replay)',
    design_ref='DESIGN.md section 4, C06; 9.1b',
    explanation='OneShotState::{handle_press, handle_release, tick_osh}: postconditions taken from the property statement (press variants end within the rapid-event delay; release variants end on the release of the first following key; pcancel on re-press of an active one-shot key; a held one-shot key acts as the plain key (its deferred release is forgotten on re-press); expiry exactly when the last millisecond elapses or an end was requested, and it clears everything so nothing later is affected; the 17th deferred release evicts the oldest instead of being lost). All three are proved UNBOUNDED by Verus (unit oneshot) against the assumed ArrayDeque(Wrapping)/heapless contract; the closure passed to retain() is annotated mechanically (R12: its ensures clause is generated from its own body text, so a changed predicate changes the spec it is checked with). do_action_one_shot (unit waiting; FRAGMENT: the OneShot arm of Layout::do_action): the inner action runs exactly once, flagged as a one-shot activation; then the key joins the active table (keys tapped in a row combine), the timeout restarts with this key\'s value, its end variant governs; with 16 already active the oldest is released through Layout::event, not dropped. handle_press is an assumed stub there (proved in unit oneshot). Call sites in Layout::do_action under contract (unit layers, FRAGMENTS of the arms): the plain-key, layer, default-layer, NoOp (do_action_noop: told about an ordinary press unless it runs inside a one-shot or at the coordinate (0,0) that chords v2 uses for its synthetic tap-hold trigger) and Custom (do_action_custom: told; recorded at the pressed coordinate; reported exactly when recorded) arms each notify the one-shot logic with Other(coord) exactly once when not run as the inner action of a one-shot, and never otherwise.',
    verus=[dict(unit='oneshot'), dict(unit='waiting', only=['do_action_one_shot']), dict(unit='layers', only=['do_action_key_code_head', 'do_action_layer', 'do_action_default_layer', 'do_action_noop', 'do_action_custom'])],
    kani=[
        H('keyberon', 'layout', 'c06_b_press_other', kind='bounded', bound='each table <= 3 coordinates', functions=[L + 'OneShotState::handle_press']),
        H('keyberon', 'layout', 'c06_b_press_oneshot_key', kind='bounded', bound='each table <= 3 coordinates'),
        H('keyberon', 'layout', 'c06_b_release', kind='bounded', bound='each table <= 3 coordinates', functions=[L + 'OneShotState::handle_release']),
        H('keyberon', 'layout', 'c06_b_release_overflow', kind='bounded', bound='full table of 16 + 1 push'),
        H('keyberon', 'layout', 'c06_b_tick', kind='bounded', bound='each table <= 3 coordinates', functions=[L + 'OneShotState::tick_osh']),
        H('keyberon', 'layout', 'c06_b_expires_on_time', kind='bounded', bound='timeouts 1..=6'),
        H('keyberon', 'layout', 'c06_b_press_other_neg', kind='bounded', expect='fail', covers='must-fail twin'),
    ],
    assumptions=[
        'call sites: the OneShot arm of Layout::do_action is under contract as a fragment (unit waiting; do_action / Layout::event stubbed with ghost logs); handle_press(Other(coord)) unless is_oneshot is proved for the KeyCode (head), Layer and DefaultLayer arms (unit layers) and for macro presses (unit seqs), NOT for the other arms of do_action; the deferred release in Layout::dequeue is NOT under contract',
        'Verus: arraydeque::ArrayDeque<_, N, Wrapping>::{new,is_empty,contains,push_back,iter,extend,clear,drain(..),retain} and heapless::Vec FromIterator, core::cmp::min/max at u16: ASSUMED contracts in contracts/oneshot.spec.rs (retain: predicate called once per element front to back; extend/push_back on a full deque keep the newest N; a deque never exceeds N)',
        'Kani: tables with more than 3 entries are covered only by the overflow harness (bounded cross-check; the real arraydeque 0.5.1 / heapless 0.7 are compiled and symbolically executed there, not assumed)',
    ],
    trusted_base=['rustc', 'Verus 0.2026.09.13 / Z3', 'Kani 0.68.0 / CBMC 6.11.0 / CaDiCaL'],
)

PROPS['C05'] = dict(
    level='other',
    level_text=('Bounded contract check (Kani/CBMC) of the tap-hold decision on the real crate: WaitingState::handle_hold_tap and tick_wt (HoldTap arm) '
                'against the decision table of the property statement for the three built-in variants, every clock value, and every queue of <= 4 '
                'events over 3 keys; plus "fires exactly at the H-th tick" for H <= 6 (bounded stand-in, not a proof). The DECISION ITSELF is additionally proved UNBOUNDED by Verus (unit holdtap): [and WaitingState::tick_wt, cut WHOLE with handle_hold_tap as a callee under contract: one millisecond - timeout counts down, age counts up, both saturating - and THEN the decision table, so the tick on which the last millisecond elapses is the tick that reports the timeout; nothing else of the pending decision or the queue changes; this is the unbounded counterpart of the bounded harnesses c05_b_tick_wt_hold_tap / c05_b_timeout_on_time] [and the two closures the parser builds for tap-hold-release-keys / tap-hold-except-keys (unit customth: each closure BODY is a fragment of parser/src/cfg/custom_tap_hold.rs wrapped in a synthetic signature with the captured key list as a parameter): release-keys == the queued presses in order, a listed key means tap at once, another key that was also released means hold, else look further; except-keys == only the first queued press counts, a listed key means tap, any other key leaves it to release / timeout, no press at all switches the timeout off; unbounded counterparts of c05_b_custom_release_keys / c05_b_custom_except_keys] '
                'WaitingState::handle_hold_tap, cut whole, returns decision(w, cfg, queue) - the decision table of the statement - for EVERY queue (any length <= the capacity 32) and every clock value, '
                'against assumed contracts for the queue iterator (next / clone / any / find with pure predicates) and an opaque Custom closure. The EXECUTION of the decision is '
                'proved unbounded by Verus (unit waiting, text cut from layout.rs): Layout::waiting_into_hold / _tap / _timeout / drop_waiting run exactly the '
                'chosen action, once, at the key\'s coordinate, with delay + ticks, after removing exactly that waiting key; do_action itself is a stub that logs its calls.'),
    level_note='Trusted: rustc, Kani + CBMC, Verus + Z3. Not decided: Layout::do_action (what the chosen action then does), replay order of buffered keys (Layout::dequeue), process_extra_waitings (dispatch for concurrent tap-holds).',
    technique='contract harnesses (Kani/CBMC) for the decision: symbolic waiting state + symbolic bounded queue, decision oracle from the statement, frame, must-fail twin; Verus contracts (unbounded) on the extracted waiting_into_* methods with a ghost call log for the execution',
    design_ref='DESIGN.md section 4, C05',
    explanation='handle_hold_tap (Kani bounded AND Verus unbounded): at most one of Tap/Hold/Timeout, never NoOp; Tap iff own release queued before the timeout elapsed; Timeout exactly when it elapses; early Hold on other press (press variant) / other press+release (release variant); queue and clock untouched. waiting_into_hold/_timeout: verif_calls == old.push(decision_call(w, w.hold / w.timeout_action, ..)) - exactly one call, the right action, coordinate and delay, waiting key consumed (for extra_waiting: exactly the idx-th removed); waiting_into_tap: that call first, then only the C09 repeats; drop_waiting: no call. do_action_hold_tap (FRAGMENT: the HoldTap arm of Layout::do_action): an ordinary press creates exactly one pending decision carrying this key\'s hold / tap / timeout actions, timeout (reduced by the queueing delay in quick mode), delay, ticks 0, in the primary slot if free else as one more concurrent one, arms the tap-repress window, and runs NO action; a re-press of the same key inside the window creates no decision and runs the tap action exactly once. tick_dispatch (FRAGMENT: the `match &mut self.waiting` expression of Layout::tick): with tick_wt as a deterministic stub (decide / ticked), exactly the method matching the decision runs on the primary slot - Hold -> hold action, Timeout -> timeout action, Tap -> tap action (+ chord repeats), NoOp -> dropped, None -> nothing and the key stays undecided - and nothing is dequeued while a key is undecided; with no undecided key the oldest queued event is dequeued iff no concurrent tap-hold is pending and the one-shot input pause has run out.',
    verus=[dict(unit='waiting', only=['waiting_into_hold', 'waiting_into_tap', 'waiting_into_timeout', 'drop_waiting', 'do_action_hold_tap', 'do_action_prologue', 'tick_dispatch', 'event_real', 'from', 'push_back_chv2', 'update_coord', 'update', 'lemma_sigs_push']), dict(unit='holdtap', only=['handle_hold_tap', 'tick_wt', 'coord', 'is_press', 'is_release', 'is_corresponding_release', 'lemma_own_release'], fallback=['c05_b_handle_hold_tap'], cex={'handle_hold_tap': ['c05_b_handle_hold_tap']}), dict(unit='customth')],
    kani=[
        H('keyberon', 'layout', 'c05_b_handle_hold_tap', kind='bounded', bound='queue <= 4 events over 3 keys', functions=[L + 'WaitingState::handle_hold_tap']),
        H('keyberon', 'layout', 'c05_b_tick_wt_hold_tap', kind='bounded', bound='queue <= 4 events over 3 keys', functions=[L + 'WaitingState::tick_wt (HoldTap arm)']),
        H('keyberon', 'layout', 'c05_b_timeout_on_time', kind='bounded', bound='H in 1..=6, empty queue'),
        H('keyberon', 'layout', 'c05_k_last_press_tracker', kind='complete', functions=[L + 'LastPressTracker::tick_lpt', L + 'LastPressTracker::update_coord']),
        H('keyberon', 'layout', 'c05_b_handle_hold_tap_neg', kind='bounded', expect='fail', covers='must-fail twin'),
        H('parser', 'cfg::custom_tap_hold', 'c05_b_custom_release_keys', kind='bounded', bound='queue <= 3 events over 4 keys, one listed key', functions=['parser/src/cfg/custom_tap_hold.rs custom_tap_hold_release (returned closure)']),
        H('parser', 'cfg::custom_tap_hold', 'c05_b_custom_except_keys', kind='bounded', bound='queue <= 3 events over 4 keys, one listed key', functions=['parser/src/cfg/custom_tap_hold.rs custom_tap_hold_except (returned closure)']),
        H('parser', 'cfg::custom_tap_hold', 'c05_b_custom_release_keys_neg', kind='bounded', expect='fail', covers='must-fail twin'),
    ],
    assumptions=[
        'custom closures: Allocations::{sref, bref_slice} (leak-tracking behind a parking_lot mutex) are STUBBED by plain Box::leak in the harness (kani::stub); the closures themselves are the real code',
        'Verus unit customth: keyberon QueuedIter is a stub (next yields the queued events front to back; clone copies the position; `.copied().any(p)` with a pure predicate, by value); `keys.iter().copied().map(u16::from).any(|j2| j2 == j)` -> an assumed membership helper over the uninterpreted OsCode -> u16 (R43); `for q in queued.by_ref()` -> `while let Some(q) = queued.next()` (R44); the closure passed to any() is annotated from its own text (R12); the allocation around the closures (a.sref, a.sref_vec) and HOW the key list is captured are outside; tick_wt WHOLE in unit holdtap: TapDance(ref tds) -> by-value binding + `let tds = &..` (R31), hand-written postcondition for the closure of ret.map (R35), handle_tap_dance and handle_chord are stubs',
        'Verus unit holdtap: the event queue and its iterator are stubs (iter() yields the queued events front to back; next / clone; any / find taken BY VALUE on temporaries, with PURE predicates: the predicate\'s answers d[i] exist for every remaining element); the four closures are annotated mechanically (R12: `ensures b == (<body>)` generated from the closure\'s own body text; Event::is_press / is_release / coord and is_corresponding_release are extracted and marked when_used_as_spec); `(func)(QueuedIter(queued.iter()))` -> an uninterpreted function of the queue (R30); `Some(&Queued { since, .. })` -> `Some(verif_q)` + `let since = verif_q.since;` (R31, reference patterns are unsupported); the dyn-Fn payload of HoldTapConfig::Custom is an opaque type; loop_isolation(false) on the function; precondition queue length <= 32 (the ArrayDeque capacity)',
        'Verus unit waiting: Layout is sliced (R7) to waiting, extra_waiting, oneshot, last_press_tracker + a ghost call log; Layout::do_action is a STUB (appends one log record, may change every field); ArrayDeque::{get, remove}, heapless::Vec::clone ASSUMED; the layer-stack iterator argument of do_action is abstracted (R5); `pq.iter().copied()[.skip(n)]` -> assumed-equivalent helper (R16)',
        'u16 arithmetic: `w.delay + w.ticks` is a PRECONDITION (<= 65535) of the three waiting_into_* contracts; it is not established by any caller under contract (ticks <= the configured timeout, delay = time the press spent queued; overflow needs a timeout near 65535 ms plus queueing delay and panics only with overflow checks on)',
        'the replay of buffered keys (Layout::tick / dequeue) and what do_action does with the chosen action are NOT under contract',
        'queues longer than 4 events are not explored',
    ],
    trusted_base=['rustc', 'Kani 0.68.0 / CBMC 6.11.0 / CaDiCaL'],
)

K = 'parser/src/keys/'
PROPS['C11'] = dict(
    level='proof',
    level_text=('Complete proofs. Kani/CBMC loop-free harnesses over EVERY u16 code for the OsCode/KeyCode conversions (including the two transmutes, '
                'with valid-value checks), Verus for: the two enum discriminant lists read from source are both exactly 0..=767 (by computation), and '
                'the output filter write_key/press_key/release_key never emits the reserved codes and routes mouse codes (unbounded, extracted text).'),
    level_note=('Trusted: rustc, Kani+CBMC, Verus+Z3, extractor. Assumed: KbdOut methods and post_filter_* append one log entry (external). Not decided: str_to_oscode / '
                'custom names, mapped-key set construction in the parser, the Linux event loop use of MAPPED_KEYS.'),
    technique='contract-based: Kani full-domain harnesses (complete) + Verus contracts on extracted output filter + generated discriminant VC',
    design_ref='DESIGN.md section 4, C11',
    explanation='from_u16/as_u16/From impls round-trip for all 65536 codes; known-code set pinned to 0..=748 and 767; transmutes construct no invalid value for 0..=767; discriminant lists equal 0..=767; E3: sixteen keys that the code refers to BY NAME on both sides (the eight modifiers, KeyCode::No / KEY_UNKNOWN, backspace, space, enter, escape, tab, 1, 0) have the same number in both enums (numbers read from the enum bodies each run); output filter contract.',
    verus=[dict(unit='keys')],
    kani=[
        H('parser', 'keys', 'c11_k_codes', kind='complete', covers='all 65536 u16 codes', timeout=1500, functions=[K + 'mod.rs OsCode::from_u16', K + 'mod.rs OsCode::as_u16', K + 'linux.rs OsCode::from_u16_linux', K + 'linux.rs OsCode::as_u16_linux', K + 'mappings.rs From<KeyCode> for OsCode', K + 'mappings.rs From<OsCode> for KeyCode', K + 'mod.rs From<OsCode> for u16/u32/i32/usize']),
        H('parser', 'keys', 'c11_k_codes_neg', kind='complete', expect='fail', timeout=1500, covers='must-fail twin: every code < 768 known'),
        H('parser', 'keys', 'c11_k_int_conversions', kind='complete', tier='thorough', timeout=3000, functions=[K + 'mod.rs TryFrom<usize>/From<u32>/From<u16> for OsCode']),
        H('parser', 'cfg', 'c11_b_defsrc_identity', kind='bounded', bound='concrete 767-iteration loop, symbolic index', tier='thorough', timeout=3600, functions=['parser/src/cfg/mod.rs create_defsrc_layer']),
        H('parser', 'keys', 'c11_k_transmute_valid', kind='complete', flags=['valid-value-checks'], covers='all codes 0..=767, UB check on'),
        H('parser', 'keys', 'c11_k_transmute_valid_neg', kind='complete', flags=['valid-value-checks'], expect='fail', covers='must-fail twin: 768'),
    ],
    assumptions=[
        'KbdOut::{write_key, click_btn, release_btn, scroll} and post_filter_press/release are assumed to emit exactly one output each (external_body)',
        'str_to_oscode: only the ten reserved names nop0..nop9 are checked (their match arms are read textually on each run and proved to lie in the ignored output range); every other name, custom deflocalkeys names (a global hash map), the mapped-key set construction and its use by the Linux event loop are NOT decided',
        'only target_os = "linux" arms',
    ],
    trusted_base=['rustc', 'Kani 0.68.0 / CBMC 6.11.0', 'Verus 0.2026.09.13 / Z3 (by(compute_only) for the discriminant lists)', 'vendored backtrace one-line patch (tooling only)'],
)

PROPS['C17'] = dict(
    level='other',
    level_text=('Bounded contract check (Kani/CBMC) on the real crate: WaitingState::handle_tap_dance and tick_wt (TapDance arm) against the counting rule of '
                'the statement (count = 1 + own presses before the first foreign press; decide on timeout / foreign press / list exhausted; chosen action = '
                'the N-th, the last if N reaches the length; queue keeps everything but own presses and all but the last own release, in order), for all '
                'clocks, lists of 1..=4 actions, queues of <= 4 events over 3 keys; TapDanceEagerState methods completely.'),
    level_note='Trusted: rustc, Kani + CBMC, Verus + Z3. Not decided: Layout::do_action beyond the TapDance arm; that the interrupting key is processed after the chosen action (order of events inside Layout::tick).',
    technique='contract harnesses (Kani/CBMC): symbolic waiting state + bounded symbolic queue, counting oracle from the statement, queue frame',
    design_ref='DESIGN.md section 4, C17',
    explanation='handle_tap_dance / tick_wt(TapDance) / TapDanceEagerState::{tick_tde,is_expired,set_expired,incr_taps}. Execution of the chosen action "exactly once": Verus unit waiting (shared with C05), waiting_into_tap with a TapDance config runs w.tap exactly once at the key coordinate with delay 0. do_action_tap_dance (FRAGMENT: the TapDance arm of Layout::do_action): the lazy form creates the pending count at ONE tap with the whole action list and timeout and runs nothing; the eager form runs the first listed action exactly once, now, under a counter that is fresh unless this key\'s counter is already running. dequeue_press (FRAGMENT: the Press arm of Layout::dequeue): a dequeued press runs exactly one action; while this key\'s eager counter runs (not expired) it is the action for the taps counted so far, and the counter is incremented and re-armed; a press of another REAL key ends the count (timeout := 0) before that key is resolved through the layers; a virtual key does not. tick_eager_counter (FRAGMENT of Layout::tick): the counter counts down and is dropped exactly when its timeout has passed or every listed action has been performed. TapDanceEagerState::{is_expired, set_expired, incr_taps, tick_tde} are under contract (also Kani: c17_k_eager_state). tick_wt_tap_dance (unit holdtap; FRAGMENT: the TapDance arm of WaitingState::tick_wt, with the count handle_tap_dance as a deterministic stub): when the dance is decided with N taps the action performed is the N-th listed one, the last one if N reaches or exceeds the list length (never an index outside the list); a further tap restarts the timeout, otherwise it keeps running; the new count is carried on.',
    verus=[dict(unit='waiting', only=['waiting_into_tap', 'do_action_tap_dance', 'dequeue_press', 'tick_eager_counter', 'is_expired', 'set_expired', 'incr_taps', 'tick_tde', 'lemma_sigs_push']), dict(unit='holdtap', only=['tick_wt_tap_dance', 'tick_wt'])],
    kani=[
        H('keyberon', 'layout', 'c17_b_handle_tap_dance', kind='bounded', bound='queue <= 4 events over 3 keys, lists 1..=4', functions=[L + 'WaitingState::handle_tap_dance']),
        H('keyberon', 'layout', 'c17_b_tick_wt_tap_dance', kind='bounded', bound='queue <= 4 events over 3 keys, lists 1..=4', functions=[L + 'WaitingState::tick_wt (TapDance arm)']),
        H('keyberon', 'layout', 'c17_k_eager_state', kind='complete', functions=[L + 'TapDanceEagerState::{tick_tde,is_expired,set_expired,incr_taps}']),
        H('keyberon', 'layout', 'c17_b_handle_tap_dance_neg', kind='bounded', expect='fail', covers='must-fail twin'),
    ],
    assumptions=['the ordering "interrupting key after the chosen action" (sequence of steps inside Layout::tick) is NOT under contract; waiting_into_tap, the TapDance arm of do_action, the Press arm of dequeue and the eager counter tick are (Verus unit waiting: do_action stubbed, see C05)',
                 'ASSUMED about the do_action stub (from reading it): it never clears tap_dance_eager; it either leaves the counter alone or stores a fresh one with num_taps == 1',
                 'a tap-dance lists fewer than 65535 actions (u16 tap counter): precondition of dequeue_press',
                 'queues longer than 4 events are not explored'],
    trusted_base=['rustc', 'Kani 0.68.0 / CBMC 6.11.0 / CaDiCaL'],
)

A = 'keyberon/src/action.rs '
CH = 'keyberon/src/chord.rs '
PROPS['C09'] = dict(
    level='other',
    level_text=('Bounded contract check (Kani/CBMC) on the real crate. v1: ChordsGroup::{get_chord, get_chord_if_unambiguous, get_keys} over symbolic 128-bit key '
                'sets and tables of <= 3 chords (exact-set match; unambiguous iff no strict superset is defined). v2: get_active_chord (release rule; ALSO proved unbounded by Verus, unit chordtab), '
                'drain_releases (participant release bookkeeping, non-participants change nothing, releases forwarded iff no press pending), '
                'get_action_chv2 (each chord handed out once), next_coord in 851..=900 (complete).'),
    level_note='Trusted: rustc, Kani + CBMC. Not decided: WaitingState::handle_chord accumulation and decomposition, the control flow of ChordsV2::process_presses around the closure bodies that are under contract (reads an FxHashMap), what handle_chord puts into the pressed queue.',
    technique='contract harnesses (Kani/CBMC): symbolic tables / queues within stated bounds, set-theoretic oracles from the statement',
    design_ref='DESIGN.md section 4, C09',
    explanation='F7 / forwarding to the layout (unit waiting, fragment tick_forward_chv2 = the chords-v2 prologue of Layout::tick, UNBOUNDED): everything chords v2 lets through in a tick reaches the state machine - the events handed to dequeue followed by the event queue are afterwards what they were before followed by that tick\'s output, in order, also when the 32-slot queue is full (assumed: do_action / dequeue do not touch the queue; u16 delays fit). chord tables (v1): ChordsGroup::{get_keys, get_chord, get_chord_if_unambiguous} are proved UNBOUNDED by Verus (unit chordtab: first entry for the coordinate; exact-set match; unambiguous iff no defined chord strictly contains the pressed set - via an assumed try_fold / find contract for pure closures and closure annotations generated from the closure text, R12) in addition to the bounded Kani harnesses; v2 get_active_chord (cut whole, same unit) is proved UNBOUNDED too: an activated chord starts out with coordinate / age / action / participants as given, waits for EVERY participant under release-on-last-release and for nothing otherwise, and starts out already released iff a release was seen while collecting and the rule is release-on-first-release (heapless extend -> helper with the capacity as precondition: a chord has <= 16 participants, an observation about the parser\'s limit); three closure BODIES of chords v2 are fragments with their captures as parameters (same unit): release_in_active_chord (the for_each closure of drain_releases: a non-participant changes nothing; a participant is struck off the keys still to be released and the chord counts as released exactly when none is left), chord_is_exactly_the_pressed_set (x3: the predicate handed to find() at the three places process_presses looks for a completed chord accepts a chord iff its participants and the accumulated presses are the SAME set - `xs.iter().all(|v| ys.contains(v))` -> assumed subset helpers, R48), drop_consumed_presses (the last statement of process_presses: exactly the queued presses of the keys that went into the chord are removed, every other queued event stays in order); the iteration around them (ArrayDeque / heapless retain, iter_mut().for_each, filter().find()) is std and assumed; forward_while_ignoring_chords (the first statement of drain_inputs, a fragment): while chords are being ignored the input queue is forwarded to the 16-slot drain queue and NOTHING IS LOST - forwarded events followed by what is still queued are the old drain queue followed by the old input queue, in order; the contract of `extend` it relies on (a Wrapping ArrayDeque takes only what fits and drops the rest of the iterator) is what the library does and is cross-checked on the real crate by the Kani harness c09_k_arraydeque_extend_takes_what_fits; this obligation FAILED on the tree as found (finding F6, repaired by a fix: commit); the rest of chord release tracking (v2): Kani; v1 "action repeated on every participating coordinate": Verus unit waiting (shared with C05): after the tap action ran at the chord coordinate, waiting_into_tap performs each simple action (key / output chord / one-shot / layer, also as members of a multi) once on every coordinate of the pressed queue, in order, and nothing else (spec fn repeats).',
    verus=[dict(unit='chordtab'), dict(unit='waiting', only=['waiting_into_tap', 'lemma_sigs_push', 'tick_forward_chv2', 'waiting_into_hold'])],
    kani=[
        H('keyberon', 'action', 'c09_b_get_chord', kind='bounded', bound='<= 3 chords, 128-bit sets symbolic', functions=[A + 'ChordsGroup::get_chord']),
        H('keyberon', 'action', 'c09_b_get_chord_if_unambiguous', kind='bounded', bound='<= 3 chords', functions=[A + 'ChordsGroup::get_chord_if_unambiguous']),
        H('keyberon', 'action', 'c09_b_get_keys', kind='bounded', bound='<= 3 coordinates', functions=[A + 'ChordsGroup::get_keys']),
        H('keyberon', 'action', 'c09_b_get_chord_if_unambiguous_neg', kind='bounded', expect='fail', covers='must-fail twin'),
        H('keyberon', 'chord', 'c09_k_next_coord', kind='complete', functions=[CH + 'ChordsV2::next_coord']),
        H('keyberon', 'chord', 'c09_b_get_active_chord', kind='bounded', bound='<= 3 participants', functions=[CH + 'get_active_chord']),
        H('keyberon', 'layout', 'c09_k_arraydeque_extend_takes_what_fits', kind='complete', covers='the `extend` contract the Verus fragment forward_while_ignoring_chords ASSUMES for ArrayDeque<_, N, Wrapping>: only `capacity - len` elements are taken, the rest of the drained iterator is dropped, drain(0..) empties the source; on the real crate, capacity 4, every fill level of both deques, symbolic elements', functions=['arraydeque 0.5.1 Extend for ArrayDeque<_, CAP, Wrapping>, ArrayDeque::drain']),
        H('keyberon', 'chord', 'c09_b_get_action_once', kind='bounded', bound='<= 3 active chords', functions=[CH + 'ChordsV2::get_action_chv2']),
        H('keyberon', 'chord', 'c09_b_drain_releases', kind='bounded', bound='1 symbolic queued event over 4 keys; 1 active chord of 2 keys awaiting 1 key; symbolic status', functions=[CH + 'ChordsV2::drain_releases']),
        H('keyberon', 'chord', 'c09_b_drain_releases_behind_press', kind='bounded', bound='same, behind a pending press of an unrelated key'),
        H('keyberon', 'chord', 'c09_b_drain_releases_neg', kind='bounded', expect='fail', covers='must-fail twin'),
    ],
    assumptions=['unit chordtab: `.iter()` on the two table slices is redirected to a stub iterator (R32; yields the entries front to back); find / try_fold / Option::map / Result::unwrap_or_default (Option default = None) are ASSUMED std contracts for pure closures (the step function\'s answers exist for every visited entry); the three closures are annotated from their own text (R12; tuple patterns in closure parameters become a `let` on the dereferenced entry)',
                 'handle_chord (v1 accumulation / abort reasons / PressedQueue), decompose_chord_into_action_queue, ChordsV2::process_presses and clear_released_chords are NOT under contract (harnesses for handle_chord and clear_released_chords were built and exhausted 39 GB / 10-15 min without a result)',
                 'drain_releases is checked for ONE active chord only: a defect that needs two chords active at once is not detected',
                 'parser guarantee used as precondition: chord key sets within a group are unique'],
    trusted_base=['rustc', 'Kani 0.68.0 / CBMC 6.11.0 / CaDiCaL'],
)


def _c02_kani():
    """C02 = union of the panic-/overflow-freedom obligations of every harness that must pass.
    quick: every harness that is quick in its own property, except the one expensive full-domain
    key-table harness; thorough: all of them."""
    slow = {'c11_k_codes'}
    out = [
        H('parser', 'cfg', 'c02_k_key_max_fits_row', kind='complete', covers='all codes 0..=KEY_MAX as layer-row column', functions=['parser/src/layers.rs KEYS_IN_ROW (row width relied on by parse_layers, create_defsrc_layer, Layout::resolve_coord)']),
        H('keyberon', 'layout', 'c02_b_history', kind='bounded', bound='<= 10 pushes into the 8-slot history', functions=[L + 'History::{push_front,tick_hist,iter_hevents}']),
        H('keyberon', 'layout', 'c02_k_history_saturates', kind='complete'),
        H('keyberon', 'layout', 'c02_k_arraydeque_wrapping_contract', kind='complete', covers='the ArrayDeque<_, N, Wrapping> contract that the Verus units oneshot / waiting / seqs ASSUME (push_back incl. eviction of the front when full, pop_front, get, clear, len, is_empty; NOT remove), on the real crate, capacity 4, every fill level, symbolic elements', functions=['arraydeque 0.5.1 ArrayDeque<_, 4, Wrapping>::{new, push_back, pop_front, get, clear, len, is_empty}']),
    ]
    seen = set(h['name'] for h in out)
    for pid in ('C03', 'C05', 'C06', 'C09', 'C10', 'C11', 'C17'):
        for h in PROPS[pid]['kani']:
            if h.get('expect') == 'fail' or h['name'] in seen:
                continue
            seen.add(h['name'])
            hh = dict(h)
            if h.get('tier', 'quick') == 'thorough' or h['name'] in slow:
                hh['tier'] = 'thorough'
            else:
                hh['tier'] = 'quick'
            out.append(hh)
    return out


PROPS['C02'] = dict(
    level='other',
    level_text=('Partial. Absence of panics, arithmetic overflow, out-of-bounds indexing, failed unwrap/expect/assert!/unreachable! is an obligation of every '
                'function under contract for the other properties; C02 reports the union. Unbounded (Verus): all of dynamic_macro.rs recorder/replayer '
                'functions for EVERY state (no preconditions), the switch codec/decoder/evaluator and the compiler fragments under their stated preconditions, the three OneShotState methods, '
                'the waiting_into_* methods and the tap-hold / tap-dance / one-shot arms and the tick dispatch of Layout (fragments), Kanata::handle_repeat_actual and Kanata::handle_scrolling '
                '(`interval - 1`: safe exactly under the parser-enforced non-zero interval). Bounded (Kani): one-shot, '
                'tap-hold, tap-dance, chord, history and diagnostics functions within the bounds listed per harness. The bulk of Layout::{tick,do_action,event,resolve_coord}, '
                'every other Kanata method and the parser are NOT covered.'),
    level_note='The universal statement (whole system, all accepted configs, all histories) is out of reach of contracts; only per-function panic-freedom is decided. Parser-side range checks the run time relies on (non-zero intervals, depth <= 8) are assumed.',
    technique='contract-based: Verus (overflow/bounds/unwrap/assert sites as obligations) + Kani default checks on the harnesses of C03 C05 C06 C09 C10 C11 C17',
    design_ref='DESIGN.md section 4, C02',
    explanation='union of panic-freedom obligations of every function under contract; the quick tier leaves out only the harnesses that are thorough-tier in their own property and the full-domain key table harness',
    verus=[dict(unit='dynmacro', only=DYN_FUNCS), dict(unit='switch'), dict(unit='oneshot'), dict(unit='waiting'), dict(unit='ticks'), dict(unit='repeat'), dict(unit='seqs'), dict(unit='layers'), dict(unit='sexpr'), dict(unit='reload'), dict(unit='holdtap'), dict(unit='chordtab'), dict(unit='overrides'), dict(unit='customth'), dict(unit='input')],
    kani=_c02_kani(),
    assumptions=[
        'tick_forward_chv2 (F7): ASSUMED frame - Layout::do_action and Layout::dequeue (stubs) leave self.queue unchanged (from reading: neither they nor their callees name self.queue); ASSUMED u16 arithmetic - the press-to-decision delay of every undecided key fits (delays_fit, re-asserted by both stubs); ChordsV2::tick_chv2 / get_action_chv2 are stubs here (tick output uninterpreted, <= 16 events); `for queued in q.drain(0..)` is verified as `while let Some(queued) = q.pop_front()` (R60); arraydeque push_back / pop_front / Extend contracts assumed (Kani cross-checks c02_k_arraydeque_wrapping_contract, c09_k_arraydeque_extend_takes_what_fits)',
        'NOT covered: Layout::{tick, do_action, event} outside the fragments named above, resolve_coord, process_sequences, ChordsV2::process_presses, every Kanata method except handle_repeat_actual and handle_scrolling (handle_move_mouse uses f64; tick_sequence_state returns a &mut from a getter), the parser',
        'preconditions that carry parser promises (unchecked on the parser side, whose checking functions are closure chains): scroll interval >= 1 (handle_scrolling), expression depth <= 8 (evaluator; the compiler prologue fragment establishes it), layer numbers index key_outputs (handle_repeat_actual), a tap-dance lists >= 1 action, w.delay + w.ticks <= 65535 (waiting_into_*)',
        'switch evaluation: expression depth <= 8 and well-formed opcode stream are preconditions (parser promises, unchecked)',
        'observed, not under any obligation: resolve_coord asserts y <= len then indexes [y]; chords v2 drain_releases/process_presses debug_assert on > 16 queued presses (debug builds only); get_active_chord extend() panics for a chord with > 16 participants',
    ],
    trusted_base=['rustc', 'Verus 0.2026.09.13 / Z3', 'Kani 0.68.0 / CBMC 6.11.0'],
)

PROPS['C14'] = dict(
    level='proof',
    level_text=('Unbounded deductive proofs (Verus/Z3) of BOTH halves, on text cut from /repo each run. (1) Table completeness, by structural induction over the real '
                'Action type: add_key_output_from_action_to_key_pos records, for a key position, every OS key its action can put down, for every action tree '
                '(plain key, output chord, multi, tap-hold incl. timeout action, tap-dance, one-shot, fork, switch, chords v1, unmod/unshift, use-defsrc). '
                '(2) The run-time lookup, Kanata::handle_repeat_actual cut whole: at most one event is written, it is a Repeat, and it is for exactly '
                'repeat_pick(..) = held layers newest first, then the base layer, then the physical key itself, in each table the LAST-listed output that is '
                'active - and that key is active (in the override-adjusted list of keys being held, or held through unshift / unmod); nothing in the hidden sequence modes. '
                'Everything handle_repeat_actual calls is a stub with an assumed contract; the link between the two halves (the run-time table IS what the builder '
                'produced, per layer) is not under contract; the override contributions (add_kc_output) and the chords-v2 contributions (add_chordsv2_output_for_key_pos) are.'),
    level_note=('Trusted: rustc, Verus+Z3, extractor (R7/R7e slicing; opaque HoldTapConfig, UnmodMods, Overrides, HashMap; in unit repeat OsCode/KeyCode are opaque and the conversion is '
                'a spec function - their identity is C11). Assumed: the hash-map entry idiom in add_kc_output (R37), Overrides::output_non_mods_for_input_non_mod returns a fixed list per key; Layout::keycodes / trans_resolution_layer_order, '
                'Overrides::override_keys (any change of the held-key list), write_key (one log entry), FxHashMap::get, slice contains; every layer number the layout reports indexes key_outputs. '
                'Not covered: create_key_outputs, the hardware repeat gate.'),
    technique='contract-based deductive verification (Verus): ensures over recursive spec functions (can_output; repeat_pick), decreases on the action tree, loop invariants over ghost iterators, ghost output log',
    design_ref='DESIGN.md section 4 C14 and section 9.1b',
    explanation=('Unit keyout - contract on parser/src/cfg/key_outputs.rs::add_key_output_from_action_to_key_pos: for all k, can_output(action, slot, k) ==> the table has (slot, k) AND (slot, o) for the output key o of every override whose input key is k '
                 'afterwards, and the table only grows; add_kc_output (cut whole, the callee that writes the table): the key and every override output of it are recorded, the old list is a prefix of the new one (nothing removed or reordered), nothing else is added, other positions untouched; can_output is written from the list of key-producing forms in the property statement; termination by structural '
                 'decrease through references and slices; seven for-loops with invariants. Unit repeat - contract on src/kanata/key_repeat.rs::handle_repeat_actual: the log of '
                 'OS writes grows by at most one (key, Repeat) entry, the key is repeat_pick(order, default_layer, key_outputs, event.code, cur_keys\', unshifted, unmodded), '
                 'which is proved active (lemma_last_active_is_active); three loops (held layers; outputs of a held layer, reversed; outputs of the base layer, reversed) with '
                 'invariants "no earlier layer / later-listed output was active"; early returns carry the postcondition. Unit input - Kanata::handle_input_event, cut whole: an OS repeat event goes to handle_repeat and nowhere else (no layout event is queued for it, nothing is recorded), so the at-most-one Repeat of handle_repeat_actual is all a repeat event can produce; handle_repeat itself is a stub there and is cut whole in unit repeat: it calls handle_repeat_actual (checked against that contract), then empties the scratch list of held keys - at most one event is written, and only a Repeat.'),
    verus=[dict(unit='keyout'), dict(unit='repeat'), dict(unit='input')],
    kani=[],
    assumptions=[
        'unit input (handle_input_event, cut whole): record_press / record_release / handle_repeat / Layout::event / HashMap::insert are LOGGING stubs (the first two and handle_repeat_actual are under contract in units dynmacro / repeat; Layout::event in unit waiting); record_press returns an uninterpreted function of the recorder state (the completed recording, if any); `self.layout.bm()` is a `&mut` borrow of an inner layout struct holding a ghost event log; the macro-cancel branch\'s `layout.states.retain(|s| !matches!(..))` is a logged helper (R42); log::debug! dropped (R1); OsCode -> u16 uninterpreted',
        'unit repeat, ASSUMED stubs: SequenceState::get_active (rewritten to a shared-reference getter, R18), KanataLayout::bm() (R18: shared reference; only default_layer, keycodes(), trans_resolution_layer_order() are read), Vec::extend (R19), Overrides::override_keys (may change the held-key list arbitrarily - C13 is not decided), write_key (appends one entry to a ghost log; its own filter is proved in C11), FxHashMap::get, <[T]>::contains = membership for structural-equality types, `v.iter().rev().copied()` = the items back to front (R17); bail! -> return Err (R13)',
        'unit repeat, PRECONDITION not established by a caller under contract: every layer number in the layout\'s resolution order, and default_layer, index key_outputs',
        'cur_keys is assumed empty on entry only implicitly: the contract speaks about cur_keys AFTER extend + override_keys, whatever it was before',
        'NOT decided: that key_outputs at run time is the table add_key_output_from_action_to_key_pos built (create_key_outputs, live reload); the hardware repeat gate in the Linux event loop',
        'add_chordsv2_output_for_key_pos is UNDER CONTRACT (cut whole): every chords-v2 chord the key takes part in that is not disabled on the layer contributes what its action can put down (and the override outputs); ChordsV2 is opaque except for chords(); FxHashMap::get is an assumed stub; OsCode -> u16 uninterpreted; its `assert!(layer_idx <= u16::MAX)` is a precondition, not established by a caller under contract',
        'NOT covered: create_key_outputs (the per-layer driver loop: nested enumerate() with a `continue` inside a match arm - this Verus has no continue in for loops)',
        'add_kc_output is UNDER CONTRACT (no longer assumed): the idiom `match outs.entry(k) { Occupied(o) => o.into_mut(), Vacant(v) => v.insert(vec![]) }` is rewritten (R37) to a helper returning a mutable borrow of the list stored for k (ASSUMED contract of the std hash-map entry API: empty list inserted if absent; what is done through the borrow is what the table holds for k afterwards; other keys untouched); `overrides.output_non_mods_for_input_non_mod(osc).iter().copied()` is iterated as the returned vector by value (R17); Overrides::output_non_mods_for_input_non_mod is an ASSUMED callee returning the uninterpreted list outs_for(osc); <[T]>::contains = membership (assumed std contract)',
        'KeyCode -> OsCode (a transmute) is assumed to preserve the number here; that is proved for every code by the Kani harnesses of C11',
        'CustomAction is represented by the two variants the function names (Unmodded, Unshifted) plus one catch-all variant (rewrite R7e); all other variants are treated uniformly by the function (`_ => {}`)',
    ],
    trusted_base=['rustc', 'Verus 0.2026.09.13 / Z3', 'extractor lib/rustcut.py + lib/verusgen.py (rewrites logged in rewrites_applied)'],
)


PROPS['C08'] = dict(
    level='proof',
    level_text=('PARTIAL: unbounded deductive proofs (Verus/Z3) on text cut from keyberon/src/layout.rs each run, of the macro STEPPER and its activation / cancellation: '
                '(1) the main loop of Layout::process_sequences: in one tick every running macro takes at most ONE step - a pending delay counts down, else a tap is finished, '
                'else exactly one event is taken from the FRONT of its list - Press puts a fake key down, Release takes it up, Tap does the former now and the latter on the '
                'macro\'s next tick, Delay{d} blocks d ticks including this one, Custom is queued; exhausted macros are dropped, the others keep their order; '
                '(2) the Sequence / RepeatableSequence arms of do_action start a fresh cursor at the start of exactly the action\'s event list behind the running ones (ring of 4: a fifth evicts the oldest); '
                '(3) the CancelSequences arm leaves no macro running and NO fake key press in the state table, and touches no other state. '
                'Not decided: the parser\'s expansion of a written macro into events (so "precisely the key list it spells out" is decided from the event list on, not from the configuration text), '
                'release-cancel / cancel-on-press in Kanata, the restart of a repeating macro, and what the OS sees (states -> keycodes -> Kanata output).'),
    level_note=('Trusted: rustc, Verus+Z3, extractor (fragments: the loop of process_sequences without the trailing repeating-macro block; three arms of do_action). Assumed stubs: ArrayDeque(Wrapping) '
                '{len,pop_front,push_back,clear}, heapless::Vec {push (Err when full), retain (predicate asked once per element), clone}, History::push_front and OneShotState::handle_press/handle_release (logged). '
                'Rewrites: R10, R12 (closure annotation generated from the closure body), R20 (`if let [e, tail @ ..] = xs` -> `xs.split_first()`), R21 (loop-head temporary bound to a local).'),
    technique='contract-based deductive verification (Verus): loop invariant over an abstract cursor view (step_v / step_world / run_out / run_world), ghost logs for the calls into History and OneShotState',
    design_ref='DESIGN.md section 9.1b (C08)',
    explanation=('Unit seqs. process_sequences_loop: views(active_sequences\') == run_out(views(active_sequences), n) and world\' == run_world(views(active_sequences), n, world) where world = (state table, key history log, one-shot log); '
                 'State::seq_release against its spec; do_action_sequence / do_action_repeatable_sequence: views\' == views.push(fresh(events)) (or drop_first().push when 4 are running), state table unchanged / + the RepeatingSequence marker; '
                 'do_action_cancel_sequences: active_sequences empty, forall states: not FakeKey, filter(nonfake) unchanged.'),
    verus=[dict(unit='seqs')],
    kani=[],
    assumptions=[
        'NOT decided: the parser-side expansion of macro text into SequenceEvents (parse_macro..: held modifier groups, nested lists), Kanata-side cancellation (release-cancel, macro_on_press_cancel_duration), the trailing block of process_sequences that restarts a repeating macro while its trigger state exists (`.iter().rev().find(closure)`), process_sequence_custom, and the path from the state table to OS output',
        'a macro whose event list does not release what it pressed leaves that fake key down when it ends: "always end with keys released" is a property of the parser\'s expansion (not under contract) except for cancellation, which is proved to release every fake key',
        'the state table holds 64 entries: a Press / Custom beyond that is silently dropped by the code (`let _ = self.states.push(..)`); the contract says so (spec fn pushed)',
        'assumed container contracts as listed in level_note; History / OneShotState are opaque with ghost logs (what they do with a call is C10 / C06)',
    ],
    trusted_base=['rustc', 'Verus 0.2026.09.13 / Z3', 'extractor lib/rustcut.py + lib/verusgen.py (rewrites logged in rewrites_applied)'],
)


PROPS['C04'] = dict(
    level='proof',
    level_text=('PARTIAL: unbounded deductive proofs (Verus/Z3) of the per-call mechanics the layered-keymap model rests on, on text cut from keyberon/src/layout.rs each run: '
                '(1) THE SEARCH - Layout::resolve_coord returns, for a coordinate and a layer order, the first non-transparent entry along that order, else the defsrc key of the column '
                '(row 0) or nothing (other rows); (2) WHAT A PRESS RECORDS - the KeyCode arm of do_action (its head) pushes a key state AT THE PRESSED COORDINATE, the Layer arm a layer state at the '
                'coordinate, the DefaultLayer arm / set_default_layer switch the base layer only to a layer that exists; (3) RELEASE BY COORDINATE - State::release ends a state iff it was created '
                'at the released coordinate, whatever the layers are by then, and reports a custom action\'s release. NOT decided: the construction of the search order '
                '(trans_resolution_layer_order / current_layer / active_held_layers: iterator chains with closures), the release loop in dequeue (a retain closure mutating a captured event), '
                'one-event-per-tick FIFO order of Layout::tick as a whole, and the Kanata-side emission (diff of key lists) - so the trace equivalence with the model is NOT established, only its per-call ingredients.'),
    level_note=('Trusted: rustc, Verus+Z3, extractor. Rewrites: R5 (the layer-order iterator parameter of resolve_coord becomes the vector of layer numbers it yields), R10, R24 (`continue` as the last statement of the loop body -> `{}`), '
                'R23 (a match arm `P1 | P2 | P3 if G => B` is distributed into one guarded arm per alternative: this Verus rejects or-pattern + guard), fragment `until` (the KeyCode arm is cut before its repeat-buffer tail, which is `unsafe` + closures). '
                'Assumed stubs: heapless::Vec::push, History::push_front, OneShotState::handle_press (proved in unit oneshot), LastPressTracker::update_coord (proved in unit waiting).'),
    technique='contract-based deductive verification (Verus): ensures over a recursive spec function (resolved), loop invariant, contracts on State helpers, ghost logs',
    design_ref='DESIGN.md section 9.1b (C04)',
    explanation=('Unit layers. resolve_coord: *r == resolved(layers, src_keys, x, y, order, 0) under x < R, y < C, order names existing layers; State::{coord, keycode, get_layer, release}; CustomEvent::update; '
                 'set_default_layer; do_action_key_code_head / do_action_layer / do_action_default_layer: states\' == pushed(states, NormalKey{keycode, coord, flags 0} | LayerModifier{value, coord}), '
                 'one-shot logic told Other(coord) unless is_oneshot, base layer changed only by DefaultLayer and only to an existing layer.'),
    verus=[dict(unit='layers'), dict(unit='waiting', only=['event_real', 'from', 'push_back_chv2', 'tick_forward_chv2'])],
    kani=[],
    assumptions=[
        'tick_forward_chv2 (F7): ASSUMED frame - Layout::do_action and Layout::dequeue (stubs) leave self.queue unchanged (from reading: neither they nor their callees name self.queue); ASSUMED u16 arithmetic - the press-to-decision delay of every undecided key fits (delays_fit, re-asserted by both stubs); ChordsV2::tick_chv2 / get_action_chv2 are stubs here (tick output uninterpreted, <= 16 events); `for queued in q.drain(0..)` is verified as `while let Some(queued) = q.pop_front()` (R60); arraydeque push_back / pop_front / Extend contracts assumed (Kani cross-checks c02_k_arraydeque_wrapping_contract, c09_k_arraydeque_extend_takes_what_fits)',
        'Layout::event (unit waiting, extracted as event_real): proved that while fewer than 32 events are pending an incoming event is appended with age 0 to the queue that feeds the state machine (the chords-v2 queue when configured) and nothing else happens - "No event is lost, duplicated or reordered while fewer than 32 events are pending"; the flood path (33rd event) is in the extracted text but excluded by the precondition, i.e. NOT verified',
        'NOT decided: which order is handed to resolve_coord (held layers newest first, base layer, optional layer 0): trans_resolution_layer_order / current_layer / active_held_layers are iterator chains with closures, outside Verus; Kani on a Layout instance was measured infeasible (DESIGN 2)',
        'NOT decided: Layout::dequeue Release arm (retain closure that mutates a captured CustomEvent), Layout::tick as a whole (one event per tick, FIFO), Layout::event, the rest of do_action (MultipleKeyCodes, multi, release-key/layer), Kanata::handle_keystate_changes (ordered, de-duplicated emission), the parser\'s layer table construction',
        'resolve_coord preconditions (coordinate inside the table, order names existing layers) are not established by a caller under contract; the function\'s own asserts use `<=` and would let an index equal to the length through (observation, see C02)',
        'State::release: the frame "a state that is not the released custom action leaves the pending event unchanged" is true by inspection but not claimed: this Verus loses it across guarded arms when one arm mutates a &mut parameter (minimal reproduction in DESIGN 9.3)',
        'the state table holds 64 entries: a press beyond that records nothing (`let _ = self.states.push(..)`); the contract says so (spec fn pushed)',
    ],
    trusted_base=['rustc', 'Verus 0.2026.09.13 / Z3', 'extractor lib/rustcut.py + lib/verusgen.py (rewrites logged in rewrites_applied)'],
)


PROPS['C18'] = dict(
    level='other',
    level_text=('SMALL SCOPE, unbounded proofs (Verus/Z3): (1) the one function every virtual-key operation goes through, handle_fakekey_action (src/kanata/mod.rs, cut whole): '
                'press queues a press of the virtual key\'s coordinate, release a release, tap both with the press first, toggle a release if a state exists at the coordinate and a press otherwise. '
                '(2) The timed forms, as FRAGMENTS (the bodies of the closures handed to HashMap::retain / entry().and_modify / entry().or_insert_with / HashSet::retain, wrapped in synthetic signatures with their captures as parameters): '
                'hold-for-duration - first activation presses the virtual key and starts its countdown at the configured duration (vkey_hold_start); a re-activation while the key is still pending restarts the countdown at the stated duration of that most recent activation, whatever was left (vkey_hold_rearm, the expression closure of and_modify); each millisecond the countdown goes down by one (saturating) and the key is released, and forgotten, exactly when it reaches zero (vkey_countdown_one); '
                'on-idle - a pending action fires, through handle_fakekey_action, exactly when kanata has been idle for at least the configured time, and is then forgotten; otherwise nothing happens and it stays pending (idle_fire_one). '
                'NOT decided: the std semantics the fragments sit in (retain calls the closure once per entry and keeps it iff true; entry().and_modify(f).or_insert_with(g): re-arm vs insert), ticks_since_idle bookkeeping, '
                'that the four sources (key, macro, sequence, TCP) all call these functions, that toggle ALTERNATES over a history (it does iff a press creates and a release removes a state at the coordinate: Layout, see C04), '
                'and what the queued events then do.'),
    level_note='Trusted: rustc, Verus+Z3, extractor. Assumed: Layout::event appends to the queue (logged stub); states_has_coord (`.iter().any(closure)`) decides "a state exists at the coordinate"; `match deadline {` on a `&mut u16` is rewritten to `match *deadline {` (R45: this Verus does not match a reference against a literal pattern); HashMap / HashSet retain and the entry API are outside.',
    technique='contract-based deductive verification (Verus) of one dispatcher function and four closure bodies against a ghost event log',
    design_ref='DESIGN.md section 9.1b (C18)',
    explanation='Session 3: State::release_state (release-key / release-layer applied to one active state) is under contract, whole: a key state ends iff it holds exactly the named key code, a layer state iff it holds exactly the named layer, every other state is kept unchanged (named_by); and the chords-v2 prologue of Layout::tick (unit waiting, fragment tick_forward_chv2, F7) loses no event: dequeued + queue afterwards == dequeued + queue before + the tick output of chords v2, in order, for every fill level of the 32-slot queue. Unit vkeys: handle_fakekey_action appends exactly [Press] / [Release] / [Press, Release] / [held ? Release : Press] for the coordinate (x, y) to the layout event log. vkey_countdown_one: deadline\' == deadline - 1 (saturating), kept iff deadline\' != 0, Release(coord) queued iff deadline\' == 0. vkey_hold_start: Press(coord) queued, returns the duration. vkey_hold_rearm: the pending countdown becomes exactly the new duration. idle_fire_one (caller of handle_fakekey_action, checked against its contract): fires iff ticks_since_idle >= idle_duration, queues exactly that action\'s events, returns false (dropped); else true and nothing changes.',
    verus=[dict(unit='vkeys')],
    kani=[],
    assumptions=[
        'NOT decided: HashMap::retain / HashSet::retain / entry().and_modify().or_insert_with() themselves (the closures\' BODIES are under contract, their callers\' iteration is std), ticks_since_idle bookkeeping (it is reset in handle_input_event: unit input)',
        'NOT decided: call sites (custom action handler, macro / sequence activation, tcp_server) and Layout::event / dequeue / do_action for row-1 coordinates',
        'states_has_coord is an assumed stub (closure in Iterator::any)',
        'R45: `match deadline {` with `deadline: &mut u16` and literal patterns -> `match *deadline {`',
    ],
    trusted_base=['rustc', 'Verus 0.2026.09.13 / Z3', 'extractor lib/rustcut.py + lib/verusgen.py'],
)


PROPS['C13'] = dict(
    level='other',
    level_text=('Unbounded proofs (Verus/Z3) about the pure key-list transformation Overrides::override_keys and every function it is built from (per call; not the history-level half of the statement), on text cut from parser/src/cfg/key_override.rs each run. '
                'Proved: (1) override_keys, whole: with no overrides configured nothing happens; otherwise the list is scanned once, front to back, starting from a CLEAN scratch state (nothing from the previous tick survives: '
                '"no override output key stays pressed"), a modifier is remembered in the mask, any other key goes through the selection with the modifiers that came before it; afterwards exactly the keys marked for removal are '
                'taken out - every other key stays, in order ("keys outside the combination are unaffected") - and the keys to add are appended. (2) What a selected override marks: add_override_keys puts the output modifiers and the output key into '
                'the add list (each once, nothing else), add_removed_keys puts the whole input combination - its modifiers and its one non-modifier key - into the remove list. (3) mask_for_key gives the eight modifiers eight distinct bits and '
                'nothing else a bit; get_mod_mask is the union of the bits of the input modifiers. '
                '(4) THE SELECTION ("when several overrides of the same key match, the one with the most modifiers wins"): Overrides::update_keys selects with ovds.iter().filter(CLOSURE).last(), the closure keeping a running maximum in a captured counter. The closure BODY is a fragment (select_step: captured counter as a &mut parameter): one call is one step of the scan - accepted iff the override\'s modifiers are all held and it has MORE modifiers than anything accepted so far; lemma_scan_picks_most_modifiers: the last accepted override is a matching one with the largest number of modifiers among ALL matching overrides of the key (the first such in table order), nothing is accepted iff none matches; update_keys itself, cut whole with the iterator chain replaced by a helper whose contract is that scan: no overrides for the key or none matching - both lists untouched; otherwise the selected override\'s output keys go into the add list and its whole input combination into the remove list, nothing else. ASSUMED there: the std meaning of filter / last (closure called once per element, in order; last accepted element returned). '
                'NOT decided: Override::try_new (validation, iterator chains), the eager-erasure marking, release-on-activation and everything on the Kanata side (what the OS then sees over a history).'),
    level_note=('Trusted: rustc, Verus+Z3, extractor. Assumed: Iterator::filter / last (std meaning), FxHashMap::get, OverrideStates::add_overrides (one statement of iterator adaptors: appends the add list, converted), Vec::retain (R42 helper: predicate called once per element, front to back), '
                '`v.iter().copied()` = the items front to back (R17), <[T]>::contains = membership, FxHashMap::is_empty, KeyCode <-> OsCode conversions uninterpreted (C11). Type invariant of Override assumed as a precondition of get_mod_mask: in_mod_oscs holds modifiers only (else `.expect("mod only")` panics).'),
    technique='contract-based deductive verification (Verus): ensures over a recursive fold (run/step) of the scan, loop invariants over ghost iterators, closure postcondition for the retain predicate',
    design_ref='DESIGN.md section 9.1b (C13)',
    explanation=('Unit overrides. override_keys: is_empty ==> kcs and states unchanged; else final(states) == run(old kcs, len) and final(kcs) == kept(old kcs, run.rem) + run.add mapped to key codes, where run folds step over the list from the clean state and '
                 'step(st, osc) = (mods | mask) for a modifier, (upd_add, upd_rem)(osc, st.mods, ..) otherwise. update == step; cleanup empties; is_key_overridden == membership in the remove list; the retain closure is verified against `b == !rem.contains(osc_of(*kc))`. '
                 'add_override_keys / add_removed_keys: old list is a prefix, every listed key and the non-modifier key present, nothing else added. mask_for_key == mask_spec (bit_vector hint for the eight shifts); get_mod_mask == mask_of(in_mod_oscs).'),
    verus=[dict(unit='overrides')],
    kani=[],
    assumptions=[
        'the selection: `ovds.iter().filter(CLOSURE).last()` is replaced by a helper whose contract is the recursive scan (R47; ASSUMED std meaning of filter / last); the closure body is the fragment select_step with the captured counter as a `&mut` parameter (every use `cur_chord_size` -> `(*cur_chord_size)`, R46); update_keys is verified under the name update_keys_impl, while its callers (OverrideStates::update, hence override_keys) see a stub whose effect is an uninterpreted function constrained by the same predicate upd_ok that update_keys_impl is proved to satisfy',
        'NOT decided: Override::try_new (exactly one non-modifier key in and out), Overrides::new (grouping by input key), mark_overridden_nonmodkeys_for_eager_erasure, override_release_on_activation and the emission in Kanata::handle_keystate_changes',
        'OBSERVATION (from the proved scan order): a modifier counts for a key only if it comes BEFORE that key in the list of keys being held',
        'precondition of get_mod_mask (type invariant established by try_new, not under contract): every key of in_mod_oscs is one of the eight modifiers',
        'OverrideStates::add_overrides, Vec::retain, slice contains, `iter().copied()`, FxHashMap::is_empty are assumed contracts; KeyCode <-> OsCode are uninterpreted functions',
    ],
    trusted_base=['rustc', 'Verus 0.2026.09.13 / Z3', 'extractor lib/rustcut.py + lib/verusgen.py (rewrites logged in rewrites_applied)'],
)


PROPS['C15'] = dict(
    level='proof',
    level_text=('PARTIAL: unbounded deductive proofs (Verus/Z3) of the all-or-nothing structure of live reload, on text cut from src/kanata/mod.rs each run (configuration: target_os = "linux", cargo features tcp_server / zippychord / gui OFF - the '
                'notification and zippychord statements are #[cfg]-gated and dropped, rewrite R6): (1) Kanata::do_live_reload, whole: if the file does not parse (or the output device rejects the new options) NOTHING of the running '
                'configuration or state is touched; if it returns Ok every configuration-derived field (layout, key outputs, layer info, sequences, overrides, mapped keys, the defcfg-derived options) comes from the newly parsed '
                'configuration, the layer shown is the new layout\'s current layer and the macro cancel window is closed; (2) the deferral statement of handle_time_ticks: a requested reload is attempted exactly when no output key is down '
                '(previous and current key lists empty) or kanata has been idle for more than 1000 ticks; the request is consumed by the attempt; a failed attempt leaves everything but the request flag as it was. '
                'NOT decided: "then behaves exactly like a freshly started instance" (relational, over histories), the client notifications (feature-gated code), the choice of file (lrld-next/prev/num), what new_from_file accepts.'),
    level_note=('Trusted: rustc, Verus+Z3, extractor (R6 cfg resolution, R7 slicing of Kanata / Cfg / CfgOptions / CfgLinuxOptions to the fields the function moves, opaque payload types). Assumed stubs: cfg::new_from_file = a function of the path (parse_of), '
                'update_kbd_out, get_forced_log_layer_changes, Kanata::set_repeat_rate, print_layer, Layout::current_layer; `*MAPPED_KEYS.lock() = v` recorded in a ghost field (R25); bail! -> return Err (R13); bm() read-only (R18).'),
    technique='contract-based deductive verification (Verus): frame postcondition `*final(self) == *old(self)` on the failure paths, field-by-field postcondition on success, one statement-level fragment for the deferral test',
    design_ref='DESIGN.md section 9.1b (C15)',
    explanation=('Unit reload. do_live_reload: (parse_of(path) is Err || !kbd_out_ok(options)) ==> r is Err && *final(self) == *old(self); parse Ok && devices accept ==> r is Ok; r is Ok ==> fields == parsed cfg\'s, prev_layer == new layout\'s current layer, macro_on_press_cancel_duration == 0, file list / index / key lists kept. '
                 'reload_when_quiet (fragment): due := requested && ((prev_keys empty && cur_keys empty) || ticks_since_idle > 1000); !due ==> unchanged; due ==> request consumed; due && parse fails ==> only the flag changed.'),
    verus=[dict(unit='reload')],
    kani=[],
    assumptions=[
        'verified for the feature set {} (no tcp_server, zippychord, gui): the ConfigFileReload / LayerChange notifications and zch_configure are #[cfg]-gated statements, dropped and logged (R6); the default build has tcp_server and zippychord ON - their statements sit after the assignments and cannot undo the failure-half, but "clients are notified" is NOT decided',
        'OBSERVATION (outside the property\'s fault model, which is about the file): if the file parses but Kanata::set_repeat_rate fails (linux-x11-repeat-delay-rate configured and the helper fails), do_live_reload returns Err AFTER the new configuration has been assigned: prev_layer is not updated and nothing is printed or notified. The contract states the failure-half for parse / device-option failures only',
        'only the fields kept by the slicing are covered by `*final(self) == *old(self)`; a field that is dropped cannot be named by the extracted text at all (Verus would reject it), so it is unchanged by construction',
        'NOT decided: "behaves exactly like a freshly started instance" (relational), the file index selection (lrld-next/prev/num), reload requests repeated back-to-back beyond what the per-call contract gives, the parser',
    ],
    trusted_base=['rustc', 'Verus 0.2026.09.13 / Z3', 'extractor lib/rustcut.py + lib/verusgen.py (rewrites logged in rewrites_applied)'],
)


def find_harness(name):
    for p in PROPS.values():
        for h in p.get('kani', []):
            if h['name'] == name:
                return h
    for h in EXTRA_HARNESSES:
        if h['name'] == name:
            return h
    return None


EXTRA_HARNESSES = []

GLOBAL_ASSUMPTIONS = [
    'machine arithmetic is NOT idealised: Verus checks every u8/u16/usize operation for overflow/underflow as an obligation, Kani/CBMC is bit-precise with overflow checks on; no function under contract uses floating point',
    'unsafe code: the two OsCode<->KeyCode transmutes are checked with -Z valid-value-checks (C11); History::tick_hist reads MaybeUninit slots (Kani runs it without uninitialised-memory checks); no other unsafe block is on a verified path',
    'termination: proved for the Verus functions (decreases clauses on the evaluator loops, SwitchActions::next, the PermissiveHold scan of handle_hold_tap; for-loops over finite collections) EXCEPT parse_with_builder (unit sexpr: the token iterator is opaque, `exec_allows_no_decreases_clause`); NOT proved by Kani beyond the stated unwinding bounds (unwinding assertions are on)',
    'concurrency (the processing thread, the global mutexes for custom key names / zippychord) is outside every obligation',
    'only the target_os = "linux" configuration of /repo is verified',
]

# thorough tier: the same harnesses with larger bounds (applied to the per-run snapshot of the harness files)
THOROUGH_BOUNDS = {
    'layout.rs': [('const OSH_N: usize = 3;', 'const OSH_N: usize = 4;'),
                  ('const WQ_N: usize = 4;', 'const WQ_N: usize = 5;')],
}
THOROUGH_NOTE = 'one-shot tables <= 4 coordinates, event queue <= 5 events'


