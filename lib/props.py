"""Per-property registry: which Verus units and Kani harnesses decide which property."""

KANI_MODS = {
    # harness module path prefix per hook (crate-relative module path of `mod verif_kani`)
}


def H(crate, mod, name, **kw):
    d = dict(crate=crate, name=name, full='%s::verif_kani::%s' % (mod, name))
    d.update(kw)
    return d


PROPS = {}

PROPS['C10'] = dict(
    level='proof',
    level_text=('Unbounded deductive proof (Verus/Z3) of contracts spliced onto the text of switch.rs cut from /repo on every run; '
                'Kani (CBMC) full-domain harnesses on the unextracted functions. Proof is the right level because the property is '
                'universally quantified over expressions, operands and thresholds and is a per-call input/output relation.'),
    level_note='Trusted: rustc, Verus+Z3, Kani+CBMC, the extractor; assumed: parser emits the prefix encoding, ArrayDeque(Saturating) contract, leaf-iterator split (checked by Kani on the real function, bounded environment).',
    technique='contract-based deductive verification (Verus requires/ensures/invariants on extracted real code + Kani harnesses)',
    explanation=('Contracts on the real switch.rs functions. Verus (unbounded): lossy tick codec equals its documented '
                 'spec and round-trips within the documented resolution; every OpCode constructor followed by opcode_type '
                 'decodes to the operand it was built from (bit-vector lemmas); all assert!/expect/unreachable!/overflow '
                 'sites in those functions are proved unreachable under the stated preconditions.'),
    verus=[dict(unit='switch')],
    kani=[],
    assumptions=[
        'the parser emits enc(e) for a written expression e (parse_switch_case_bool is outside both verifiers)',
        'hand-off of fired switch actions into the action queue and fork live in Layout::do_action (not under contract)',
    ],
    trusted_base=['rustc', 'Verus 0.2026.09.13 / Z3', 'extractor lib/rustcut.py + lib/verusgen.py (rewrites logged in rewrites_applied)'],
)


def find_harness(name):
    for p in PROPS.values():
        for h in p.get('kani', []):
            if h['name'] == name:
                return h
    for h in EXTRA_HARNESSES:
        if h['name'] == name:
            return h
    return None


EXTRA_HARNESSES = []
