"""Per-property registry: which Verus units and Kani harnesses decide which property."""

KANI_MODS = {
    # harness module path prefix per hook (crate-relative module path of `mod verif_kani`)
}


def H(crate, mod, name, **kw):
    d = dict(crate=crate, name=name, full='%s::verif_kani::%s' % (mod, name))
    d.update(kw)
    return d


PROPS = {}

PROPS['C10'] = dict(
    level='proof',
    level_text=('Unbounded deductive proof (Verus/Z3) of contracts spliced onto the text of switch.rs cut from /repo on every run; '
                'Kani (CBMC) full-domain harnesses on the unextracted functions. Proof is the right level because the property is '
                'universally quantified over expressions, operands and thresholds and is a per-call input/output relation.'),
    level_note='Trusted: rustc, Verus+Z3, Kani+CBMC, the extractor; assumed: parser emits the prefix encoding, ArrayDeque(Saturating) contract, leaf-iterator split (checked by Kani on the real function, bounded environment).',
    technique='contract-based deductive verification (Verus requires/ensures/invariants on extracted real code + Kani harnesses)',
    explanation=('Contracts on the real switch.rs functions. Verus (unbounded): lossy tick codec equals its documented '
                 'spec and round-trips within the documented resolution; every OpCode constructor followed by opcode_type '
                 'decodes to the operand it was built from (bit-vector lemmas); all assert!/expect/unreachable!/overflow '
                 'sites in those functions are proved unreachable under the stated preconditions.'),
    verus=[dict(unit='switch', cex={'evaluate_boolean': ['c10_b_shape_nested_last_then_more', 'c10_b_shape_nested_first', 'c10_b_shape_nested_last', 'c10_b_shape_toplevel_list']})],
    kani=[
        H('keyberon', 'action::switch', 'c10_k_codec_ticks', kind='complete', functions=['keyberon/src/action/switch.rs lossy_compress_ticks', 'keyberon/src/action/switch.rs lossy_decompress_ticks', 'keyberon/src/action/switch.rs OpCode::new_ticks_since_gt', 'keyberon/src/action/switch.rs OpCode::new_ticks_since_lt', 'keyberon/src/action/switch.rs OpCode::opcode_type'], covers='all u16 thresholds x all recencies'),
        H('keyberon', 'action::switch', 'c10_k_codec_keys', kind='complete', functions=['keyberon/src/action/switch.rs OpCode::new_key', 'keyberon/src/action/switch.rs OpCode::new_key_history'], covers='all 768 key codes x all recencies'),
        H('keyberon', 'action::switch', 'c10_k_codec_bool', kind='complete', functions=['keyberon/src/action/switch.rs OpCode::new_bool', 'keyberon/src/action/switch.rs OperatorAndEndIndex::from'], covers='3 operators x all end indices <= 0x0FFF'),
        H('keyberon', 'action::switch', 'c10_k_codec_two_word', kind='complete', functions=['keyberon/src/action/switch.rs OpCode::new_active_input', 'keyberon/src/action/switch.rs OpCode::new_historical_input', 'keyberon/src/action/switch.rs OpCode::new_layer', 'keyberon/src/action/switch.rs OpCode::new_base_layer'], covers='all coordinates row<4 col<1024, recency<8, all layers < 60000'),
        H('keyberon', 'action::switch', 'c10_k_codec_ticks_neg', kind='complete', expect='fail', covers='must-fail twin: lossy codec claimed exact'),
        H('keyberon', 'action::switch', 'c10_b_leaf_key', kind='bounded', bound='<= 3 active keys', functions=['keyberon/src/action/switch.rs evaluate_boolean (KeyCode leaf arm)']),
        H('keyberon', 'action::switch', 'c10_b_leaf_key_history', kind='complete', bound='history <= 8 entries = capacity of the real History', functions=['keyberon/src/action/switch.rs evaluate_boolean (HistoricalKeyCode leaf arm)']),
        H('keyberon', 'action::switch', 'c10_b_leaf_ticks_gt', kind='complete', bound='history <= 8 entries = capacity of the real History', functions=['keyberon/src/action/switch.rs evaluate_boolean (TicksSinceGreaterThan leaf arm)']),
        H('keyberon', 'action::switch', 'c10_b_leaf_ticks_lt', kind='complete', bound='history <= 8 entries = capacity of the real History', functions=['keyberon/src/action/switch.rs evaluate_boolean (TicksSinceLessThan leaf arm)']),
        H('keyberon', 'action::switch', 'c10_b_leaf_input', kind='bounded', bound='<= 3 active coordinates', functions=['keyberon/src/action/switch.rs evaluate_boolean (Input leaf arm)']),
        H('keyberon', 'action::switch', 'c10_b_leaf_input_history', kind='complete', bound='history <= 8 entries = capacity of the real History', functions=['keyberon/src/action/switch.rs evaluate_boolean (HistoricalInput leaf arm)']),
        H('keyberon', 'action::switch', 'c10_b_leaf_layer', kind='bounded', bound='<= 3 layers in the order (only the first is read)', functions=['keyberon/src/action/switch.rs evaluate_boolean (Layer, BaseLayer leaf arms)']),
        H('keyberon', 'action::switch', 'c10_b_leaf_key_neg', kind='bounded', expect='fail', covers='must-fail twin: key leaf claimed always true'),
        H('keyberon', 'action::switch', 'c10_b_shape_nested_first', kind='bounded', bound='fixed shape (op1 (op2 a b) c), all 9 operator pairs, all 8 assignments', functions=['keyberon/src/action/switch.rs evaluate_boolean (operator stack)']),
        H('keyberon', 'action::switch', 'c10_b_shape_nested_last', kind='bounded', bound='fixed shape (op1 a (op2 b c)), all 9 operator pairs, all 8 assignments'),
        H('keyberon', 'action::switch', 'c10_b_shape_nested_last_then_more', kind='bounded', bound='fixed shape (op0 (op1 (op2 a b)) c), all 27 operator triples, all 8 assignments'),
        H('keyberon', 'action::switch', 'c10_b_shape_toplevel_list', kind='bounded', bound='fixed shape (op1 a b) c + empty list'),
    ],
    assumptions=[
        'the parser emits enc(e) for a written expression e (parse_switch_case_bool is outside both verifiers)',
        'hand-off of fired switch actions into the action queue and fork live in Layout::do_action (not under contract)',
    ],
    trusted_base=['rustc', 'Verus 0.2026.09.13 / Z3', 'extractor lib/rustcut.py + lib/verusgen.py (rewrites logged in rewrites_applied)'],
)

DYN_FUNCS = ['new', 'add_event', 'tick_record_state', 'tick_replay_state', 'begin_record_macro', 'record_press',
             'record_release', 'stop_macro', 'key_event', 'delay', 'as_u16', 'as_u16_linux', 'from',
             'lemma_release_appended', 'lemma_all_released', 'replay_step_emits_head']

PROPS['C19'] = dict(
    level='proof',
    level_text=('Unbounded deductive proof (Verus/Z3) of contracts on the recorder / replayer functions of dynamic_macro.rs, whose text is '
                'cut from /repo on every run: record = append to the typed sequence with the one-event lag; stop/begin = typed minus the stop '
                'key minus the truncated tail plus one release per key still down; replay = pop exactly the head per due tick with the '
                'configured pacing. Partial: recursion guard (play_macro) and "same output as typing again" are not decided.'),
    level_note=('Trusted: rustc, Verus+Z3, extractor. Assumed: contract of add_release_for_all_unreleased_presses (external_body, iterates a hash set); '
                'FxHashSet/VecDeque follow the vstd contracts of the std containers; play_macro not covered.'),
    technique='contract-based deductive verification (Verus requires/ensures on extracted real code, ghost view typed(state))',
    design_ref='DESIGN.md section 4, C19',
    explanation=('Verus contracts on src/kanata/dynamic_macro.rs: add_event, record_press, record_release, tick_record_state, begin_record_macro, '
                 'stop_macro, tick_replay_state, ReplayEvent accessors, plus the OsCode->u16 conversion chain they call. No preconditions on '
                 'stop_macro/begin_record_macro: they must be panic-free for every recorder state.'),
    verus=[dict(unit='dynmacro', only=DYN_FUNCS)],
    kani=[],
    assumptions=[
        'add_release_for_all_unreleased_presses appends exactly one zero-delay release per key still down (assumed, external_body)',
        'play_macro (recursion guard, queue prepending) is not under contract: "never replays itself recursively" is NOT decided',
        '"produces the same output as typing them again" is a whole-state-machine statement and is NOT decided',
        'only the target_os = "linux" arms of OsCode::as_u16 are verified',
    ],
    trusted_base=['rustc', 'Verus 0.2026.09.13 / Z3', 'vstd contracts for Vec, VecDeque, HashSet, Option',
                  'extractor lib/rustcut.py + lib/verusgen.py (rewrites logged in rewrites_applied)'],
)


def find_harness(name):
    for p in PROPS.values():
        for h in p.get('kani', []):
            if h['name'] == name:
                return h
    for h in EXTRA_HARNESSES:
        if h['name'] == name:
            return h
    return None


EXTRA_HARNESSES = []
