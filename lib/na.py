HOOKS = {
    'guard': 'cfg(kani)',
    'enable': 'cargo kani (sets --cfg kani for every workspace crate); Verus units need no hook, they read the source text. Hooks: eight `#[cfg(kani)] #[path="/verif/kani/harness/<unit>.rs"] mod verif_kani;` lines, one `#[cfg(kani)] pub use`, and check-cfg lint entries in keyberon/Cargo.toml and parser/Cargo.toml',
    'baseline_off_cmd': 'cd /repo && cargo test --workspace --no-fail-fast --offline',
    'source_commits': ['cae388d', 'e85c665'],
    'add_only': True,
}
NOTES = ('exit 0 = all obligations discharged; exit 1 = a named obligation got a verifier verdict of failure (VIOLATION line); '
         'exit 2 = undecided (anchor lost, unsupported construct, timeout, vacuity guard) and never a violation.')
NOT_APPLICABLE = {
    'C01': 'bounded-liveness over whole histories of Layout::tick/do_action + Kanata; contracts state single calls and neither installed verifier takes those functions (DESIGN 2, 4)',
    'C07': 'relational (two executions) over every prefix, gap and continuation; sufficiency of the 20-way idle conjunction is exactly that relation',
    'C12': 'acceptance loop is parser code over patricia_tree, run-time logic is Kanata state; a lemma about prefix-freedom would be a proof about a model',
    'C16': 'a relation between two configurations through the whole 4000-line parser',
    'C20': 'net-text invariant over a history of zch_press_key calls sharing eight counters behind a global mutex',
}
